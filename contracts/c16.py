"""C16 - closed-form material laws are invertible and differentiate consistently.

Functions under contract: RambergOsgood.*, HookesLaw1d/2dPlaneStress/2dPlaneStrain/3d, _Hookeslawcore,
true_stress_strain.*  (see DESIGN 4/C16).
"""
import z3
from pv.api import obligation
from pv.bounded import bounded
from pv.sym import SV, RV, ex, lg
from pv import sym, npmodel

RO = 'pylife/materiallaws/rambgood.py::RambergOsgood'
ROF = [RO + '.' + m for m in ('__init__', 'strain', 'elastic_strain', 'plastic_strain', '_get_abs_sign')]
KINDS = ('scalar', 'ndarray')


def ro_params(o):
    E, K, n = o.reals('E K n')
    o.assume(E > 0, K > 0, n > 0, n < 1)
    return E, K, n


def absz(s):
    return z3.If(s >= 0, s, -s)


def signz(s):
    return z3.If(s > 0, RV(1), z3.If(s < 0, RV(-1), RV(0)))


def spec_pow(x, a):
    """x**a for x >= 0, a > 0 as the engine writes it"""
    return z3.If(x == 0, RV(0), ex(a * lg(x)))


def spec_strain(E, K, n, s):
    return s / E + signz(s) * spec_pow(absz(s) / K, 1 / n)


def call(o, obj, name, *args, **kw):
    return o.I.call(o.method(obj, name), list(args), kw)


def _arr(kind, x):
    import numpy as np
    return np.array([x, x]) if kind == 'ndarray' else x


def _first(v):
    import numpy as np
    v = np.asarray(v)
    return float(v.ravel()[0])


def ro_real(env):
    from pylife.materiallaws.rambgood import RambergOsgood
    return RambergOsgood(env['E'], env['K'], env['n'])


def num_deriv(f, x, h0=None):
    """Richardson-extrapolated central difference of a real function (replay of `deriv` obligations)"""
    h = h0 or max(abs(x), 1.0) * 1e-3
    def cd(h):
        return (f(x + h) - f(x - h)) / (2 * h)
    return (4 * cd(h / 2) - cd(h)) / 3


@obligation('C16', 'ro.strain.spec', functions=ROF)
def ro_strain_spec(o):
    """strain(s) = s/E + sign(s) (|s|/K)^(1/n), scalar and array input; odd"""
    E, K, n = ro_params(o)
    s = o.real('s')
    ro = o.new(RO, E, K, n)
    def real(env):
        ro_ = ro_real(env)
        out = {}
        for kind in KINDS:
            out[f'strain_{kind}'] = _first(ro_.strain(_arr(kind, env['s'])))
            out[f'strain_neg_{kind}'] = _first(ro_.strain(_arr(kind, -env['s'])))
        return out
    o.set_replay(real)
    for kind in KINDS:
        r = o.named(f'strain_{kind}', o.run1(lambda: call(o, ro, 'strain', SV(s, kind=kind)), label=f'strain[{kind}]'))
        o.prove(f'strain[{kind}] == spec', r == spec_strain(E, K, n, s))
        rm = o.named(f'strain_neg_{kind}', o.run1(lambda: call(o, ro, 'strain', SV(-s, kind=kind)), label=f'strain(-s)[{kind}]'))
        o.prove(f'strain[{kind}] odd', rm == -r)
    o.prove('strain(0) == 0', z3.Implies(s == 0, r == 0))
    o.canary('canary: strain == spec + 1', r == spec_strain(E, K, n, s) + 1)


@obligation('C16', 'ro.strain.monotone', functions=ROF)
def ro_strain_monotone(o):
    """strain strictly increasing"""
    E, K, n = ro_params(o)
    s1, s2 = o.reals('s1 s2')
    ro = o.new(RO, E, K, n)
    o.set_replay(lambda env: {'r1': _first(ro_real(env).strain(env['s1'])), 'r2': _first(ro_real(env).strain(env['s2']))})
    r1 = o.named('r1', o.run1(lambda: call(o, ro, 'strain', SV(s1, kind='ndarray')), label='strain(s1)'))
    r2 = o.named('r2', o.run1(lambda: call(o, ro, 'strain', SV(s2, kind='ndarray')), label='strain(s2)'))
    # split by sign to keep each query small
    o.prove('0 <= s1 < s2 -> strain(s1) < strain(s2)', z3.Implies(z3.And(s1 >= 0, s1 < s2), r1 < r2))
    o.prove('s1 < s2 <= 0 -> strain(s1) < strain(s2)', z3.Implies(z3.And(s2 <= 0, s1 < s2), r1 < r2))
    o.prove('s1 < 0 < s2 -> strain(s1) < 0 < strain(s2)', z3.Implies(z3.And(s1 < 0, s2 > 0), z3.And(r1 < 0, r2 > 0)))
    o.canary('canary: strain decreasing', z3.Implies(s1 < s2, r1 > r2))


@obligation('C16', 'ro.compliance.deriv', functions=ROF + [RO + '.tangential_compliance', RO + '.tangential_modulus'])
def ro_compliance(o):
    """tangential_compliance = d strain / d stress (s != 0), even; modulus * compliance = 1"""
    E, K, n = ro_params(o)
    s = o.real('s')
    o.assume(s != 0)
    ro = o.new(RO, E, K, n)

    def real(env):
        ro_ = ro_real(env)
        out = {}
        for kind in KINDS:
            out[f'c_{kind}'] = _first(ro_.tangential_compliance(_arr(kind, env['s'])))
            out[f'cneg_{kind}'] = _first(ro_.tangential_compliance(_arr(kind, -env['s'])))
            out[f'm_{kind}'] = _first(ro_.tangential_modulus(_arr(kind, env['s'])))
            out[f'd_{kind}'] = num_deriv(lambda x: _first(ro_.strain(_arr(kind, x))), env['s'], abs(env['s']) * 1e-2)
        return out
    o.set_replay(real, rtol=1e-5)
    for kind in KINDS:
        st = o.run1(lambda: call(o, ro, 'strain', SV(s, kind=kind)), label=f'strain[{kind}]')
        c = o.named(f'c_{kind}', o.run1(lambda: call(o, ro, 'tangential_compliance', SV(s, kind=kind)), label=f'compliance[{kind}]'))
        d = o.named(f'd_{kind}', z3.simplify(npmodel.diff(st.t, s)))
        o.prove(f'compliance[{kind}] == d strain/ds', c == d, kind='deriv', pairs=False)
        cm = o.named(f'cneg_{kind}', o.run1(lambda: call(o, ro, 'tangential_compliance', SV(-s, kind=kind)), label=f'compliance(-s)[{kind}]'))
        o.prove(f'compliance[{kind}] even', cm == c)
        o.prove(f'compliance[{kind}] > 0', c > 0)
        m = o.named(f'm_{kind}', o.run1(lambda: call(o, ro, 'tangential_modulus', SV(s, kind=kind)), label=f'modulus[{kind}]'))
        o.prove(f'modulus*compliance[{kind}] == 1', m * c == 1)
    o.canary('canary: compliance == 2 d strain/ds', c == 2 * d)


@obligation('C16', 'ro.delta_strain', functions=ROF + [RO + '.delta_strain'])
def ro_delta_strain(o):
    """delta_strain(D) = 2 strain(D/2) (Masing doubling)"""
    E, K, n = ro_params(o)
    D = o.real('D')
    ro = o.new(RO, E, K, n)
    o.set_replay(lambda env: {f'ds_{kind}': _first(ro_real(env).delta_strain(_arr(kind, env['D']))) for kind in KINDS})
    for kind in KINDS:
        r = o.named(f'ds_{kind}', o.run1(lambda: call(o, ro, 'delta_strain', SV(D, kind=kind)), label=f'delta_strain[{kind}]'))
        o.prove(f'delta_strain[{kind}] == 2 spec(D/2)', r == 2 * spec_strain(E, K, n, D / 2))
    o.canary('canary: delta_strain == spec(D)', r == spec_strain(E, K, n, D))


STRESSF = ROF + [RO + '.stress', RO + '.stress.<locals>.residuum', RO + '.stress.<locals>.dresiduum', RO + '.tangential_compliance']


@obligation('C16', 'ro.stress.inverse', functions=STRESSF)
def ro_stress(o):
    """stress(e): newton call-site obligations (fprime is the derivative of func), and under the assumed newton
    contract strain(stress(e)) = e and stress(strain(s)) = s"""
    E, K, n = ro_params(o)
    e = o.real('e')
    ro = o.new(RO, E, K, n)
    for kind in KINDS:
        sig = o.run1(lambda: call(o, ro, 'stress', SV(e, kind=kind)), label=f'stress[{kind}]')
        back = o.run1(lambda: call(o, ro, 'strain', sig), label=f'strain(stress)[{kind}]')
        o.prove(f'strain(stress(e))[{kind}] == e', back.t == e)
        o.prove(f'sign(stress(e))[{kind}] == sign(e) or stress == 0', z3.Or(sig.t == 0, (sig.t > 0) == (e > 0)))
    o.canary('canary: strain(stress(e)) == 2e', z3.Implies(e != 0, back.t == 2 * e))


@obligation('C16', 'ro.stress.left-inverse', functions=STRESSF)
def ro_stress_left(o):
    """stress(strain(s)) = s (uses strict monotonicity of strain through the axioms)"""
    E, K, n = ro_params(o)
    s = o.real('s')
    ro = o.new(RO, E, K, n)
    o.skip_kinds = {'deriv', 'safety'}     # discharged in ro.stress.inverse for the same call site
    eps = o.run1(lambda: call(o, ro, 'strain', SV(s, kind='ndarray')), label='strain')
    sig = o.run1(lambda: call(o, ro, 'stress', eps), label='stress(strain)')
    root = o.I.newton_records[-1]['x']
    # the newton root is the root of a strictly increasing function; name the positive-root fact separately
    o.prove('newton root >= 0 (strain(root) = |e| >= 0, strain odd and increasing)', root >= 0)
    o.prove('s >= 0 -> stress(strain(s)) == s', z3.Implies(s >= 0, sig.t == s), under=[root >= 0])
    o.prove('s < 0 -> stress(strain(s)) == s', z3.Implies(s < 0, sig.t == s), under=[root >= 0])


@obligation('C16', 'ro.delta_stress', functions=STRESSF + [RO + '.delta_stress', RO + '.delta_strain'])
def ro_delta_stress(o):
    """delta_stress(De) = 2 stress(De/2); delta_strain(delta_stress(De)) = De"""
    E, K, n = ro_params(o)
    De = o.real('De')
    ro = o.new(RO, E, K, n)
    o.skip_kinds = {'deriv'}     # discharged in ro.stress.inverse for the same call site
    ds = o.run1(lambda: call(o, ro, 'delta_stress', SV(De, kind='ndarray')), label='delta_stress')
    root = o.I.newton_records[-1]['x']
    o.prove('delta_stress == 2 * (newton root) * sign(De/2)', ds.t == 2 * (root * signz(De / 2)))
    back = o.run1(lambda: call(o, ro, 'delta_strain', ds), label='delta_strain(delta_stress)')
    o.prove('delta_strain(delta_stress(De)) == De', back.t == De)


@obligation('C16', 'ro.lower_hysteresis', functions=ROF + [RO + '.lower_hysteresis', RO + '.delta_strain'])
def ro_lower_hysteresis(o):
    """lower branch meets the curve at the reversal point; guard raises for stress > max_stress"""
    E, K, n = ro_params(o)
    s, smax = o.reals('s smax')
    ro = o.new(RO, E, K, n)
    ps = o.paths(lambda: call(o, ro, 'lower_hysteresis', SV(s, kind='scalar'), SV(smax, kind='scalar')))
    rets = [p for p in ps if p.kind == 'return']
    raises = [p for p in ps if p.kind == 'raise']
    o.shape('lower_hysteresis: one returning and one raising path', len(rets) == 1 and len(raises) == 1, [(p.kind, getattr(p.exc, 'exc_type', None)) for p in ps])
    o.prove('raises iff s > smax', z3.And(*raises[0].pc) == (s > smax))
    o.prove('returns iff s <= smax', z3.And(*rets[0].pc) == (s <= smax))
    r = rets[0].result
    o.take_side_obligations(rets[0], 'lower_hysteresis')
    o.prove('lower_hysteresis(smax, smax) == strain(smax)', z3.Implies(s == smax, r.t == spec_strain(E, K, n, smax)), under=rets[0].pc)
    o.prove('lower_hysteresis == strain(smax) - 2 strain((smax - s)/2)',
            r.t == spec_strain(E, K, n, smax) - 2 * spec_strain(E, K, n, (smax - s) / 2), under=rets[0].pc)


# ---------------------------------------------------------------------------------------------
HK = 'pylife/materiallaws/hookeslaw.py::'


def hooke_params(o):
    E, nu = o.reals('E nu')
    o.assume(E > 0, nu > -1, nu < RV(0.5))
    return E, nu


@obligation('C16', 'hooke.core', functions=[HK + '_Hookeslawcore.__init__', HK + '_Hookeslawcore._validateinit'])
def hooke_core(o):
    """G = E/(2(1+nu)), K = E/(3(1-2nu)); constructor raises outside -1 <= nu <= 1/2"""
    E, nu = o.reals('E nu')
    o.assume(E > 0)
    c = o.cls(HK + 'HookesLaw3d')
    ps = o.paths(lambda: o.I.instantiate(c, [SV(E), SV(nu)], {}))
    rets = [p for p in ps if p.kind == 'return']
    raises = [p for p in ps if p.kind == 'raise']
    ok = z3.Or(*[z3.And(*p.pc) if p.pc else z3.BoolVal(True) for p in rets])
    o.prove('constructor returns iff -1 <= nu <= 1/2', ok == z3.And(nu >= -1, nu <= RV(0.5)))
    for i, p in enumerate(rets):
        obj = p.result
        inside = z3.And(nu > -1, nu < RV(0.5))
        for ob in p.obs:
            o.prove(f'safety[{i}]: {ob.label}', z3.Implies(inside, ob.goal), under=ob.hyps, kind='safety')
        o.prove(f'G[{i}]', z3.Implies(inside, obj.fields['_G'].t * (2 * (1 + nu)) == E), under=p.pc)
        o.prove(f'K[{i}]', z3.Implies(inside, obj.fields['_K'].t * (3 * (1 - 2 * nu)) == E), under=p.pc)
    o.note("nu = -1 and nu = 1/2 pass the guard although G resp. K divide by zero there; the property's range is the open interval")


@obligation('C16', 'hooke.1d', functions=[HK + 'HookesLaw1d.stress', HK + 'HookesLaw1d.strain'])
def hooke_1d(o):
    E, x = o.reals('E x')
    o.assume(E > 0)
    h = o.new(HK + 'HookesLaw1d', E)
    for kind in KINDS:
        e = o.run1(lambda: call(o, h, 'strain', SV(x, kind=kind)), label='strain')
        s = o.run1(lambda: call(o, h, 'stress', e), label='stress')
        o.prove(f'stress(strain(x))[{kind}] == x', s.t == x)
        s2 = o.run1(lambda: call(o, h, 'stress', SV(x, kind=kind)), label='stress')
        e2 = o.run1(lambda: call(o, h, 'strain', s2), label='strain')
        o.prove(f'strain(stress(x))[{kind}] == x', e2.t == x)


def vals(xs):
    return [v.t for v in xs]


@obligation('C16', 'hooke.planestress', functions=[HK + 'HookesLaw2dPlaneStress.' + m for m in ('__init__', 'stress', 'strain')] + [HK + '_Hookeslawcore._as_consistant_arrays'])
def hooke_plane_stress(o):
    """plane stress: stress(strain(.)) = id, strain(stress(.)) = id; equals 3D law at zero out-of-plane stress"""
    E, nu = hooke_params(o)
    s11, s22, s12 = o.reals('s11 s22 s12')
    h = o.new(HK + 'HookesLaw2dPlaneStress', E, nu)
    h3 = o.new(HK + 'HookesLaw3d', E, nu)
    for kind in KINDS:
        a = [SV(v, kind=kind) for v in (s11, s22, s12)]
        e11, e22, e33, g12 = o.run1(lambda: call(o, h, 'strain', *a), label='strain')
        b = o.run1(lambda: call(o, h, 'stress', e11, e22, g12), label='stress')
        for nm, x, y in zip(('s11', 's22', 's12'), vals(b), (s11, s22, s12)):
            o.prove(f'stress(strain)[{kind}].{nm}', x == y)
        # other direction
        e = [SV(v, kind=kind) for v in (s11, s22, s12)]     # reuse the symbols as strains
        t11, t22, t12 = o.run1(lambda: call(o, h, 'stress', *e), label='stress2')
        f11, f22, f33, f12 = o.run1(lambda: call(o, h, 'strain', t11, t22, t12), label='strain2')
        for nm, x, y in zip(('e11', 'e22', 'g12'), vals((f11, f22, f12)), (s11, s22, s12)):
            o.prove(f'strain(stress)[{kind}].{nm}', x == y)
        # 3D law at s33 = s13 = s23 = 0
        z = SV(RV(0), kind=kind)
        d = o.run1(lambda: call(o, h3, 'strain', a[0], a[1], z, a[2], z, z), label='strain3d')
        for nm, x, y in zip(('e11', 'e22', 'e33', 'g12'), vals((e11, e22, e33, g12)), vals((d[0], d[1], d[2], d[3]))):
            o.prove(f'plane stress == 3D[{kind}].{nm}', x == y)
        o.prove(f'3D out-of-plane shear strains vanish[{kind}]', z3.And(d[4].t == 0, d[5].t == 0))
    o.canary('canary: e33 == 0', z3.Implies(s11 + s22 != 0, z3.Implies(nu != 0, e33.t == 0)))


@obligation('C16', 'hooke.planestrain', functions=[HK + 'HookesLaw2dPlaneStrain.' + m for m in ('__init__', 'stress', 'strain')] + [HK + 'HookesLaw2dPlaneStress.stress', HK + 'HookesLaw2dPlaneStress.strain'])
def hooke_plane_strain(o):
    """plane strain: inverses; equals 3D law at zero out-of-plane strain incl. s33 = nu (s11 + s22)"""
    E, nu = hooke_params(o)
    e11, e22, g12 = o.reals('e11 e22 g12')
    h = o.new(HK + 'HookesLaw2dPlaneStrain', E, nu)
    h3 = o.new(HK + 'HookesLaw3d', E, nu)
    for kind in KINDS:
        a = [SV(v, kind=kind) for v in (e11, e22, g12)]
        s11, s22, s33, s12 = o.run1(lambda: call(o, h, 'stress', *a), label='stress')
        b = o.run1(lambda: call(o, h, 'strain', s11, s22, s12), label='strain')
        for nm, x, y in zip(('e11', 'e22', 'g12'), vals(b), (e11, e22, g12)):
            o.prove(f'strain(stress)[{kind}].{nm}', x == y)
        t = o.run1(lambda: call(o, h, 'strain', *a), label='strain2')
        u = o.run1(lambda: call(o, h, 'stress', t[0], t[1], t[2]), label='stress2')
        for nm, x, y in zip(('s11', 's22', 's12'), (u[0].t, u[1].t, u[3].t), (e11, e22, g12)):
            o.prove(f'stress(strain)[{kind}].{nm}', x == y)
        z = SV(RV(0), kind=kind)
        d = o.run1(lambda: call(o, h3, 'stress', a[0], a[1], z, a[2], z, z), label='stress3d')
        for nm, x, y in zip(('s11', 's22', 's33', 's12'), vals((s11, s22, s33, s12)), vals((d[0], d[1], d[2], d[3]))):
            o.prove(f'plane strain == 3D[{kind}].{nm}', x == y)
    o.canary('canary: s33 == 0', z3.Implies(z3.And(nu != 0, e11 + e22 != 0), s33.t == 0))


@obligation('C16', 'hooke.3d', functions=[HK + 'HookesLaw3d.' + m for m in ('__init__', 'stress', 'strain')])
def hooke_3d(o):
    """3D: stress(strain(.)) = id and strain(stress(.)) = id component-wise"""
    E, nu = hooke_params(o)
    xs = o.reals('x11 x22 x33 x12 x13 x23')
    h3 = o.new(HK + 'HookesLaw3d', E, nu)
    for kind in KINDS:
        a = [SV(v, kind=kind) for v in xs]
        e = o.run1(lambda: call(o, h3, 'strain', *a), label='strain')
        s = o.run1(lambda: call(o, h3, 'stress', *e), label='stress')
        for nm, x, y in zip('11 22 33 12 13 23'.split(), vals(s), xs):
            o.prove(f'stress(strain)[{kind}].{nm}', x == y)
        s2 = o.run1(lambda: call(o, h3, 'stress', *a), label='stress2')
        e2 = o.run1(lambda: call(o, h3, 'strain', *s2), label='strain2')
        for nm, x, y in zip('11 22 33 12 13 23'.split(), vals(e2), xs):
            o.prove(f'strain(stress)[{kind}].{nm}', x == y)
    o.canary('canary: stress(strain).11 == x22', z3.Implies(xs[0] != xs[1], s[0].t == xs[1]))


@obligation('C16', 'hooke.shape-guard', functions=[HK + '_Hookeslawcore._as_consistant_arrays'])
def hooke_shape(o):
    """inconsistent component shapes raise ValueError"""
    E, nu = hooke_params(o)
    x, y, w = o.reals('x y w')
    h = o.new(HK + 'HookesLaw2dPlaneStress', E, nu)
    ps = o.paths(lambda: call(o, h, 'strain', SV(x, kind='ndarray'), SV(y, kind='scalar'), SV(w, kind='ndarray')))
    o.prove('mixed scalar/array components raise', z3.BoolVal(all(p.kind == 'raise' and p.exc.exc_type == 'ValueError' for p in ps)))


# ---------------------------------------------------------------------------------------------
TS = 'pylife/materiallaws/true_stress_strain.py::'


@obligation('C16', 'true_stress_strain', functions=[TS + f for f in ('true_strain', 'true_stress', 'true_fracture_strain', 'true_fracture_stress')])
def true_ss(o):
    """true strain/stress are the exact inverses of e = exp(eps) - 1, s = s_true / (1 + e)"""
    e, s, Z, F, A0 = o.reals('e s Z F A0')
    o.assume(e > -1, Z >= 0, Z < 1, A0 > 0)
    for kind in KINDS:
        eps = o.run1(lambda: o.I.call(o.func(TS + 'true_strain'), [SV(e, kind=kind)]), label='true_strain')
        o.prove(f'exp(true_strain(e)) - 1 == e [{kind}]', sym.exp(eps.t) - 1 == e)
        st = o.run1(lambda: o.I.call(o.func(TS + 'true_stress'), [SV(s, kind=kind), SV(e, kind=kind)]), label='true_stress')
        o.prove(f'true_stress/(1+e) == s [{kind}]', st.t / (1 + e) == s)
        ef = o.run1(lambda: o.I.call(o.func(TS + 'true_fracture_strain'), [SV(Z, kind=kind)]), label='true_fracture_strain')
        o.prove(f'exp(-true_fracture_strain) == 1 - Z [{kind}]', sym.exp(-ef.t) == 1 - Z)
        sf = o.run1(lambda: o.I.call(o.func(TS + 'true_fracture_stress'), [SV(F, kind=kind), SV(A0, kind=kind), SV(Z, kind=kind)]), label='true_fracture_stress')
        o.prove(f'true_fracture_stress * A0 (1 - Z) == F [{kind}]', sf.t * (A0 * (1 - Z)) == F)
    o.canary('canary: true_strain == e', z3.Implies(e != 0, eps.t == e))



@bounded('C16', 'inverse-grid', shards=8)
def b_inverse(ctx):
    """the numeric side of the Ramberg-Osgood inverse (the proof idealises Newton's iteration to 'returns a root'): stress(strain(s)) = s, strain(stress(e)) = e,
    delta_stress(delta_strain(ds)) = ds on a parameter grid, for scalars and for arrays / Series that mix signs and contain exact zeros; oddness; Hooke 1D / 3D round
    trips on the same containers (added after seed C16-d handed scipy a second derivative that is infinite at zero stress for n > 1/2)"""
    import itertools
    import warnings
    import numpy as np
    import pandas as pd
    from pylife.materiallaws import RambergOsgood
    from pylife.materiallaws.hookeslaw import HookesLaw1d, HookesLaw3d
    warnings.simplefilter('ignore')
    Es, Ks = [70e3, 210e3], [500.0, 1078.0, 2650.0]
    ns = [0.1, 0.133, 0.2, 0.35, 0.5, 0.6, 0.8, 0.95]
    fractions = [-1.2, -0.6, -0.05, 0.0, 1e-6, 0.02, 0.3, 0.9, 1.3]
    ctx.bound = f"E in {Es}, K in {Ks}, n in {ns}; stresses = K x {fractions} (all in one array: signs mixed, exact zero included), the same as scalars and as a Series; stress ranges 2 x |.|; entries with a total strain above 10 % dropped; tolerance 1e-4 relative + 1e-6 K"
    ctx.rule = "every (parameter set, container, function) is one case; non-trivial: array / Series input"
    ctx.exhaustive = True
    for E, K, n in itertools.product(Es, Ks, ns):
        if not ctx.mine():
            continue
        ro = RambergOsgood(E, K, n)
        s = np.array(fractions) * K
        # "within the physically meaningful range": total strains up to 10 % - cyclic stress-strain curves are used for strains of a few per cent - (for n = 0.1 a stress of 1.3 K means a strain of 1380 %, and already at 35 % Newton's iteration
        # from the elastic estimate does not converge on the unchanged tree either - outside the statement's domain, stated in the bound)
        s = s[np.abs(np.asarray(ro.strain(s), dtype=float)) <= 0.1]
        ds = 2 * np.abs(s)

        def close(a, b):
            a, b = np.asarray(a, dtype=float), np.asarray(b, dtype=float)
            return a.shape == b.shape and bool(np.all(np.isfinite(a))) and bool(np.all(np.abs(a - b) <= 1e-4 * np.abs(b) + 1e-6 * K))
        containers = {'array': lambda v: np.array(v, dtype=float), 'series': lambda v: pd.Series(np.array(v, dtype=float)), 'two-element array with a zero': lambda v: np.array([0.0, float(np.asarray(v)[-1])])}
        for cname, mk in containers.items():
            for label, fwd, back, arg in (('stress(strain(s))', ro.strain, ro.stress, s), ('delta_stress(delta_strain(ds))', ro.delta_strain, ro.delta_stress, ds)):
                x = mk(arg)
                want = np.asarray(x, dtype=float).copy()
                ctx.case(True, key=(E, K, n, cname, label))
                try:
                    got = back(fwd(x))
                except Exception as e:   # noqa
                    ctx.count(f'solver-exception:{type(e).__name__}')
                    continue
                if not close(got, want):
                    ctx.fail(f'C16:inverse:{label}:{cname}', f'RambergOsgood({E}, {K}, {n}): {label} on {cname} {want.tolist()} returns {np.asarray(got, dtype=float).tolist()}',
                             f"import numpy as np\nfrom pylife.materiallaws import RambergOsgood\nro = RambergOsgood({E}, {K}, {n})\nx = np.array({want.tolist()!r})\n"
                             f"got = ro.{'stress(ro.strain(x))' if label.startswith('stress') else 'delta_stress(ro.delta_strain(x))'}\nprint(got)\nassert np.allclose(got, x, rtol=1e-4, atol=1e-6 * {K})\n")
            # the other direction, and oddness
            e = np.asarray(ro.strain(s), dtype=float)
            x = mk(e)
            ctx.case(True, key=(E, K, n, cname, 'strain(stress(e))'))
            try:
                eb = np.asarray(ro.strain(ro.stress(x)), dtype=float)
                if not (np.all(np.isfinite(eb)) and np.all(np.abs(eb - np.asarray(x, dtype=float)) <= 1e-4 * np.abs(np.asarray(x, dtype=float)) + 1e-6 * K / E)):
                    ctx.fail(f'C16:inverse:strain(stress(e)):{cname}', f'RambergOsgood({E}, {K}, {n}): strain(stress(e)) on {cname} {np.asarray(x, dtype=float).tolist()} returns {eb.tolist()}', None)
                sb, sbn = np.asarray(ro.stress(x), dtype=float), np.asarray(ro.stress(-x), dtype=float)
                if not np.all(np.abs(sb + sbn) <= 1e-4 * np.abs(sb) + 1e-6 * K):
                    ctx.fail(f'C16:odd:stress:{cname}', f'RambergOsgood({E}, {K}, {n}): stress(-e) != -stress(e) on {cname}: {sbn.tolist()} vs {sb.tolist()}', None)
            except Exception as ex_:   # noqa
                ctx.count(f'solver-exception:{type(ex_).__name__}')
        # scalars one by one
        for v in s:
            ctx.case(False, key=(E, K, n, 'scalar', float(v)))
            try:
                got = float(ro.stress(ro.strain(float(v))))
            except Exception as e:   # noqa
                ctx.count(f'solver-exception:{type(e).__name__}')
                continue
            if not close(got, float(v)):
                ctx.fail('C16:inverse:stress(strain(s)):scalar', f'RambergOsgood({E}, {K}, {n}): stress(strain({v})) = {got}', None)
        # Hooke's laws with components of different number types: a zero given as python int, an integer array of MPa values next to fractional components -
        # no component may be truncated (added after seed C16-e cast all components to the dtype of the first one)
        from pylife.materiallaws.hookeslaw import HookesLaw2dPlaneStress, HookesLaw2dPlaneStrain
        if n == ns[0]:
            ps_, pe_, h3_ = HookesLaw2dPlaneStress(E, 0.3), HookesLaw2dPlaneStrain(E, 0.3), HookesLaw3d(E, 0.3)
            mixed = {'python int first': (0, 50.5, 20.25), 'int array first': (np.array([100, 200, -300]), np.array([50.5, -20.25, 10.75]), np.array([0.5, 0.25, -0.75])),
                     'int last': (10.5, 0.25, 3)}
            for mname, comps in mixed.items():
                fl = tuple(np.asarray(c_, dtype=float) for c_ in comps)
                ctx.case(True, key=(E, K, 'hooke-mixed', mname))
                for lname, law_ in (('plane stress', ps_), ('plane strain', pe_)):
                    a_ = [np.asarray(v_, dtype=float) for v_ in law_.strain(*comps)]
                    b_ = [np.asarray(v_, dtype=float) for v_ in law_.strain(*fl)]
                    a2 = [np.asarray(v_, dtype=float) for v_ in law_.stress(*comps)]
                    b2 = [np.asarray(v_, dtype=float) for v_ in law_.stress(*fl)]
                    if not all(np.allclose(x_, y_, rtol=1e-12, atol=0) for x_, y_ in zip(a_ + a2, b_ + b2)):
                        ctx.fail(f'C16:hooke:number-types:{lname}', f'{lname}: components given as {mname} {[np.asarray(c_).tolist() for c_ in comps]} give another result than the same numbers as floats', None)
                six = comps + fl
                a_ = [np.asarray(v_, dtype=float) for v_ in h3_.strain(*six)]
                b_ = [np.asarray(v_, dtype=float) for v_ in h3_.strain(*(fl + fl))]
                if not all(np.allclose(x_, y_, rtol=1e-12, atol=0) for x_, y_ in zip(a_, b_)):
                    ctx.fail('C16:hooke:number-types:3D', f'3D: components given as {mname} give another result than the same numbers as floats', None)
            ro_i = RambergOsgood(E, K, n)
            si = np.array([100, 0, -200])
            if not np.allclose(np.asarray(ro_i.strain(si), dtype=float), np.asarray(ro_i.strain(si.astype(float)), dtype=float), rtol=1e-12, atol=0):
                ctx.fail('C16:ramberg-osgood:number-types', 'strain of an integer stress array differs from the float array', None)
        # true stress / strain conversions on float64 arrays, 0-d arrays and Series: exact inverses of the engineering conversions, twice on the same record
        # (the frame guards compare the arguments with snapshots; added after seed C16-f added 1 to the caller's strain array in place)
        if n == ns[0]:
            import pylife.materiallaws.true_stress_strain as tss
            e_t, s_t = np.array([0.0, 0.002, 0.01, 0.05, 0.2]), np.array([0.0, 420.0, 480.0, 530.0, 560.0])
            for cname, mk in (('array', lambda v: np.array(v, dtype=float)), ('series', lambda v: pd.Series(np.array(v, dtype=float))), ('0-d array', lambda v: np.array(float(np.asarray(v)[3])))):
                ee, ss = mk(e_t), mk(s_t)
                ctx.case(True, key=(E, K, 'true-stress-strain', cname))
                for rep in (1, 2):
                    ts_ = np.asarray(tss.true_stress(ss, ee), dtype=float)
                    te_ = np.asarray(tss.true_strain(ee), dtype=float)
                    want_s = np.asarray(mk(s_t), dtype=float) * (1 + np.asarray(mk(e_t), dtype=float))
                    want_e = np.log1p(np.asarray(mk(e_t), dtype=float))
                    if not (np.allclose(ts_, want_s, rtol=1e-12, atol=0) and np.allclose(te_, want_e, rtol=1e-12, atol=1e-300)):
                        ctx.fail(f'C16:true-stress-strain:{cname}', f'true_stress / true_strain on {cname} (evaluation {rep} of the same record): {ts_.tolist()} / {te_.tolist()}, expected {want_s.tolist()} / {want_e.tolist()}', None)
                        break
        h1, h3 = HookesLaw1d(E), HookesLaw3d(E, 0.3)
        for cname, mk in list(containers.items())[:2]:
            x = mk(s)
            ctx.case(True, key=(E, K, n, cname, 'hooke'))
            if not close(h1.stress(h1.strain(x)), np.asarray(x, dtype=float)):
                ctx.fail(f'C16:hooke1d:{cname}', f'HookesLaw1d({E}): stress(strain(x)) != x on {cname}', None)
            e11, e22, e33, g12, g13, g23 = h3.strain(x, 0.5 * x, -x, 0.1 * x, 0 * x, 0.2 * x)
            back = h3.stress(e11, e22, e33, g12, g13, g23)
            if not all(close(b, w) for b, w in zip(back, (x, 0.5 * x, -x, 0.1 * x, 0 * x, 0.2 * x))):
                ctx.fail(f'C16:hooke3d:{cname}', f'HookesLaw3d({E}, 0.3): stress(strain(.)) is not the identity on {cname}', None)
    ctx.sample({'E': 210e3, 'K': 1078.0, 'n': 0.6, 'stresses': [f * 1078.0 for f in fractions]})


META = {
    'level': 'proof',
    'explanation': "Every clause of C16 is an obligation generated from the current text of rambgood.py / hookeslaw.py / true_stress_strain.py "
                   "and discharged by z3 for all real parameters in the stated ranges (E,K>0, 0<n<1, -1<nu<1/2), scalar and array (generic element) input. "
                   "The inverse RambergOsgood.stress goes through scipy.optimize.newton: proved are the call-site obligations (fprime is the derivative of func) "
                   "and, from the assumed contract 'newton returns a root', strain(stress(e)) = e, stress(strain(s)) = s and the Masing pair.",
    'not_decided': ["that Newton's iteration converges for every input and how close to the root it stops (tolerance idealised to 0): bounded stand-in inverse-grid only",
                    "derivative claim at exactly s = 0 (one point)"],
    'trusted_base': ['assumed contract of scipy.optimize.newton', 'axioms of 10**u / log10 (inverse, monotone, homomorphism)', 'floats = reals'],
}
