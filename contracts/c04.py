"""C04 - second HCM pass counts exactly the steady-state hystereses of the sequence."""
import z3
from pv.api import obligation
from pv.bounded import bounded

FN = 'pylife/stress/rainflow/fkm_nonlinear.py::FKMNonlinearDetector'

_law = None


def law():
    global _law
    if _law is None:
        from pylife.materiallaws.notch_approximation_law import ExtendedNeuber, Binned
        _law = Binned(ExtendedNeuber(206e3, 1184.0, 0.187, 2.5), 400.0, 50)
    return _law


def run_hcm(seq, law_=None):
    import numpy as np
    import pylife.stress.rainflow.fkm_nonlinear as FNM
    import pylife.stress.rainflow.recorders as RFR
    rec = RFR.FKMNonlinearRecorder()
    det = FNM.FKMNonlinearDetector(recorder=rec, notch_approximation_law=law_ or law())
    import pandas as pd
    s = seq if isinstance(seq, pd.Series) else np.array(seq, dtype=float)
    det.process_hcm_first(s).process_hcm_second(s)
    return rec, det


def _last_is_turn_of_repeated(seq):
    """the last sample (its trailing plateau) is a reversal of seq, seq, seq, ... (independent of pyLife)"""
    from specs.rainflow_spec import TP
    tw = list(seq) + list(seq)
    last = len(seq) - 1
    while last > 0 and seq[last - 1] == seq[last]:
        last -= 1
    return last in TP(tw)


def classify(seq):
    """junction configuration of a sequence (for finding keys)"""
    first, last = seq[0], seq[-1]
    # mechanism: the last sample is a reversal of the repeated sequence but not of the sequence continued with the artificial zero load:
    # it is then processed at the start of pass 2 and again as the closing sample of pass 2
    if _last_is_turn_of_repeated(seq) and not _last_is_turn_of_repeated([0.0] + list(seq)):
        return 'last-reversal-deferred-to-pass-2'
    tags = []
    if len(seq) >= 2 and seq[-1] == seq[-2]:
        tags.append('trailing-plateau')
    if len(seq) >= 2 and seq[0] == seq[1]:
        tags.append('leading-plateau')
    if first != 0 and last != first and min(0, first) < last < max(0, first):
        tags.append('last-between-zero-and-first')
    if last == first:
        tags.append('last-equals-first')
    if last == 0:
        tags.append('last-zero')
    if first == 0:
        tags.append('first-zero')
    return '+'.join(tags) or 'plain'


def insertions(seq):
    """all single insertions of a non-reversal sample of the periodic sequence (interior, trailing, leading, junction)"""
    from specs.hcm_spec import cyclic_reversals
    base = cyclic_reversals(seq)
    out = []
    n = len(seq)
    for pos in range(0, n + 1):
        a = seq[pos - 1] if pos > 0 else seq[-1]
        b = seq[pos] if pos < n else seq[0]
        cands = {a, b}
        if a != b:
            cands.add((a + b) / 2)
        for v in cands:
            y = list(seq[:pos]) + [v] + list(seq[pos:])
            if cyclic_reversals(y) == base or sorted_rot_equal(cyclic_reversals(y), base):
                out.append((pos, v, y))
    return out


def sorted_rot_equal(a, b):
    if len(a) != len(b):
        return False
    if not a:
        return True
    for k in range(len(a)):
        if a[k:] + a[:k] == b:
            return True
    return False


@bounded('C04', 'second-pass=periodic-rainflow', shards=16)
def b_second_pass(ctx):
    """contract of process_hcm_first/second: hystereses with run_index 2 have (loads_min, loads_max) equal, as a multiset and each once, to the rainflow
    cycles of the periodic reversal sequence started at its largest |load|; all of them closed; half counted (Memory 3) hystereses only in pass 1 and
    symmetric about zero; unchanged under every single insertion of a non-reversal sample (interior, leading, trailing, junction)"""
    import itertools
    import warnings
    import numpy as np
    from specs.hcm_spec import periodic_rainflow
    warnings.simplefilter('ignore')
    vals = [-300.0, -200.0, -100.0, 0.0, 100.0, 200.0, 300.0]
    maxlen = 4 if ctx.tier == 'quick' else 5
    extra = [[100, -200, 300, -100, 200, -300, 50], [100, -200, 300, -100, 200, -300, -300], [100, -200, 100, -250, 200, 0, 200, -200],
             [0, 300, -100, 200, -300, 0], [-100, 200, -300, 300, -50], [200, -100, 300, -300, 100, 100], [100, 200, 300, -300, 0, 100],
             [100.0005, -50, 100, -80], [-100.0005, 50, -100, 80], [300, -100.001, 200, -200, 100]]   # ranges that differ by 5e-6 relative
    ctx.bound = f"all sequences over {{-300,...,300 step 100}} with >= 2 distinct values of length 2..{maxlen} plus {len(extra)} longer hand-picked ones; each with every single insertion of a non-reversal sample; a third of the sequences also as two-point signals in 3 index layouts and with the second point loaded in the opposite direction; a third as single-level Series with other labels; extended Neuber law behind Binned"
    ctx.rule = "non-trivial: the periodic sequence has >= 2 closed cycles or the junction is not a plain reversal; distinct by (sequence, insertion)"
    ctx.exhaustive = True
    seqs = [list(s) for L in range(2, maxlen + 1) for s in itertools.product(vals, repeat=L) if len(set(s)) >= 2] + [[float(v) for v in s] for s in extra]
    for seq in seqs:
        if not ctx.mine():
            continue
        want = periodic_rainflow(seq)
        got_orig = None
        variants = [('original', None, seq)] + [('insert', (pos, v), y) for pos, v, y in insertions(seq)]
        for kind, info, y in variants:
            if len(set(y)) < 2:
                continue
            try:
                rec, det = run_hcm(y)
            except Exception as e:   # noqa
                ctx.fail(f'C04:raises:{type(e).__name__}', f'HCM raises {type(e).__name__}: {e} for {y}', {'sequence': y})
                continue
            c = rec.collective
            r2 = c[c.run_index == 2]
            got = sorted(zip(r2.loads_min.astype(float), r2.loads_max.astype(float)))
            if kind == 'original':
                got_orig = got
            cls = classify(y)
            ctx.case(len(want) >= 2 or cls != 'plain', key=(tuple(y),))
            if got != want:
                ctx.fail(f'C04:second-pass:{cls}', f'pass 2 of {y} records {got}, periodic rainflow gives {want}' + (f' (sequence {seq} with {info[1]} inserted at {info[0]})' if info else ''),
                         "import numpy as np\nimport pylife.stress.rainflow.fkm_nonlinear as F, pylife.stress.rainflow.recorders as R\n"
                         "from pylife.materiallaws.notch_approximation_law import ExtendedNeuber, Binned\n"
                         f"law = Binned(ExtendedNeuber(206e3, 1184.0, 0.187, 2.5), 400.0, 50)\nrec = R.FKMNonlinearRecorder(); det = F.FKMNonlinearDetector(recorder=rec, notch_approximation_law=law)\n"
                         f"s = np.array({y!r}, dtype=float)\ndet.process_hcm_first(s).process_hcm_second(s)\nc = rec.collective\nprint(c[c.run_index == 2][['loads_min', 'loads_max', 'is_closed_hysteresis']])\n"
                         f"print('periodic rainflow:', {want!r})\nassert sorted(zip(c[c.run_index == 2].loads_min, c[c.run_index == 2].loads_max)) == {want!r}\n")
                continue
            if not bool(r2.is_closed_hysteresis.all()):
                ctx.fail(f'C04:half-hysteresis-in-pass-2:{cls}', f'pass 2 of {y} contains a half counted hysteresis', {'sequence': y})
            r1 = c[c.run_index == 1]
            half = r1[~r1.is_closed_hysteresis.astype(bool)]
            if len(half) and not np.allclose(half.loads_min.astype(float), -half.loads_max.astype(float)):
                ctx.fail(f'C04:half-hysteresis-not-symmetric:{cls}', f'half counted hysteresis of {y} not symmetric about zero', {'sequence': y})
        # the unit of the loads is the user's: the same sequence in much larger units (numbers of the order 1e-9), and with two ranges that differ by 5e-6 relative
        # (added after seed C04-e decided "the new range closes the open hysteresis" with np.isclose): the counting depends on the ORDER of the ranges only
        if ctx._i % 4 == 1 or len(seq) > 4:
            from pylife.materiallaws.notch_approximation_law import ExtendedNeuber, Binned
            variants2 = [('x 1e-9', [v * 1e-11 for v in seq], 400e-11)]       # loads of 1e-9 .. 3e-9
            if len(seq) >= 4 and len(set(seq)) == len(seq):
                bump = list(seq)
                bump[0] = seq[0] * (1 + 5e-6) if seq[0] != 0 else 1e-3
                variants2.append(('first sample x (1 + 5e-6)', bump, 400.0))
            for vname, y2, mx in variants2:
                # scaled: exactly the hystereses of the unscaled run, scaled (whatever they are: the known finding about a deferred last reversal stays out of it);
                # bumped: the periodic rainflow of the bumped sequence, for plain junctions
                if vname == 'x 1e-9':
                    # (not for the hand-picked near-tie sequences: the code's own guard `extent < previous - 1e-12` is absolute, ranges that differ by 5e-15 are a tie for it)
                    if got_orig is None or any(float(v) != int(v) for v in seq):
                        continue
                    want2 = sorted((a_ * 1e-11, b_ * 1e-11) for a_, b_ in got_orig)
                else:
                    if classify(seq) != 'plain':
                        continue
                    want2 = periodic_rainflow(y2)
                ctx.case(True, key=(tuple(seq), vname))
                try:
                    rec, det = run_hcm(y2, Binned(ExtendedNeuber(206e3, 1184.0, 0.187, 2.5), mx, 50))
                except Exception as e:   # noqa
                    ctx.fail(f'C04:scaled:raises:{type(e).__name__}', f'HCM raises {type(e).__name__}: {e} for {y2}', {'sequence': y2})
                    continue
                c = rec.collective
                r2 = c[c.run_index == 2]
                got2 = sorted(zip(r2.loads_min.astype(float), r2.loads_max.astype(float)))
                if [(round(a_ / 1e-11, 4), round(b_ / 1e-11, 4)) for a_, b_ in got2] != [(round(a_ / 1e-11, 4), round(b_ / 1e-11, 4)) for a_, b_ in want2] if vname == 'x 1e-9' else got2 != want2:
                    ctx.fail('C04:second-pass:unit-scale', f'pass 2 of {y2} ({vname}) records {got2}, periodic rainflow gives {want2}', {'sequence': y2})
        # the same sequence as a single-point pandas Series whose index is not 0..n-1 (load steps counted from 1, time stamps, repeated labels): the rows in their
        # order are the load history, labels mean nothing (added after seed C04-g indexed the Series by label in the junction helpers)
        if (ctx._i % 3 == 1 or len(seq) > 4) and got_orig is not None:
            import pandas as pd
            tails = [list(seq), list(seq) + [seq[-1]]]
            for y3 in tails:
                ref3 = got_orig
                if len(y3) != len(seq):
                    try:
                        rec, det = run_hcm(y3)
                        c = rec.collective
                        ref3 = sorted(zip(c[c.run_index == 2].loads_min.astype(float), c[c.run_index == 2].loads_max.astype(float)))
                    except Exception:   # noqa
                        continue
                for cname, mk in (('load steps 1..n', lambda v: pd.Series(v, index=pd.RangeIndex(1, len(v) + 1, name='load_step'))),
                                  ('time stamps', lambda v: pd.Series(v, index=pd.date_range('2024-01-01', periods=len(v), freq='s'))),
                                  ('descending labels', lambda v: pd.Series(v, index=list(range(len(v), 0, -1))))):
                    ctx.case(True, key=(tuple(y3), cname))
                    try:
                        rec, det = run_hcm(mk([float(v) for v in y3]))
                        c = rec.collective
                        got3 = sorted(zip(c[c.run_index == 2].loads_min.astype(float), c[c.run_index == 2].loads_max.astype(float)))
                    except Exception as e:   # noqa
                        ctx.fail(f'C04:series-container:raises:{type(e).__name__}', f'HCM on {y3} given as a Series ({cname}) raises {type(e).__name__}: {str(e)[:150]}', {'sequence': y3, 'container': cname})
                        continue
                    if got3 != ref3:
                        ctx.fail('C04:series-container', f'pass 2 of {y3} given as a Series ({cname}) records {got3}, the same values as an array give {ref3}', {'sequence': y3, 'container': cname})
        # the same sequence as a multi-point signal (index levels load_step / node_id, two points with loads x1 and x0.5; the first listed point decides): load steps
        # labelled 0..n-1, labelled 10, 20, ... and rows listed point by point (added after seeds C04-d / C10-d dropped sort=False from a groupby over the load steps /
        # took every n-th row as the first point's history).  Load-step labels that are NOT ascending were tried as a fourth layout and withdrawn: whether a label or
        # the row position orders the load steps is not defined by the statement, and the unchanged tree itself raises ValueError for about 0.5 % of such signals;
        # that the junction helpers use the row order is the P obligation junction.scalar-samples
        if len(seq) <= 4 and ctx._i % 3 == 0 or len(seq) > 4:
            import pandas as pd
            # ('opposite-signs': the second point carries -0.5 x the load - two sides of a bending section; the FIRST listed point decides. Added after seed C04-h
            # took the maximum over the points as the load history that is searched for reversals)
            for layout in ('ascending-labels', 'gapped-labels', 'point-by-point', 'opposite-signs'):
                n = len(seq)
                f2 = -0.5 if layout == 'opposite-signs' else 0.5
                steps = list(range(n)) if layout != 'gapped-labels' else [10 * (k + 1) for k in range(n)]
                if layout == 'point-by-point':
                    sig = pd.concat({0: pd.Series(seq, index=pd.Index(steps, name='load_step')), 1: pd.Series([f2 * v for v in seq], index=pd.Index(steps, name='load_step'))},
                                    names=['node_id', 'load_step']).swaplevel()
                else:
                    idx = pd.MultiIndex.from_arrays([[st for st in steps for _ in (0, 1)], [0, 1] * n], names=['load_step', 'node_id'])
                    sig = pd.Series([v * f for v in seq for f in (1.0, f2)], index=idx)
                import pylife.stress.rainflow.fkm_nonlinear as FNM
                import pylife.stress.rainflow.recorders as RFR
                rec = RFR.FKMNonlinearRecorder()
                det = FNM.FKMNonlinearDetector(recorder=rec, notch_approximation_law=law())
                ctx.case(layout != 'ascending-labels', key=(tuple(seq), layout))
                try:
                    det.process_hcm_first(sig).process_hcm_second(sig)
                    c = rec.collective
                    c0 = c.xs(0, level='assessment_point_index') if 'assessment_point_index' in c.index.names else c
                    r2 = c0[c0.run_index == 2]
                    got = sorted(zip(r2.loads_min.astype(float), r2.loads_max.astype(float)))
                except Exception as e:   # noqa
                    ctx.fail(f'C04:multi-point-signal:{layout}:raises:{type(e).__name__}', f'HCM on the two-point signal ({layout}) of {seq} raises {type(e).__name__}: {str(e)[:150]}', {'sequence': seq, 'layout': layout})
                    continue
                # compared with the single-point run of the same sequence (whatever that records: the known finding about a deferred last reversal is the same in both)
                if got_orig is not None and got != got_orig:
                    ctx.fail(f'C04:multi-point-signal:{layout}:{classify(seq)}', f'pass 2 of {seq} given as a two-point signal ({layout}) records {got} for the first point, the single-point run {got_orig}', {'sequence': seq, 'layout': layout})
    ctx.sample({'sequence': [100.0, -200.0, 300.0, -100.0, 200.0, -300.0], 'periodic_rainflow': periodic_rainflow([100, -200, 300, -100, 200, -300])})



# ---------------------------------------------------------------------------------------------
# P: the junction helpers (which sample is flushed at the end of which pass)
# ---------------------------------------------------------------------------------------------
GENF = 'pylife/stress/rainflow/general.py::'


@obligation('C04', 'junction.last-sample-is-turn', functions=[FN + '._last_sample_is_turn_of_repeated_sequence'])
def junction_turn(o):
    """FKMNonlinearDetector._last_sample_is_turn_of_repeated_sequence(s) for every sequence s (any length >= 1, any values), with find_turns under its contract
    (returns the turning-point positions of what it is given): find_turns receives exactly s ++ s (the sequence continued by its own repetition), and the result is
    'the FIRST sample of the trailing run of equal values of s is one of the returned positions' - the trailing run is stepped back completely, whatever its length"""
    from pv.interp import Obj, SArr
    from pv.sym import SV
    s_ = o.array('scalar_samples', 'real')
    n = s_.n
    o.assume(n >= 1)
    q = z3.Int('q_')
    calls = []
    tix = o.array('turn_indices', 'int')

    def find_turns_spec(I, args, kw):
        calls.append(args[0])
        return (tix, o.array('turn_values', 'real', n=tix.n))
    o.spec(GENF + 'find_turns', find_turns_spec)
    P = FN + '._last_sample_is_turn_of_repeated_sequence'
    # loop invariant of the step-back loop: everything from `last` to the end equals the last sample
    o.loop(P, 0, lambda v: z3.And(v.last >= 0, v.last <= n - 1, z3.ForAll([q], z3.Implies(z3.And(q >= v.last, q <= n - 1), z3.Select(s_.a, q) == z3.Select(s_.a, n - 1)))),
           lambda v: v.last)
    det = Obj(o.cls(FN))

    def thunk():
        calls.clear()
        r = o.I.call(o.method(det, '_last_sample_is_turn_of_repeated_sequence'), [s_])
        return r, list(calls)
    ps = o.paths(thunk)
    rets = [p for p in ps if p.kind == 'return']
    o.shape('the function returns (on the path that leaves the step-back loop)', len(rets) >= 1 and all(p.kind in ('return', 'end') for p in ps), [(p.kind, getattr(p.exc, 'exc_type', None)) for p in ps])
    cl = {}

    def clause(label, pc, goal):
        cl.setdefault(label, []).append(z3.Implies(z3.And(*pc) if pc else z3.BoolVal(True), goal if z3.is_expr(goal) else z3.BoolVal(bool(goal))))
    for p in ps:
        o.take_side_obligations(p, 'last_sample_is_turn')
    for p in rets:
        r, cs = p.result
        clause('find_turns is called exactly once', p.pc, len(cs) == 1)
        if len(cs) != 1:
            continue
        tw = cs[0]
        clause('find_turns receives the sequence continued by its own repetition (s ++ s)', p.pc,
               z3.And(tw.n == 2 * n, z3.ForAll([q], z3.Implies(z3.And(q >= 0, q < n), z3.And(z3.Select(tw.a, q) == z3.Select(s_.a, q), z3.Select(tw.a, n + q) == z3.Select(s_.a, q))))))
        first = z3.Int('first_of_trailing_run')
        is_first = z3.And(first >= 0, first <= n - 1, z3.ForAll([q], z3.Implies(z3.And(q >= first, q <= n - 1), z3.Select(s_.a, q) == z3.Select(s_.a, n - 1))),
                          z3.Or(first == 0, z3.Select(s_.a, first - 1) != z3.Select(s_.a, n - 1)))
        member = z3.Exists([q], z3.And(q >= 0, q < tix.n, z3.Select(tix.a, q) == first))
        rt = r.t if hasattr(r, 't') else z3.BoolVal(bool(r))
        clause('result == (first sample of the trailing run of equal values is among the turning points returned)', p.pc, z3.ForAll([first], z3.Implies(is_first, rt == member)))
    for label, fs in cl.items():
        o.prove(label, z3.And(*fs), kind='glue')
    o.trusted("contract of find_turns (positions of the turning points of its argument, a plateau indexed at its first sample): bounded stand-in of C02 / C03")


@obligation('C04', 'junction.first-run-flush', functions=[FN + '._adjust_samples_and_flush_for_hcm_first_run', FN + '._scalar_samples', FN + '.process_hcm_second'])
def junction_flush(o):
    """single-point load sequences: the first pass processes [0] ++ samples and flushes its last sample iff that sample is a turning point both of the zero-prefixed
    sequence and of the sequence itself, each continued by its own repetition (the two questions are asked with exactly these two sequences); the second pass asks the
    question for the sequence itself"""
    from pv.interp import Obj, Opaque
    from pv.sym import SV
    s_ = o.array('samples', 'real')
    n = s_.n
    o.assume(n >= 2)
    q = z3.Int('q_')
    asked = []

    def turn_spec(I, args, kw):
        b_ = I.fresh('is_turn', 'bool')
        asked.append((args[1], b_))
        return SV(b_)
    o.spec(FN + '._last_sample_is_turn_of_repeated_sequence', turn_spec)
    det = Obj(o.cls(FN))

    def thunk():
        asked.clear()
        r = o.I.call(o.method(det, '_adjust_samples_and_flush_for_hcm_first_run'), [s_])
        return r, list(asked)
    ps = o.paths(thunk)
    rets = [p for p in ps if p.kind == 'return']
    o.shape('the helper returns on every path', len(rets) == len(ps) and len(rets) >= 1, [(p.kind, getattr(p.exc, 'exc_type', None)) for p in ps])
    cl = {}

    def clause(label, pc, goal):
        cl.setdefault(label, []).append(z3.Implies(z3.And(*pc) if pc else z3.BoolVal(True), goal if z3.is_expr(goal) else z3.BoolVal(bool(goal))))
    for p in rets:
        o.take_side_obligations(p, 'first_run_flush')
        (out, flush), qs = p.result
        clause('the samples handed to the first pass are [0] ++ samples', p.pc,
               z3.And(out.n == n + 1, z3.Select(out.a, 0) == 0, z3.ForAll([q], z3.Implies(z3.And(q >= 0, q < n), z3.Select(out.a, q + 1) == z3.Select(s_.a, q)))))

        def is_prefixed(a):
            return z3.And(a.n == n + 1, z3.Select(a.a, 0) == 0, z3.ForAll([q], z3.Implies(z3.And(q >= 0, q < n), z3.Select(a.a, q + 1) == z3.Select(s_.a, q))))

        def is_plain(a):
            return z3.And(a.n == n, z3.ForAll([q], z3.Implies(z3.And(q >= 0, q < n), z3.Select(a.a, q) == z3.Select(s_.a, q))))
        ft = flush.t if hasattr(flush, 't') else z3.BoolVal(bool(flush))
        # `and` short-circuits: one or two questions are asked; the first is about the zero-prefixed sequence, the second about the sequence itself
        clause('the first question is asked about [0] ++ samples', p.pc, z3.And(z3.BoolVal(len(qs) >= 1), is_prefixed(qs[0][0]) if qs else z3.BoolVal(False)))
        if len(qs) == 2:
            clause('the second question is asked about the samples themselves', p.pc, is_plain(qs[1][0]))
            clause('flush == both answers', p.pc, ft == z3.And(qs[0][1], qs[1][1]))
        elif len(qs) == 1:
            clause('flush is False without a second question only if the first answer is no', p.pc, z3.And(z3.Not(qs[0][1]), z3.Not(ft)))
        else:
            clause('one or two questions are asked', p.pc, False)
    for label, fs in cl.items():
        o.prove(label, z3.And(*fs), kind='glue')
    o.note("multi-point (MultiIndex Series) input takes the pandas branch of the helper: bounded stand-in only")



@obligation('C04', 'junction.scalar-samples', functions=[FN + '._scalar_samples'])
def scalar_samples(o):
    """_scalar_samples(samples): for single-point input the samples themselves; for a multi-point signal (Series with the index levels load_step / node_id) the load
    history of the first listed point IN THE ORDER OF THE ROWS - the junction questions are asked about this sequence, and process() walks the rows in their order.
    The signal is a ghost object whose groupby('load_step', sort=False).first() is that history, while any other grouping (sorted by label - the pandas default -,
    another level, another aggregation) is an arbitrary other array."""
    from pv.interp import Obj, PList, Builtin
    from pv.sym import SV
    hist = o.array('first_point_history', 'real')
    other = o.array('label_sorted_history', 'real')
    det = Obj(o.cls(FN))
    log = []

    class Arr:
        def __init__(self, a):
            self.a = a

        def pv_getattr(self, attr):
            if attr in ('to_numpy', 'flatten', 'ravel'):
                return Builtin(attr, lambda *a_, **k: self)
            if attr == 'values':
                return self
            raise AttributeError(attr)

    class Grouped:
        def __init__(self, ok):
            self.ok = ok

        def pv_getattr(self, attr):
            if attr == 'first':
                return Builtin('first', lambda *a_, **k: Arr(hist if self.ok else other))
            return Builtin(attr, lambda *a_, **k: Arr(other))

    class Signal:
        """multi-point signal"""
        def pv_isinstance(self, cls):
            return str(getattr(cls, 'label', '') or getattr(cls, 'tag', '') or getattr(cls, 'name', '')).endswith('Series')

        def pv_getattr(self, attr):
            if attr == 'index':
                class Ix:
                    def pv_getattr(self_, a):
                        if a == 'names':
                            return PList(['load_step', 'node_id'])
                        if a == 'nlevels':
                            return 2
                        raise AttributeError(a)
                return Ix()
            if attr == 'groupby':
                def groupby(*a_, **k):
                    by = a_[0] if a_ else k.get('by', k.get('level'))
                    sort = k.get('sort', True)
                    log.append((by, sort))
                    return Grouped(by == 'load_step' and sort is False)
                return Builtin('groupby', groupby)
            raise AttributeError(attr)
    r = o.run1(lambda: o.I.call(o.method(det, '_scalar_samples'), [Signal()]), label='_scalar_samples[multi-point]')
    got = r.a if isinstance(r, Arr) else r
    o.prove('multi-point signal: the result is the first point\'s history in row order (grouping by load_step with sort=False)', z3.BoolVal(got is hist), kind='glue')
    s_ = o.array('samples', 'real')
    r1 = o.run1(lambda: o.I.call(o.method(det, '_scalar_samples'), [s_]), label='_scalar_samples[array]')
    q = z3.Int('q_')
    o.prove('single-point input: the samples themselves', z3.And(r1.n == s_.n, z3.ForAll([q], z3.Implies(z3.And(q >= 0, q < s_.n), z3.Select(r1.a, q) == z3.Select(s_.a, q)))), kind='glue')
    # single-point input given as a pandas Series (one index level, any labels): the helpers index the result BY POSITION (x[-1], x[k]), which for a Series with
    # other labels than 0..n-1 is a label look-up - the result has to be the plain array of the values (added after seed C04-g returned the Series itself)
    sv = o.array('series_values', 'real')

    class Series1:
        def pv_isinstance(self, cls):
            return str(getattr(cls, 'label', '') or getattr(cls, 'tag', '') or getattr(cls, 'name', '')).endswith('Series')

        def pv_asarray(self):
            return sv

        def pv_getattr(self, attr):
            if attr == 'index':
                class Ix:
                    def pv_getattr(self_, a):
                        if a == 'names':
                            return PList([None])
                        if a == 'nlevels':
                            return 1
                        raise AttributeError(a)
                return Ix()
            if attr in ('to_numpy',):
                return Builtin(attr, lambda *a_, **k: sv)
            if attr == 'values':
                return sv
            raise AttributeError(attr)
    r2 = o.run1(lambda: o.I.call(o.method(det, '_scalar_samples'), [Series1()]), label='_scalar_samples[single-level Series]')
    o.prove('single-point Series: the result is the positional array of its values, not the label-indexed Series', z3.BoolVal(r2 is sv), kind='glue')


META = {
    'level': 'other',
    'explanation': "mixed. Proved: the two junction helpers that decide which sample is flushed at the end of which pass - _last_sample_is_turn_of_repeated_sequence "
                   "(find_turns receives the sequence continued by its own repetition; the trailing run of equal values is stepped back completely, loop invariant; the "
                   "answer is membership of that position in the returned turning points) and, for single-point input, _adjust_samples_and_flush_for_hcm_first_run (the first "
                   "pass gets [0] ++ samples; the flush decision is the conjunction of the question asked about [0] ++ samples and about the samples themselves). and _scalar_samples (a multi-point signal is reduced to the first point's history in row order; a single-level Series to the positional array of its values). "
                   "Bounded stand-in (labelled) for the statement itself: the second-pass contract is a whole-history statement over pandas-heavy code; it is evaluated on the "
                   "real detector for every sequence up to the stated length and every single insertion of a non-reversal sample, against an independent periodic rainflow oracle.",
    'not_decided': ["sequences longer than the bound", "multi-point (MultiIndex) branch of the first-run helper", "that the junction rule as implemented yields the periodic count (finding C04-deferred-last-reversal shows it does not always)"],
    'trusted_base': ['independent oracle specs/hcm_spec.periodic_rainflow', 'assumed contract of find_turns'],
    'rule': "sequences over a 7 value alphabet enumerated completely up to the bound; non-trivial = >= 2 closed cycles or a special junction",
}
