"""C08 - Woehler curve: cycles/load are inverses with the stated scatter semantics."""
import z3
from pv.api import obligation
from pv.bounded import bounded
from pv.sym import SV, RV, ex, lg, Pinv
from pv.interp import Rec, Obj
from pv import sym

WC = 'pylife/materiallaws/woehlercurve.py::WoehlerCurve'
FN = 'pylife/utils/functions.py::'
BC = 'pylife/core/broadcaster.py::Broadcaster.broadcast'
KINDS = ('scalar', 'ndarray', 'series')
STD = RV(0.39015207303618954)
TSC = RV(2.5631031310892007)


def lift_kind(v, kind):
    if isinstance(v, SV) and kind != 'scalar' and v.kind == 'scalar':
        return SV(v.t, v.pinf, v.ninf, v.guard, kind, v.index)
    return v


def broadcast_spec(o):
    """assumed contract of PylifeSignal.broadcast (this *is* property C13): operands come back aligned row by row, values unchanged;
    a scalar parameter returns the signal's own object (as the real code does), anything else a fresh frame"""
    from pv.npmodel import assumed

    def apply(I, args, kw):
        self_obj, prm = args[0], args[1]
        assumed(I, 'broadcast')
        obj = self_obj.fields['_obj']
        if not isinstance(prm, SV):
            prm = SV(prm)
        if prm.kind == 'scalar':
            return prm, obj
        new = Rec({k: lift_kind(v, prm.kind) for k, v in obj.fields.items()}, 'frame', index=prm.index)
        return prm, new
    o.spec(BC, apply)


def curve(o, kind='scalar', prefix='', with_scatter=True, fp=None):
    """a WoehlerCurve built by the real __init__/_validate from symbolic parameters"""
    k1, ND, SD = o.reals(f'{prefix}k_1 {prefix}ND {prefix}SD')
    k2 = o.xreal(f'{prefix}k_2')
    o.assume(k1 > 1, ND > 0, SD > 0, z3.Or(k2.P(), k2.t >= k1))
    fields = {'k_1': SV(k1), 'ND': SV(ND), 'SD': SV(SD), 'k_2': k2}
    if with_scatter:
        TN, TS = o.reals(f'{prefix}TN {prefix}TS')
        o.assume(TN >= 1, TS >= 1)
        fields.update({'TN': SV(TN), 'TS': SV(TS)})
    if fp is not None:
        fields['failure_probability'] = SV(fp)
    rec = o.rec('series', **fields)
    wc = o.new(WC, rec)
    return wc, rec


def call(o, obj, name, *args, **kw):
    return o.I.call(o.method(obj, name), list(args), kw)


def spec_pow(x, a):
    """x**a for x > 0"""
    return ex(a * lg(x))


WCF = [WC + '.' + m for m in ('__init__', '_validate', 'basquin_cycles', 'basquin_load', 'cycles', 'load', '_make_k', 'transform_to_failure_probability')]


@obligation('C08', 'validate.defaults', functions=[WC + '.__init__', WC + '._validate'])
def validate(o):
    """_validate: k_2 defaults to inf, TN/TS default to 1 or are derived TS = TN^(1/k_1), TN = TS^k_1; the caller's object is copied"""
    broadcast_spec(o)
    k1, ND, SD, T = o.reals('k_1 ND SD T')
    o.assume(k1 > 1, ND > 0, SD > 0, T >= 1)
    base = {'k_1': SV(k1), 'ND': SV(ND), 'SD': SV(SD)}
    r0 = o.rec('series', **base)
    w0 = o.new(WC, r0)
    f = w0.fields['_obj'].fields
    o.prove('defaults: k_2 = inf, TN = TS = 1, failure_probability = 0.5',
            z3.And(f['k_2'].P(), sv_t(f['TN']) == 1, sv_t(f['TS']) == 1, sv_t(f['failure_probability']) == RV(0.5)))
    o.prove('the accessor works on a copy of the given object', z3.BoolVal(w0.fields['_obj'] is not r0 and r0.writes == []))
    r1 = o.rec('series', TN=SV(T), **base)
    w1 = o.new(WC, r1)
    f = w1.fields['_obj'].fields
    o.prove('TS derived: TS^k_1 == TN', lg(sv_t(f['TS'])) * k1 == lg(T))
    r2 = o.rec('series', TS=SV(T), **base)
    w2 = o.new(WC, r2)
    f = w2.fields['_obj'].fields
    o.prove('TN derived: TN == TS^k_1', lg(sv_t(f['TN'])) == lg(T) * k1)


def sv_t(v):
    if isinstance(v, SV):
        return sym.to_real(v.t)
    return RV(float(v))


@obligation('C08', 'make_k', functions=[WC + '._make_k'])
def make_k(o):
    """_make_k(src, ref, wc) = k_2 where src < ref else k_1 (k_2 possibly inf), for scalar and per-element curves"""
    broadcast_spec(o)
    wc, rec = curve(o)
    src, ref = o.reals('src ref')
    for kind in ('ndarray', 'series'):
        for ckind in ('scalar', kind):
            wcrec = Rec({k: lift_kind(v, ckind) for k, v in wc.fields['_obj'].fields.items()}, 'series' if ckind == 'scalar' else 'frame')
            k = o.run1(lambda: call(o, wc, '_make_k', SV(src, kind=kind), SV(ref, kind=kind), wcrec), label=f'_make_k[{kind},{ckind}]')
            k1, k2 = rec.fields['k_1'].t, rec.fields['k_2']
            o.prove(f'below: k == k_2 [{kind},{ckind}]', z3.Implies(src < ref, z3.And(k.P() == k2.P(), z3.Implies(z3.Not(k2.P()), k.t == k2.t))))
            o.prove(f'at or above: k == k_1 [{kind},{ckind}]', z3.Implies(src >= ref, z3.And(z3.Not(k.P()), k.t == k1)))
    o.prove('the curve parameters are not written', z3.BoolVal(rec.writes == [] and wc.fields['_obj'].writes == ['k_2', 'TN', 'TS', 'failure_probability']))
    o.canary('canary: k == k_1 everywhere', z3.And(z3.Not(k.P()), k.t == k1))


def transform_identity_spec(o):
    """modular use of transform_to_failure_probability by its contract for p = native p: returns an equal curve (proved in transform.identity)"""
    def apply(I, args, kw):
        self_obj = args[0]
        new = Obj(self_obj.cls)
        new.fields = dict(self_obj.fields)
        new.fields['_obj'] = self_obj.fields['_obj'].copy()
        return new
    o.spec(WC + '.transform_to_failure_probability', apply)
    o.note("transform_to_failure_probability replaced by its contract at the native probability (identity, proved in transform.identity)")


@obligation('C08', 'basquin.spec', functions=WCF)
def basquin_spec(o):
    """cycles(S) = ND (S/SD)^(-k) with k = k_1 for S >= SD, k_2 below (inf for k_2 = inf); load(N) = SD (N/ND)^(-1/k) with k = k_1 for N <= ND,
    k_2 above (SD for k_2 = inf); knee: both give (SD, ND)"""
    broadcast_spec(o)
    transform_identity_spec(o)
    wc, rec = curve(o)
    k1, ND, SD, k2 = rec.fields['k_1'].t, rec.fields['ND'].t, rec.fields['SD'].t, rec.fields['k_2']
    S, N = o.reals('S N')
    o.assume(S > 0, N > 0)

    def real(env):
        import numpy as np
        import pandas as pd
        import pylife.materiallaws   # noqa: registers the accessor
        k2v = np.inf if env.get('k_2_isinf') else env['k_2']
        w = pd.Series({'k_1': env['k_1'], 'ND': env['ND'], 'SD': env['SD'], 'k_2': k2v, 'TN': env['TN'], 'TS': env['TS']}).woehler
        out = {}
        for kind in KINDS:
            ld = {'scalar': env['S'], 'ndarray': np.array([env['S'], env['S']]), 'series': pd.Series([env['S'], env['S']])}[kind]
            c = np.asarray(w.cycles(ld)).ravel()[0]
            out[f'N_{kind}_inf'] = bool(np.isinf(c))
            out[f'N_{kind}'] = 0.0 if np.isinf(c) else float(c)
            cy = {'scalar': env['N'], 'ndarray': np.array([env['N'], env['N']]), 'series': pd.Series([env['N'], env['N']])}[kind]
            out[f'L_{kind}'] = float(np.asarray(w.load(cy)).ravel()[0])
        return out
    o.set_replay(real)
    for kind in KINDS:
        n = o.run1(lambda: call(o, wc, 'cycles', SV(S, kind=kind)), label=f'cycles[{kind}]')
        ninf = o.named(f'N_{kind}_inf', n.P())
        nv = o.named(f'N_{kind}', SV(z3.If(n.P(), RV(0), n.t)))
        o.prove(f'cycles: S >= SD -> ND (S/SD)^-k_1 [{kind}]', z3.Implies(S >= SD, z3.And(z3.Not(ninf), nv == ND * spec_pow(S / SD, -k1))))
        o.prove(f'cycles: S < SD, k_2 finite -> ND (S/SD)^-k_2 [{kind}]', z3.Implies(z3.And(S < SD, z3.Not(k2.P())), z3.And(z3.Not(ninf), nv == ND * spec_pow(S / SD, -k2.t))))
        o.prove(f'cycles: S < SD, k_2 = inf -> inf [{kind}]', z3.Implies(z3.And(S < SD, k2.P()), ninf))
        o.prove(f'cycles: knee S = SD -> ND [{kind}]', z3.Implies(S == SD, z3.And(z3.Not(ninf), nv == ND)))
        o.prove(f'cycles: result kind [{kind}]', z3.BoolVal(n.kind == kind))
        ld = o.named(f'L_{kind}', o.run1(lambda: call(o, wc, 'load', SV(N, kind=kind)), label=f'load[{kind}]'))
        o.prove(f'load: N <= ND -> SD (N/ND)^(-1/k_1) [{kind}]', z3.Implies(N <= ND, ld == SD * spec_pow(N / ND, -1 / k1)))
        o.prove(f'load: N > ND, k_2 finite -> SD (N/ND)^(-1/k_2) [{kind}]', z3.Implies(z3.And(N > ND, z3.Not(k2.P())), ld == SD * spec_pow(N / ND, -1 / k2.t)))
        o.prove(f'load: N > ND, k_2 = inf -> SD [{kind}]', z3.Implies(z3.And(N > ND, k2.P()), ld == SD))
        o.prove(f'load: knee N = ND -> SD [{kind}]', z3.Implies(N == ND, ld == SD))
    o.prove('the receiver is not modified', z3.BoolVal(wc.fields['_obj'].writes == ['k_2', 'TN', 'TS', 'failure_probability']))
    o.canary('canary: cycles uses +k_1', z3.Implies(z3.And(S > SD), nv == ND * spec_pow(S / SD, k1)))


@obligation('C08', 'basquin.uses-transformed-curve', functions=[WC + '.basquin_cycles', WC + '.basquin_load', WC + '.cycles', WC + '.load'])
def uses_transformed(o):
    """a curve stored at ANY failure probability p0, evaluated at ANY probability p: cycles / load are the Basquin values of the curve transformed to p.
    transform_to_failure_probability is replaced by its contract 'returns the curve T(p)' with uninterpreted knee parameters SD_T(p), ND_T(p), of which only the
    identity T(p0) = self is known (proved in transform.identity) - so leaving the transformation out is accepted exactly when p = p0 (added after seed C08-c left it out
    for p = 0.5 whatever p0 is)"""
    broadcast_spec(o)
    p0, p = o.reals('p0 p')
    o.assume(p0 > 0, p0 < 1, p > 0, p < 1)
    wc, rec = curve(o, fp=p0)
    k1, ND, SD, k2 = rec.fields['k_1'].t, rec.fields['ND'].t, rec.fields['SD'].t, rec.fields['k_2']
    SDT = z3.Function('SD_T', z3.RealSort(), z3.RealSort())
    NDT = z3.Function('ND_T', z3.RealSort(), z3.RealSort())
    o.assume(SDT(p0) == SD, NDT(p0) == ND, SDT(p) > 0, NDT(p) > 0)

    def apply(I, args, kw):
        self_obj, q = args[0], args[1]
        qt = q.t if isinstance(q, SV) else RV(float(q))
        new = Obj(self_obj.cls)
        new.fields = dict(self_obj.fields)
        r = self_obj.fields['_obj'].copy()
        r.fields['SD'] = SV(SDT(qt))
        r.fields['ND'] = SV(NDT(qt))
        r.fields['failure_probability'] = SV(qt)
        new.fields['_obj'] = r
        return new
    o.spec(WC + '.transform_to_failure_probability', apply)
    S, N = o.reals('S N')
    o.assume(S > 0, N > 0)
    for kind in ('scalar', 'ndarray'):
        n = o.run1(lambda: call(o, wc, 'cycles', SV(S, kind=kind), SV(p)), label=f'cycles[{kind}]')
        o.prove(f'cycles(S, p): S >= SD_T(p) -> ND_T(p) (S/SD_T(p))^-k_1 [{kind}]', z3.Implies(S >= SDT(p), z3.And(z3.Not(n.P()), n.t == NDT(p) * spec_pow(S / SDT(p), -k1))))
        o.prove(f'cycles(S, p): S < SD_T(p), k_2 = inf -> inf [{kind}]', z3.Implies(z3.And(S < SDT(p), k2.P()), n.P()))
        ld = o.run1(lambda: call(o, wc, 'load', SV(N, kind=kind), SV(p)), label=f'load[{kind}]')
        o.prove(f'load(N, p): N <= ND_T(p) -> SD_T(p) (N/ND_T(p))^(-1/k_1) [{kind}]', z3.Implies(N <= NDT(p), ld.t == SDT(p) * spec_pow(N / NDT(p), -1 / k1)))
        o.prove(f'load(N, p): N > ND_T(p), k_2 = inf -> SD_T(p) [{kind}]', z3.Implies(z3.And(N > NDT(p), k2.P()), ld.t == SDT(p)))
    o.canary('canary: cycles ignores the requested probability', z3.Implies(S >= SD, n.t == ND * spec_pow(S / SD, -k1)))


@obligation('C08', 'basquin.inverse', functions=WCF)
def basquin_inverse(o):
    """load(cycles(S)) = S wherever the life is finite, cycles(load(N)) = N (for k_2 = inf only up to ND); cycles non-increasing in S;
    slope ratio law cycles(cS)/cycles(S) = c^-k"""
    broadcast_spec(o)
    transform_identity_spec(o)
    wc, rec = curve(o)
    k1, ND, SD, k2 = rec.fields['k_1'].t, rec.fields['ND'].t, rec.fields['SD'].t, rec.fields['k_2']
    S, N, S2 = o.reals('S N S2')
    o.assume(S > 0, N > 0, S2 > 0)
    kind = 'ndarray'
    n = o.run1(lambda: call(o, wc, 'cycles', SV(S, kind=kind)), label='cycles')
    fin = z3.Not(n.P())
    h0 = len(o.hyps)
    o.hyps.append(fin)
    back = o.run1(lambda: call(o, wc, 'load', SV(n.t, kind=kind)), label='load(cycles)')
    o.prove('load(cycles(S)) == S where cycles is finite', back.t == S)
    fin_hyps = o.hyps[h0:]
    del o.hyps[h0:]
    ld = o.run1(lambda: call(o, wc, 'load', SV(N, kind=kind)), label='load')
    n2 = o.run1(lambda: call(o, wc, 'cycles', ld), label='cycles(load)')
    o.prove('cycles(load(N)) == N for N <= ND or finite k_2', z3.Implies(z3.Or(N <= ND, z3.Not(k2.P())), z3.And(z3.Not(n2.P()), n2.t == N)))
    m = o.run1(lambda: call(o, wc, 'cycles', SV(S2, kind=kind)), label='cycles(S2)')
    o.prove('cycles non-increasing in load', z3.Implies(S <= S2, z3.Or(n.P(), z3.And(z3.Not(m.P()), m.t <= n.t))))
    c = o.real('c')
    o.assume(c > 0)
    nc = o.run1(lambda: call(o, wc, 'cycles', SV(c * S, kind=kind)), label='cycles(cS)')
    o.prove('slope k_1 above SD: log10 cycles(cS) = -k_1 log10 c + log10 cycles(S)',
            z3.Implies(z3.And(S >= SD, c * S >= SD), z3.And(z3.Not(nc.P()), z3.Not(n.P()), lg(nc.t) == -k1 * lg(c) + lg(n.t))))
    o.prove('slope k_2 below SD: log10 cycles(cS) = -k_2 log10 c + log10 cycles(S)',
            z3.Implies(z3.And(S < SD, c * S < SD, z3.Not(k2.P())), z3.And(z3.Not(nc.P()), z3.Not(n.P()), lg(nc.t) == -k2.t * lg(c) + lg(n.t))))
    o.canary('canary: load(cycles(S)) == SD', z3.Implies(z3.And(S != SD), back.t == SD), under=fin_hyps)


@obligation('C08', 'miner.variants', functions=[WC + '.miner_original', WC + '.miner_elementary', WC + '.miner_haibach'])
def miner_variants(o):
    """Miner variants change only k_2 (inf / k_1 / 2 k_1 - 1) and leave the original object untouched"""
    broadcast_spec(o)
    wc, rec = curve(o)
    orig = dict(wc.fields['_obj'].fields)
    k1 = rec.fields['k_1'].t
    for name, want in (('miner_original', None), ('miner_elementary', k1), ('miner_haibach', 2 * k1 - 1)):
        w0 = list(wc.fields['_obj'].writes)
        new = o.run1(lambda: call(o, wc, name), label=name)
        f = new.fields['_obj'].fields
        if want is None:
            o.prove(f'{name}: k_2 == inf', f['k_2'].P())
        else:
            o.prove(f'{name}: k_2', z3.And(z3.Not(f['k_2'].P()), sv_t(f['k_2']) == want))
        same = [sv_t(f[k]) == sv_t(orig[k]) for k in ('k_1', 'ND', 'SD', 'TN', 'TS', 'failure_probability')]
        o.prove(f'{name}: all other parameters unchanged', z3.And(*same))
        o.prove(f'{name}: the receiver is not modified', z3.BoolVal(wc.fields['_obj'].writes == w0 and all(wc.fields['_obj'].fields[k] is orig[k] for k in orig)))
        o.prove(f'{name}: returns a new object', z3.BoolVal(new is not wc and new.fields['_obj'] is not wc.fields['_obj']))


TF = [WC + '.transform_to_failure_probability', FN + 'scattering_range_to_std']


def transformed(o, wc, p, kind='scalar', label='transform'):
    return o.run1(lambda: call(o, wc, 'transform_to_failure_probability', SV(p, kind=kind)), label=label)


@obligation('C08', 'transform.formula', functions=TF)
def transform_formula(o):
    """SD' = SD / 10^((z0 - z) s_S), ND' = ND / 10^((z0 - z) s_N) (SD'/SD)^-k_1 with z = Phi^-1(p), s = 0.39015 log10 T; only SD, ND and
    failure_probability change; the receiver is untouched"""
    broadcast_spec(o)
    p0, p = o.reals('p0 p')
    o.assume(p0 > 0, p0 < 1, p > 0, p < 1)
    wc, rec = curve(o, fp=p0)
    k1, ND, SD, TN, TS = (rec.fields[k].t for k in ('k_1', 'ND', 'SD', 'TN', 'TS'))
    orig = dict(wc.fields['_obj'].fields)
    for kind in ('scalar', 'ndarray'):
        t = transformed(o, wc, p, kind, f'transform[{kind}]')
        f = t.fields['_obj'].fields
        dz = Pinv(p0) - Pinv(p)
        SDn = SD / ex(dz * (STD * lg(TS)))
        NDn = (ND / ex(dz * (STD * lg(TN)))) * spec_pow(SDn / SD, -k1)
        o.prove(f'SD formula [{kind}]', sv_t(f['SD']) == SDn)
        o.prove(f'ND formula [{kind}]', sv_t(f['ND']) == NDn)
        o.prove(f'failure_probability set [{kind}]', sv_t(f['failure_probability']) == p)
        o.prove(f'k_1, k_2, TN, TS unchanged [{kind}]', z3.And(sv_t(f['k_1']) == k1, sv_t(f['TN']) == TN, sv_t(f['TS']) == TS,
                                                              f['k_2'].P() == orig['k_2'].P(), z3.Implies(z3.Not(orig['k_2'].P()), f['k_2'].t == orig['k_2'].t)))
        o.prove(f'SD, ND stay positive [{kind}]', z3.And(sv_t(f['SD']) > 0, sv_t(f['ND']) > 0))
    o.prove('the receiver is not modified', z3.BoolVal(all(wc.fields['_obj'].fields[k] is orig[k] for k in orig)))
    o.canary('canary: SD unchanged by the transformation', z3.Implies(z3.And(p != p0, TS > 1), sv_t(f['SD']) == SD))


@obligation('C08', 'transform.identity', functions=TF)
def transform_identity(o):
    """transforming to the native probability is the identity"""
    broadcast_spec(o)
    p0 = o.real('p0')
    o.assume(p0 > 0, p0 < 1)
    wc, rec = curve(o, fp=p0)
    orig = dict(wc.fields['_obj'].fields)
    t = transformed(o, wc, p0)
    f = t.fields['_obj'].fields
    o.prove('T_p0 == id', z3.And(*[sv_t(f[k]) == sv_t(orig[k]) for k in ('k_1', 'ND', 'SD', 'TN', 'TS', 'failure_probability')]))
    o.prove('T_p0 keeps k_2', z3.And(f['k_2'].P() == orig['k_2'].P(), z3.Implies(z3.Not(orig['k_2'].P()), f['k_2'].t == orig['k_2'].t)))
    # default curve (native 0.5) evaluated at the default probability 0.5
    wd, rd = curve(o, prefix='d_')
    t2 = transformed(o, wd, RV(0.5), label='transform(0.5)')
    f2 = t2.fields['_obj'].fields
    o.prove('default native probability 0.5 transformed to 0.5 is the identity', z3.And(sv_t(f2['SD']) == rd.fields['SD'].t, sv_t(f2['ND']) == rd.fields['ND'].t))


def log_facts(o, fin, fout, p_in, p_out, label):
    """log-domain contract of one transform_to_failure_probability application, proved on the code; returned for use behind a lemma boundary"""
    dz = Pinv(p_in) - Pinv(p_out)
    k1, TN, TS = sv_t(fin['k_1']), sv_t(fin['TN']), sv_t(fin['TS'])
    a = o.prove(f'{label}: log10 SD_new = log10 SD - dz s_S', lg(sv_t(fout['SD'])) == lg(sv_t(fin['SD'])) - dz * (STD * lg(TS)), pairs=False)
    b = o.prove(f'{label}: log10 ND_new = log10 ND - dz s_N - k_1 (log10 SD_new - log10 SD)',
                lg(sv_t(fout['ND'])) == lg(sv_t(fin['ND'])) - dz * (STD * lg(TN)) - k1 * (lg(sv_t(fout['SD'])) - lg(sv_t(fin['SD']))), pairs=False)
    c = o.prove(f'{label}: k_1, TN, TS carried over', z3.And(sv_t(fout['k_1']) == k1, sv_t(fout['TN']) == TN, sv_t(fout['TS']) == TS))
    return [a, b, c]


@obligation('C08', 'transform.group-law', functions=TF)
def transform_group(o):
    """T_p2 o T_p1 = T_p2 (transforming twice equals transforming directly); allowable cycles/load grow with the failure probability"""
    broadcast_spec(o)
    p0, p1, p2 = o.reals('p0 p1 p2')
    rng = [z3.And(x > 0, x < 1) for x in (p0, p1, p2)]
    o.assume(*rng)
    wc, rec = curve(o, fp=p0)
    k1, ND, SD, TN, TS = (rec.fields[k].t for k in ('k_1', 'ND', 'SD', 'TN', 'TS'))
    f0 = wc.fields['_obj'].fields
    base_hyps = list(o.hyps)
    t1 = transformed(o, wc, p1, label='T_p1')
    f1 = t1.fields['_obj'].fields
    F = log_facts(o, f0, f1, p0, p1, 'T_p1')
    h1 = list(o.hyps)
    o.hyps = list(base_hyps)
    t2 = transformed(o, wc, p2, label='T_p2')
    b = t2.fields['_obj'].fields
    F += log_facts(o, f0, b, p0, p2, 'T_p2')
    o.hyps = h1
    t12 = transformed(o, t1, p2, label='T_p2 o T_p1')
    a = t12.fields['_obj'].fields
    # the second application starts from the curve T_p1 returned: only its own path facts and F[:3] are needed
    F += log_facts(o, f1, a, p1, p2, 'T_p2 after T_p1')
    o.prove('group law: SD', lg(sv_t(a['SD'])) == lg(sv_t(b['SD'])), only=F)
    o.prove('group law: ND', lg(sv_t(a['ND'])) == lg(sv_t(b['ND'])), only=F)
    o.prove('group law: probability', sv_t(a['failure_probability']) == sv_t(b['failure_probability']))
    mono = z3.Implies(p1 >= p0, Pinv(p1) >= Pinv(p0))
    M = o.prove('lemma: Phi^-1 is non-decreasing', mono, only=rng, kind='lemma')
    pos = o.prove('lemma: log10 TS >= 0 and log10 TN >= 0', z3.And(lg(TS) >= 0, lg(TN) >= 0), kind='lemma')
    o.prove('SD grows with the failure probability', z3.Implies(p1 >= p0, lg(sv_t(f1['SD'])) >= lg(SD)), only=F[:3] + [M, pos])
    o.prove('ND at SD level grows with the failure probability (TN >= 1)',
            z3.Implies(p1 >= p0, lg(sv_t(f1['ND'])) + k1 * (lg(sv_t(f1['SD'])) - lg(SD)) >= lg(ND)), only=F[:3] + [M, pos])
    o.canary('canary: SD shrinks with the failure probability', z3.Implies(z3.And(p1 > p0, TS > 1), lg(sv_t(f1['SD'])) < lg(SD)))


@obligation('C08', 'transform.quantiles', functions=TF + [FN + 'std_to_scattering_range'])
def transform_quantiles(o):
    """log10(N_90/N_10) = kappa log10 TN at fixed load and log10(SD_90/SD_10) = kappa log10 TS with kappa = 2 Phi^-1(0.9) 0.39015207303618954,
    |kappa - 1| <= 1e-12; std <-> T conversions are mutually inverse up to the same constant product"""
    broadcast_spec(o)
    p0 = o.real('p0')
    o.assume(p0 > 0, p0 < 1)
    wc, rec = curve(o, fp=p0)
    k1, ND, SD, TN, TS = (rec.fields[k].t for k in ('k_1', 'ND', 'SD', 'TN', 'TS'))
    f0 = wc.fields['_obj'].fields
    base_hyps = list(o.hyps)
    t10 = transformed(o, wc, RV(0.1), label='T_10').fields['_obj'].fields
    F = log_facts(o, f0, t10, p0, RV(0.1), 'T_10')
    o.hyps = list(base_hyps)
    t90 = transformed(o, wc, RV(0.9), label='T_90').fields['_obj'].fields
    F += log_facts(o, f0, t90, p0, RV(0.9), 'T_90')
    kappa = 2 * Pinv(RV(0.9)) * STD
    S = o.prove('lemma: Phi^-1(0.1) == -Phi^-1(0.9)', Pinv(RV(0.1)) == -Pinv(RV(0.9)), only=[], kind='lemma')
    o.prove('log10(SD_90/SD_10) == kappa log10 TS', lg(sv_t(t90['SD'])) - lg(sv_t(t10['SD'])) == kappa * lg(TS), only=F + [S])
    # N at a fixed load S above both endurance limits: N_p = ND_p (S/SD_p)^-k1
    o.prove('log10(N_90/N_10) == kappa log10 TN at fixed load',
            (lg(sv_t(t90['ND'])) + k1 * lg(sv_t(t90['SD']))) - (lg(sv_t(t10['ND'])) + k1 * lg(sv_t(t10['SD']))) == kappa * lg(TN), only=F + [S])
    o.prove('|kappa - 1| <= 1e-12', z3.And(kappa - 1 <= RV(1e-12), 1 - kappa <= RV(1e-12)), only=[], kind='lemma')
    T, s = o.reals('T s')
    o.assume(T >= 1)
    sd = o.run1(lambda: o.I.call(o.func(FN + 'scattering_range_to_std'), [SV(T)]), label='scattering_range_to_std')
    o.prove('scattering_range_to_std(T) == 0.39015207303618954 log10 T', sd.t == STD * lg(T))
    tt = o.run1(lambda: o.I.call(o.func(FN + 'std_to_scattering_range'), [SV(s)]), label='std_to_scattering_range')
    o.prove('std_to_scattering_range(s) == 10^(2.5631031310892007 s)', tt.t == ex(TSC * s))
    back = o.run1(lambda: o.I.call(o.func(FN + 'std_to_scattering_range'), [sd]), label='T(std(T))')
    o.prove('log10 T(std(T)) == c log10 T with c = 2.5631031310892007 * 0.39015207303618954', lg(back.t) == TSC * STD * lg(T))
    o.prove('|c - 1| <= 1e-12', z3.And(TSC * STD - 1 <= RV(1e-12), 1 - TSC * STD <= RV(1e-12)), only=[], kind='lemma')
    o.prove('2.5631031310892007 == 2 z_0.9 up to 1e-13', z3.And(TSC - 2 * Pinv(RV(0.9)) <= RV(1e-13), 2 * Pinv(RV(0.9)) - TSC <= RV(1e-13)), only=[], kind='lemma')
    o.note("the code's constants are decimals: exact equality kappa = 1 is false in R and is not demanded (DESIGN 4/C08)")


# ---------------------------------------------------------------------------------------------
@bounded('C08', 'broadcast=scalar', shards=2)
def b_broadcast(ctx):
    """broadcast operands (Series of curves x Series of loads with shared / disjoint levels, arrays, scalars) give the element-wise
    scalar values; inf paths on real floats; inverse and group law numerically"""
    import numpy as np
    import pandas as pd
    from pylife.materiallaws import WoehlerCurve   # noqa
    rng = np.random.default_rng(ctx.seed + ctx.shard)
    n = 40 if ctx.tier == 'quick' else 400
    ctx.bound = f"{n} random curve sets (k_1 in (1,12], k_2 in {{k_1.., inf}}, SD, ND, TN, TS >= 1, p in (0,1)) x 4 operand layouts; scalar operands as python int / numpy integer / float / list / integer array"
    ctx.rule = "non-trivial: loads on both sides of the endurance limit"
    for it in range(n):
        m = 3
        k1 = rng.uniform(1.5, 12, m)
        k2 = np.where(rng.random(m) < 0.4, np.inf, k1 + rng.uniform(0, 10, m))
        df = pd.DataFrame({'k_1': k1, 'k_2': k2, 'SD': rng.uniform(50, 500, m), 'ND': 10 ** rng.uniform(5, 7, m),
                           'TN': rng.uniform(1, 12, m), 'TS': rng.uniform(1, 2, m)}, index=pd.Index(['a', 'b', 'c'], name='element'))
        loads = pd.Series(rng.uniform(20, 900, 4), index=pd.Index([1, 2, 3, 4], name='scenario'))
        p = float(rng.uniform(0.01, 0.99))
        res = df.woehler.cycles(loads, p)
        ctx.case(True, key=it)
        for (el, sc), v in res.items():
            want = float(df.loc[el].woehler.cycles(float(loads[sc]), p))
            if not (v == want or abs(v - want) <= 1e-9 * abs(want)):
                ctx.fail('C08:broadcast', f'frame x series cycles[{el},{sc}] = {v} but scalar evaluation gives {want}', {'curve': df.loc[el].to_dict(), 'load': float(loads[sc]), 'p': p})
        # shared level
        l2 = pd.Series(rng.uniform(20, 900, 3), index=df.index)
        res = df.woehler.cycles(l2, p)
        for el, v in res.items():
            want = float(df.loc[el].woehler.cycles(float(l2[el]), p))
            if not (v == want or abs(v - want) <= 1e-9 * abs(want)):
                ctx.fail('C08:broadcast', f'shared level cycles[{el}] = {v} but scalar {want}', {'curve': df.loc[el].to_dict(), 'load': float(l2[el]), 'p': p})
        # scalar curve x array, inverse, group law
        s = df.iloc[0]
        arr = np.array([s.SD * 0.5, s.SD, s.SD * 1.7])
        cy = s.woehler.cycles(arr, p)
        for x, v in zip(arr, cy):
            want = float(s.woehler.cycles(float(x), p))
            if not (v == want or abs(v - want) <= 1e-9 * abs(want)):
                ctx.fail('C08:broadcast', f'array cycles({x}) = {v} but scalar {want}', {'curve': s.to_dict()})
            if np.isfinite(v):
                back = float(s.woehler.load(v, p))
                if abs(back - x) > 1e-8 * x:
                    ctx.fail('C08:inverse', f'load(cycles({x})) = {back}', {'curve': s.to_dict(), 'p': p})
        # operand types: the same number as python int, numpy integer, float, list and integer array must give the same value (cycle numbers and loads are
        # naturally whole numbers; added after seed C08-b let the slope array inherit the integer dtype of the operand)
        for Nint in (int(s.ND // 100), int(s.ND * 7)):
            vals = {}
            for tname, arg in (('int', Nint), ('np.int64', np.int64(Nint)), ('float', float(Nint)), ('list', [Nint]), ('int array', np.array([Nint]))):
                try:
                    vals[tname] = float(np.ravel(s.woehler.load(arg, p))[0])
                except Exception as e:   # noqa
                    vals[tname] = f'{type(e).__name__}'
            if any(isinstance(v, str) or not (v == vals['float'] or abs(v - vals['float']) <= 1e-9 * abs(vals['float'])) for v in vals.values()):
                ctx.fail('C08:operand-type:load', f'load({Nint}) depends on the type of the cycle number: {vals}', {'curve': s.to_dict(), 'N': Nint, 'p': p})
        for Lint in (int(s.SD * 2), max(1, int(s.SD // 2))):
            vals = {}
            for tname, arg in (('int', Lint), ('np.int64', np.int64(Lint)), ('float', float(Lint)), ('list', [Lint]), ('int array', np.array([Lint]))):
                try:
                    vals[tname] = float(np.ravel(s.woehler.cycles(arg, p))[0])
                except Exception as e:   # noqa
                    vals[tname] = f'{type(e).__name__}'
            if any(isinstance(v, str) or not (v == vals['float'] or abs(v - vals['float']) <= 1e-9 * abs(vals['float'])) for v in vals.values()):
                ctx.fail('C08:operand-type:cycles', f'cycles({Lint}) depends on the type of the load: {vals}', {'curve': s.to_dict(), 'load': Lint, 'p': p})
        # number type of the curve parameters: whole-number SD / ND / k_1 stored as integer columns of a frame of curves (what pd.DataFrame({'SD': [300, 400], ...}) or a
        # table read from a file gives) evaluate like the same numbers stored as floats, at the curve's own failure probability and at another one
        # (added after seed C08-h returned the stored curve untransformed at its own probability: basquin_load filled an integer buffer)
        if it % 4 == 0:
            dfi = pd.DataFrame({'k_1': np.floor(k1).astype(np.int64) + 1, 'k_2': np.floor(k1).astype(np.int64) + 3, 'SD': np.floor(df.SD.to_numpy()).astype(np.int64),
                                'ND': np.floor(df.ND.to_numpy()).astype(np.int64), 'TN': [4.0, 3.0, 5.0]}, index=df.index)
            dff = dfi.astype(np.float64)
            Ns = np.array([0.07, 0.3, 2.5]) * dff.ND.to_numpy()
            for pf in (0.5, 0.1):
                for fname, arg in (('load', Ns), ('cycles', np.array([1.7, 1.2, 0.8]) * dff.SD.to_numpy())):
                    try:
                        gi = np.asarray(getattr(dfi.woehler, fname)(arg, pf), dtype=float)
                        gf = np.asarray(getattr(dff.woehler, fname)(arg, pf), dtype=float)
                    except Exception as e:   # noqa
                        ctx.fail(f'C08:parameter-dtype:{fname}:raises', f'{fname} on a frame of curves with integer columns raises {type(e).__name__}: {str(e)[:120]}', {'curves': dfi.to_dict('list'), 'p': pf})
                        continue
                    if not np.allclose(gi, gf, rtol=1e-12, atol=0, equal_nan=True):
                        ctx.fail(f'C08:parameter-dtype:{fname}', f'{fname}({arg.tolist()}, {pf}) on a frame of curves with integer SD / ND / k columns = {gi.tolist()}, with the same numbers as floats {gf.tolist()}',
                                 {'curves': dfi.to_dict('list'), 'p': pf})
        # the same physical curve stored at another failure probability: evaluation at any probability (also the default 0.5) agrees with the 50 % curve,
        # and load / cycles stay inverse on it (added after seed C08-c skipped the probability shift for the default argument 0.5)
        arr0 = arr
        arr = np.array([s.SD * 0.5, s.SD * 1.2, s.SD * 1.7])      # not exactly the knee load: with k_2 = inf the cycle number jumps there and the shifted SD carries rounding
        for pn in (0.1, 0.9):
            stored = s.woehler.transform_to_failure_probability(pn).to_pandas()
            for pq in (None, 0.5, 0.3):
                a_ = np.asarray(stored.woehler.cycles(arr) if pq is None else stored.woehler.cycles(arr, pq), dtype=float)
                b_ = np.asarray(s.woehler.cycles(arr, 0.5 if pq is None else pq), dtype=float)
                if not np.allclose(a_, b_, rtol=1e-9, equal_nan=True):
                    ctx.fail('C08:native-probability:cycles', f'curve stored at p={pn}: cycles({arr.tolist()}, {pq}) = {a_.tolist()} but the 50 % curve gives {b_.tolist()}', {'curve': s.to_dict(), 'stored_at': pn, 'p': pq})
            fin = np.isfinite(np.asarray(stored.woehler.cycles(arr), dtype=float))
            if fin.any():
                back = np.asarray(stored.woehler.load(np.asarray(stored.woehler.cycles(arr), dtype=float)[fin]), dtype=float)
                if not np.allclose(back, arr[fin], rtol=1e-8):
                    ctx.fail('C08:native-probability:inverse', f'curve stored at p={pn}: load(cycles(L)) = {back.tolist()} for L = {arr[fin].tolist()}', {'curve': s.to_dict(), 'stored_at': pn})
        arr = arr0
        p1, p2 = rng.uniform(0.02, 0.98, 2)
        a = s.woehler.transform_to_failure_probability(p1).transform_to_failure_probability(p2).to_pandas()
        b = s.woehler.transform_to_failure_probability(p2).to_pandas()
        if abs(a.SD - b.SD) > 1e-9 * b.SD or abs(a.ND - b.ND) > 1e-8 * b.ND:
            ctx.fail('C08:group-law', f'T_p2 o T_p1 != T_p2: SD {a.SD} vs {b.SD}, ND {a.ND} vs {b.ND}', {'curve': s.to_dict(), 'p1': p1, 'p2': p2})
        t10, t90 = s.woehler.transform_to_failure_probability(0.1).to_pandas(), s.woehler.transform_to_failure_probability(0.9).to_pandas()
        if abs(t90.SD / t10.SD - s.TS) > 1e-9 * s.TS:
            ctx.fail('C08:TS-quantile', f'SD_90/SD_10 = {t90.SD / t10.SD} but TS = {s.TS}', {'curve': s.to_dict()})
        S = s.SD * 2.5
        n90, n10 = float(s.woehler.cycles(S, 0.9)), float(s.woehler.cycles(S, 0.1))
        if abs(n90 / n10 - s.TN) > 1e-8 * s.TN:
            ctx.fail('C08:TN-quantile', f'N_90/N_10 = {n90 / n10} but TN = {s.TN}', {'curve': s.to_dict()})
    ctx.sample({'curves': 3, 'loads': 4, 'layouts': ['frame x disjoint series', 'frame x shared series', 'series x array', 'scalar']})


META = {
    'level': 'proof',
    'explanation': "Every algebraic clause of C08 is an obligation generated from the current text of woehlercurve.py / functions.py and discharged for all parameters "
                   "(k_1 > 1, k_2 >= k_1 or inf as an extended real, SD, ND > 0, TN, TS >= 1, probabilities in (0,1)), scalar, array and Series operands via the generic "
                   "element. 10^u / log10 / Phi^-1 are uninterpreted functions with instantiated axioms; N_90/N_10 = TN holds up to the decimal constants of the code "
                   "(|kappa - 1| <= 1e-12 from the assumed enclosure of Phi^-1(0.9)). Row alignment of broadcast operands is assumed here (property C13) and "
                   "cross-checked by the bounded stand-in.",
    'not_decided': ["row alignment of broadcast operands (assumed contract = C13; bounded check only)"],
    'trusted_base': ['axioms of 10**u / log10 / Phi^-1 incl. enclosure of Phi^-1(0.9)', 'assumed contract of PylifeSignal.broadcast', 'floats = reals', 'element-wise lifting'],
}
