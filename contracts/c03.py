"""C03 - rainflow result depends only on the reversal sequence (symmetries)."""
import z3
from pv.api import obligation
from pv.bounded import bounded
from pv.sym import SV, RV
from pv.interp import SArr
from contracts.rainflow_common import EXT, FKM, GEN, absz, closes, sel, fourpoint_inputs, fourpoint_invariant

NEEDS_EXT = True
VALUE_ARRAYS = ('from_vals', 'to_vals', 'from_vals_v', 'to_vals_v')
# loop-carried state of the kernels; the scalar temporaries (a, b, c, d, ab, bc, cd, ...) are assigned before they are read in every
# iteration and are therefore not part of the relation
STATE = ('i', 'ri', 't', 'len_turns', 'residual_index', 'residual_index_v', 'from_vals', 'to_vals', 'from_vals_v', 'to_vals_v',
         'from_index', 'to_index', 'from_index_v', 'to_index_v', 'turns', 'turns_index', 'back', 'highest_front', 'lowest_front')


def relational_kernel(o, fname, mk_inputs, relate_value, label, extra_scalars=()):
    """lock-step relational obligations for one iteration of a kernel loop: run the real loop body on state 1 and on state 2,
    assume the two loop-head states related (R), prove for every body path that (a) state 2 takes the same branch and (b) the
    states at the end of the body are related again.  relate_value(x1) -> the value state 2 must hold where state 1 holds x1."""
    (turns1, tidx1, extra1), (turns2, tidx2, extra2) = mk_inputs()
    n = turns1.n
    inv = lambda t, ti: (lambda v: z3.BoolVal(True))   # noqa: E731  (relational step: no unary invariant assumed beyond R)
    f = o.func(EXT + fname)
    o.loop(EXT + fname, 0, lambda v: z3.BoolVal(True))
    o.skip_kinds = {'safety', 'inv-init', 'inv-preserve', 'variant'}
    ps1 = [p for p in o.paths(lambda: o.I.call(f, [turns1, tidx1] + extra1)) if p.kind == 'end' and p.loop_end is not None]
    ps2 = [p for p in o.paths(lambda: o.I.call(f, [turns2, tidx2] + extra2)) if p.kind == 'end' and p.loop_end is not None]
    o.prove(f'{label}: both runs have the same number of body paths', z3.BoolVal(len(ps1) == len(ps2) and len(ps1) >= 2))
    k = z3.Int('k_rel')

    def related(s1, s2):
        out = []
        for name, v1 in s1.items():
            if name not in s2 or name not in STATE:
                continue
            v2 = s2[name]
            if isinstance(v1, tuple):
                a1, n1 = v1
                a2, n2 = v2
                out.append(n1 == n2)
                if name in VALUE_ARRAYS or name == 'turns':
                    out.append(z3.ForAll([k], z3.Select(a2, k) == relate_value(z3.Select(a1, k))))
                else:
                    out.append(z3.ForAll([k], z3.Select(a2, k) == z3.Select(a1, k)))
            elif z3.is_int(v1) or z3.is_bool(v1):
                out.append(v2 == v1)
            else:
                out.append(v2 == relate_value(v1))
        return out

    for p1 in ps1:
        match = [p2 for p2 in ps2 if [bool(d in (True, 'T!')) for d in p2.decisions] == [bool(d in (True, 'T!')) for d in p1.decisions]]
        if len(match) != 1:
            o.prove(f'{label}: path {p1.decisions} has a unique counterpart', z3.BoolVal(False))
            continue
        p2 = match[0]
        R0 = related(p1.loop_start, p2.loop_start)
        d1 = [c for i, c in enumerate(p1.pc) if i in p1.dec_idx]
        d2 = [c for i, c in enumerate(p2.pc) if i in p2.dec_idx]
        tag = ''.join('T' if d in (True, 'T!') else 'F' for d in p1.decisions)
        o.prove(f'{label}: same branch [{tag}]', z3.And(*d2) if d2 else z3.BoolVal(True), under=R0 + d1, kind='relational')
        R1 = related(p1.loop_end, p2.loop_end)
        for i, r in enumerate(R1):
            o.prove(f'{label}: states stay related [{tag}] #{i}', r, under=R0 + d1 + d2, kind='relational')


def two_arrays(o, relate_value, with_pos_scale=False):
    def mk():
        turns1 = o.array('turns', 'real', unchecked=True)
        n = turns1.n
        o.assume(n >= 2)
        k = z3.Int('k_in')
        a2 = z3.Lambda([k], relate_value(z3.Select(turns1.a, k)))
        turns2 = SArr(a2, n, 'real', 'ndarray', True)
        o.track(turns2)
        tidx = SArr(z3.Array('turns_index', z3.IntSort(), z3.IntSort()), n, 'uint', 'ndarray', True)
        o.track(tidx)
        return (turns1, tidx, []), (turns2, tidx, [])
    return mk


@obligation('C03', 'fourpoint_loop.negation', functions=[EXT + 'fourpoint_loop'])
def fourpoint_negation(o):
    """x -> -x: the four-point kernel takes the same branch in every iteration, emits negated values and the same indices"""
    relational_kernel(o, 'fourpoint_loop', two_arrays(o, lambda x: -x), lambda x: -x, 'negation')
    o.trusted("meta-rule: step-wise simulation of related states implies related runs (induction over the run, DESIGN 7.4)")


@obligation('C03', 'fourpoint_loop.affine', functions=[EXT + 'fourpoint_loop'])
def fourpoint_affine(o):
    """x -> alpha x + beta, alpha > 0: same branches, values mapped the same way, same indices"""
    al, be = o.reals('alpha beta')
    o.assume(al > 0)
    relational_kernel(o, 'fourpoint_loop', two_arrays(o, lambda x: al * x + be), lambda x: al * x + be, 'affine')
    o.trusted("meta-rule: step-wise simulation of related states implies related runs (induction over the run, DESIGN 7.4)")


@obligation('C03', 'threepoint_loop.affine', functions=[EXT + 'threepoint_loop', EXT + '_max'])
def threepoint_affine(o):
    """x -> alpha x + beta, alpha > 0 on the three-point kernel: same branches, values mapped the same way, same indices and fronts.
    (Negation swaps the roles of highest/lowest front and therefore the branch taken - it is not a lock-step simulation and is
    covered by the bounded stand-in only.)"""
    al, be = o.reals('alpha beta')
    o.assume(al > 0)
    base = two_arrays(o, lambda x: al * x + be)
    hf, lf, rl = o.ints('highest_front lowest_front residual_length')

    def mk():
        (t1, ti, _), (t2, ti2, _) = base()
        ex = [SV(hf), SV(lf), SV(rl)]
        return (t1, ti, ex), (t2, ti2, list(ex))
    relational_kernel(o, 'threepoint_loop', mk, lambda x: al * x + be, 'affine')
    o.trusted("meta-rule: step-wise simulation of related states implies related runs (induction over the run, DESIGN 7.4)")


@obligation('C03', 'lemma.closing-rules')
def closing_rules(o):
    """the three closing rules only use absolute differences (3-pt, 4-pt) or absolute values (FKM): invariance lemmas"""
    a, b, c, d, al, be = o.reals('a b c d alpha beta')
    o.assume(al > 0)
    f = lambda x: al * x + be   # noqa: E731
    o.prove('four-point rule invariant under negation', closes(-a, -b, -c, -d) == closes(a, b, c, d), kind='lemma')
    o.prove('four-point rule invariant under positive affine maps', closes(f(a), f(b), f(c), f(d)) == closes(a, b, c, d), kind='lemma')
    tp = lambda s, fr, bk: absz(bk - fr) >= absz(fr - s)   # noqa: E731  three point closing test
    o.prove('three-point test invariant under negation', tp(-a, -b, -c) == tp(a, b, c), kind='lemma')
    o.prove('three-point test invariant under positive affine maps', tp(f(a), f(b), f(c)) == tp(a, b, c), kind='lemma')
    o.prove('front comparison mirrors under negation', (-b > -a) == (b < a), kind='lemma')
    o.prove('front comparison invariant under positive affine maps', (f(b) > f(a)) == (b > a), kind='lemma')
    m = o.real('m')
    hcm = lambda cur, l0, l1, mx: z3.And(absz(cur - l0) >= absz(l0 - l1), absz(l0) < mx, absz(l1) < mx, absz(cur) > mx)   # noqa: E731
    o.prove('HCM tests invariant under negation', hcm(-a, -b, -c, m) == hcm(a, b, c, m), kind='lemma')
    o.canary('canary: HCM tests invariant under a shift', hcm(a + be, b + be, c + be, m) == hcm(a, b, c, m))


@obligation('C03', 'fkm.process.negation', functions=[FKM + '.process'])
def fkm_negation(o):
    """FKMDetector.process body only tests |current - last0| >= |last0 - last1|, |last0| < max_turn, |last1| < max_turn, |current| > max_turn:
    checked on the real body (every branch condition of the loop is one of these terms)"""
    from pv.interp import Obj, Opaque
    from contracts.c02 import len_
    cls = o.cls(FKM)

    def mkdet(suffix, neg):
        det = Obj(cls)
        res = o.array('residuals' + suffix, 'real', kind='list')
        det.fields.update({'_ir': SV(o.int('ir' + suffix)), '_residuals': res, '_max_turn': SV(o.real('mt' + suffix)), '_recorder': Opaque(('external', 'recorder'))})
        o.track(det)
        return det
    turns = o.array('turns', 'real')
    k = z3.Int('k_in')
    turns2 = SArr(z3.Lambda([k], -z3.Select(turns.a, k)), turns.n, 'real', 'ndarray')
    o.track(turns2)
    tix = o.array('turns_index', 'int', n=turns.n)
    P = FKM + '.process'
    o.loop(P, 0, lambda v: z3.BoolVal(True))
    o.loop(P, 1, lambda v: z3.BoolVal(True))
    o.skip_kinds = {'safety', 'inv-init', 'inv-preserve', 'variant'}
    det1, det2 = mkdet('1', False), mkdet('2', True)
    cur = {'t': turns}
    o.spec(GEN + 'AbstractDetector._new_turns', lambda I, args, kw: (tix, cur['t']))
    ps1 = [p for p in o.paths(lambda: o.I.call(o.method(det1, 'process'), [Opaque('samples')])) if p.kind in ('end', 'return')]
    cur['t'] = turns2
    ps2 = [p for p in o.paths(lambda: o.I.call(o.method(det2, 'process'), [Opaque('samples')])) if p.kind in ('end', 'return')]
    o.prove('both runs have the same path structure', z3.BoolVal(len(ps1) == len(ps2) and len(ps1) >= 4))
    o.note("path-wise relational check of the FKM loops is structural here (same number of paths); the value relation is the lemma 'HCM tests invariant under negation'")


# the FKM detector: its loop is proved (C02 generator fkm.process.step=HCM-step, run here as an obligation of C03 as well) to be, step by step, a rule that looks at the
# stack values, the current turn and the largest |turn| only through absolute values of values and of differences; such a rule commutes with negation (lemma below)
from contracts import c02 as _c02                                    # noqa: E402
obligation('C03', 'fkm.step=abs-value-rule', functions=[FKM + '.process'])(_c02.fkm_step)


@obligation('C03', 'lemma.fkm-step-negation')
def fkm_step_negation(o):
    """the step rule of fkm.step=abs-value-rule is invariant under negation of the stack values and of the current turn: same closing decision, same 'apply again'
    decision, same IR update; the recorded pair and the pushed value are negated (hence, by induction over the steps, negating the signal negates cycles and residuals)"""
    k, J, I_, mx = o.reals('K J I max_turn')
    n, ir = o.ints('IZ IR')
    o.assume(mx >= 0)

    def ab(x):
        return z3.If(x >= 0, x, -x)

    def rule(k_, j_, i_):
        closing = z3.And(n > ir, ab(k_ - j_) >= ab(j_ - i_))
        again = z3.And(closing, ab(j_) < mx, ab(i_) < mx)
        ir_up = z3.And(n == ir, ab(k_) > mx)
        newmax = z3.If(ab(k_) >= mx, ab(k_), mx)
        return closing, again, ir_up, newmax
    a, b = rule(k, J, I_), rule(-k, -J, -I_)
    for nm, x, y in zip(('closing decision', "'apply again' decision", 'IR update', 'largest |turn| after the push'), a, b):
        o.prove(f'{nm} is the same for the negated state', x == y, kind='lemma')
    o.canary('canary: the closing decision does not depend on the current turn', rule(k, J, I_)[0] == rule(k + 1, J, I_)[0])


# ---------------------------------------------------------------------------------------------
@bounded('C03', 'symmetries', shards=16)
def b_symmetries(ctx):
    """negation (all detectors), positive affine maps (3-pt, 4-pt), insertion of non-reversal samples (every single insertion
    position x every admissible value), Series with integer/float/datetime/string index = value array"""
    import numpy as np
    import pandas as pd
    from contracts.rainflow_bounded import run, signals, DETECTORS
    from specs.rainflow_spec import TP
    A, N = (4, 6) if ctx.tier == 'quick' else (4, 8)
    ctx.bound = f"all signals over {{0..{A-1}}} of length 2..{N}; negation (also of the signal shifted by -1 and -2, and for the FKM detector of all length-7 signals over {{-3,-1,0,1}} without repeated neighbours); maps 2x+1, 0.5x-3; scaling by 1e-9 and 1e9; every single insertion of a non-reversal sample (repeat of a neighbour, midpoint of a strictly monotone step, or 5e-9 away from either end of it); 4 index types"
    ctx.rule = "non-trivial: signal with >= 1 turning point; distinct by (signal, transformation)"
    ctx.exhaustive = True
    # negation of longer sign-changing signals for the FKM detector (its rule compares absolute values; a negative extreme tying with an earlier positive one
    # followed by a new extreme needs seven samples): all signals of length 7 over {-3, -1, 0, 1}
    import itertools
    for sig in itertools.product((-3.0, -1.0, 0.0, 1.0), repeat=7):
        if not ctx.mine():
            continue
        if any(a == b for a, b in zip(sig[:-1], sig[1:])):
            continue
        rs, _, _ = run('fkm', [list(sig)])
        r, _, _ = run('fkm', [[-v for v in sig]])
        ctx.case(True)
        if [v + 0.0 for v in r['from']] != [-v + 0.0 for v in rs['from']] or [v + 0.0 for v in r['to']] != [-v + 0.0 for v in rs['to']] \
                or [v + 0.0 for v in r['residuals']] != [-v + 0.0 for v in rs['residuals']]:
            ctx.fail('C03:negation:fkm', f'fkm: negating {list(sig)} does not negate the result', {'signal': list(sig), 'detector': 'fkm'})
    for s in signals(A, N, 2):
        if not ctx.mine():
            continue
        x = [float(v) for v in s]
        nt = len(TP(s)) > 0
        for det in DETECTORS:
            ref, _, _ = run(det, [x])
            # negation (also of the signal shifted to both sides of zero: the FKM rule compares absolute values, ties between a negative and a positive
            # extreme only occur in signals that change sign - added after seed C03-c)
            for shift in (0.0, -1.0, -2.0):
                xs = [v + shift for v in x]
                rs, _, _ = (ref, None, None) if shift == 0.0 else run(det, [xs])
                r, _, _ = run(det, [[-v for v in xs]])
                ctx.case(nt)
                neg = dict(rs)
                for key in ('from', 'to', 'residuals'):
                    neg[key] = [-v + 0.0 for v in rs[key]]
                if {k: [v + 0.0 for v in r[k]] if k in ('from', 'to', 'residuals') else r[k] for k in r} != neg:
                    ctx.fail(f'C03:negation:{det}', f'{det}: negating {xs} does not negate the result', {'signal': xs, 'detector': det})
            if det != 'fkm':
                for al, be in ((2.0, 1.0), (0.5, -3.0)):
                    r, _, _ = run(det, [[al * v + be for v in x]])
                    ctx.case(nt)
                    want = dict(ref)
                    for key in ('from', 'to', 'residuals'):
                        want[key] = [al * v + be for v in ref[key]]
                    if r != want:
                        ctx.fail(f'C03:affine:{det}', f'{det}: map {al}x+{be} of {list(s)} changes the counting', {'signal': list(s), 'detector': det})
            # pure positive scaling across magnitudes (all three detectors: the FKM rule compares absolute values, invariant under x -> a x, a > 0);
            # added after seed C03-b put an absolute tolerance into find_turns
            for al in (1e-9, 1e9):
                r, _, _ = run(det, [[al * v for v in x]])
                ctx.case(nt)
                want = dict(ref)
                for key in ('from', 'to', 'residuals'):
                    want[key] = [al * v for v in ref[key]]
                if r != want:
                    ctx.fail(f'C03:scaling:{det}', f'{det}: scaling {list(s)} by {al} changes the counting', {'signal': list(s), 'detector': det, 'scale': al})
            # refinement by one non-reversal sample
            for pos in range(1, len(x) + 1):
                cands = []
                if pos < len(x):
                    lo, hi = x[pos - 1], x[pos]
                    cands += [lo, hi] if lo != hi else [lo]
                    if lo != hi:
                        cands.append((lo + hi) / 2)
                        # a sample on the flank only a few 1e-9 away from either end (still strictly between the neighbours)
                        sg = 1.0 if hi > lo else -1.0
                        cands += [hi - 5e-9 * sg, lo + 5e-9 * sg]
                else:
                    cands.append(x[-1])
                for v in cands:
                    y = x[:pos] + [v] + x[pos:]
                    if [y[p] for p in TP(y)] != [x[p] for p in TP(x)] or y[0] != x[0] or y[-1] != x[-1]:
                        continue   # not a refinement by a non-reversal sample
                    r, _, _ = run(det, [y])
                    ctx.case(nt)
                    ok = r['from'] == ref['from'] and r['to'] == ref['to'] and r['residuals'] == ref['residuals']
                    if ok and det != 'fkm':
                        # indices move with the samples: reported index g in y addresses the same value
                        for vv, g in list(zip(r['from'], r['ifrom'])) + list(zip(r['to'], r['ito'])) + list(zip(r['residuals'], r['residual_index'])):
                            ok = ok and y[g] == vv
                    if not ok:
                        ctx.fail(f'C03:refinement:{det}', f'{det}: inserting {v} at {pos} into {list(s)} changes the result', {'signal': list(s), 'pos': pos, 'value': v, 'detector': det})
                    # the refined signal streamed with the inserted sample as a chunk of its own (a chunk that holds no reversal): same result
                    # (added after seed C03-f shortened the cached tail whenever a chunk adds no turning point)
                    if 1 <= pos < len(y) - 1:
                        r3, _, _ = run(det, [y[:pos], y[pos:pos + 1], y[pos + 1:]])
                        ctx.case(nt)
                        if not (r3['from'] == ref['from'] and r3['to'] == ref['to'] and r3['residuals'] == ref['residuals']) or \
                                (det != 'fkm' and (r3['ifrom'], r3['ito'], r3['residual_index']) != (r['ifrom'], r['ito'], r['residual_index'])):
                            ctx.fail(f'C03:refinement:streamed:{det}', f'{det}: {y} fed as {y[:pos]} | {y[pos:pos + 1]} | {y[pos + 1:]} differs from the unrefined signal {list(s)}',
                                     {'signal': list(s), 'pos': pos, 'value': v, 'detector': det})
            # Series index types
            if len(x) >= 3 and ctx.evaluations % 7 == 0:
                for idx in (pd.RangeIndex(5, 5 + len(x)), pd.Index(np.linspace(0.5, 9.5, len(x))), pd.date_range('2020-01-01', periods=len(x), freq='s'),
                            pd.Index([f"k{i}" for i in range(len(x))])):
                    ser = pd.Series(x, index=idx)
                    from contracts.rainflow_bounded import make
                    d, rec = make(det)
                    d.process(ser)
                    got = (list(map(float, rec.values_from)), list(map(float, rec.values_to)), list(map(float, d.residuals)))
                    ctx.case(nt)
                    if got != (ref['from'], ref['to'], ref['residuals']):
                        ctx.fail(f'C03:series-index:{det}', f'{det}: Series with {type(idx).__name__} differs from its value array for {list(s)}', {'signal': list(s)})
    ctx.sample({'signal': [0, 3, 1, 2], 'negated': [0, -3, -1, -2], 'refined': [0, 1.5, 3, 1, 2]})


@bounded('C03', 'nan-handling', shards=4)
def b_nan(ctx):
    """NaN samples away from the ends are dropped with a warning; values equal those of the cleaned signal, indices address the
    original positions"""
    import warnings
    import numpy as np
    from contracts.rainflow_bounded import make, run, signals
    from specs.rainflow_spec import TP
    A, N = (3, 5) if ctx.tier == 'quick' else (3, 7)
    ctx.bound = f"all signals over {{0,1,2}} of length 3..{N} x every placement of 1 or 2 (for length <= 5: up to 4) NaN samples strictly inside, bursts of adjacent NaNs included, in one piece and split into two chunks at every position"
    ctx.rule = "non-trivial: cleaned signal has a turning point"
    ctx.exhaustive = True
    import itertools
    for s in signals(A, N, 3):
        if not ctx.mine():
            continue
        x = [float(v) for v in s]
        # 1 to 4 NaN samples; the same insertion point may be used repeatedly (bursts of adjacent NaNs) - added after seed C03-e vectorised the index correction in a
        # way that is exact only when at most two NaNs precede a reversal closely
        for cnt in (1, 2, 3, 4):
            if cnt >= 3 and len(x) > 5:
                continue
            for poss in itertools.combinations_with_replacement(range(1, len(x)), cnt):
                y = list(x)
                for off, p in enumerate(poss):
                    y.insert(p + off, float('nan'))
                if np.isnan(y[0]) or np.isnan(y[-1]):
                    continue
                orig_pos = [i for i, v in enumerate(y) if not np.isnan(v)]
                for det in ('three', 'four'):
                    ref, _, _ = run(det, [x])
                    d, rec = make(det)
                    with warnings.catch_warnings(record=True) as w:
                        warnings.simplefilter('always')
                        d.process(np.asarray(y))
                    ctx.case(len(TP(s)) > 0)
                    got = (list(map(float, rec.values_from)), list(map(float, rec.values_to)), list(map(float, d.residuals)))
                    if not any('NaN' in str(m.message) for m in w):
                        ctx.fail('C03:nan-warning', f'no warning for NaN in {y}', {'signal': y})
                    if got != (ref['from'], ref['to'], ref['residuals']):
                        ctx.fail(f'C03:nan-values:{det}', f'{det}: NaN placement {y} changes values', {'signal': y})
                        continue
                    for vv, g in list(zip(got[0], map(int, rec.index_from))) + list(zip(got[1], map(int, rec.index_to))):
                        if not (0 <= g < len(y)) or y[g] != vv:
                            ctx.fail(f'C03:nan-index:{det}', f'{det}: index {g} does not address {vv} in {y}',
                                     f"import numpy as np, warnings\nimport pylife.stress.rainflow as rf\ny = np.array({y!r}.replace if False else {[None if v != v else v for v in y]!r}, dtype=float)\n"
                                     f"rec = rf.FullRecorder(); d = rf.{'ThreePointDetector' if det == 'three' else 'FourPointDetector'}(recorder=rec)\nwarnings.simplefilter('ignore'); d.process(y)\n"
                                     "print(rec.collective)\nfor v, g in zip(rec.values_from, rec.index_from): assert y[int(g)] == v, (v, g)\nfor v, g in zip(rec.values_to, rec.index_to): assert y[int(g)] == v, (v, g)\n")
                            break
                    # the same signal fed in two chunks, split anywhere (a chunk may end or begin with the NaN): values and indices as in one piece
                    # (added after seed C03-d dropped NaN samples from the cached tail, shifting the indices of the next chunk)
                    one = (got, list(map(int, rec.index_from)), list(map(int, rec.index_to)), list(map(int, d.residual_index)))
                    for cut in range(1, len(y)):
                        d2, rec2 = make(det)
                        with warnings.catch_warnings():
                            warnings.simplefilter('ignore')
                            d2.process(np.asarray(y[:cut])).process(np.asarray(y[cut:]))
                        two = ((list(map(float, rec2.values_from)), list(map(float, rec2.values_to)), list(map(float, d2.residuals))),
                               list(map(int, rec2.index_from)), list(map(int, rec2.index_to)), list(map(int, d2.residual_index)))
                        ctx.case(len(TP(s)) > 0)
                        if two != one:
                            what = 'values' if two[0] != one[0] else 'indices'
                            ctx.fail(f'C03:nan-chunked-{what}:{det}', f'{det}: {y} split at {cut}: {two} differs from the one-piece run {one}',
                                     f"import numpy as np, warnings\nimport pylife.stress.rainflow as rf\nnan = float('nan')\ny = np.array({[None if v != v else v for v in y]!r}, dtype=float)\n"
                                     f"warnings.simplefilter('ignore')\nout = []\nfor chunks in ([y], [y[:{cut}], y[{cut}:]]):\n    rec = rf.FullRecorder(); d = rf.{'ThreePointDetector' if det == 'three' else 'FourPointDetector'}(recorder=rec)\n"
                                     "    for c in chunks: d.process(c)\n    out.append((list(rec.values_from), list(rec.values_to), list(map(int, rec.index_from)), list(map(int, rec.index_to)), list(map(int, d.residual_index))))\n"
                                     "print(out[0]); print(out[1]); assert out[0] == out[1]\n")
                            break
    ctx.sample({'signal': [0, 2, float('nan') and 'nan', 1, 2]})


META = {
    'level': 'other',
    'explanation': "mixed. Proved: lock-step relational obligations on the real four-point kernel body (negation and positive affine maps: same branch in every iteration, "
                   "related outputs), invariance lemmas of the three closing rules. Bounded: all three detectors end to end under negation / affine maps / insertion of "
                   "non-reversal samples / NaN placement / Series index types on exhaustively enumerated small signals.",
    'not_decided': ["NaN re-indexing (vectorised in-place update) and find_turns' oversampling invariance beyond the bound", "three-point kernel relational proof (front guard with ties)"],
    'trusted_base': ['pyx stripping', 'floats = reals', 'meta-rule: step simulation => related runs'],
}
