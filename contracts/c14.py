"""C14 - load collectives and histograms account for every cycle exactly once."""
import ast
import z3
from pv.api import obligation, Unbound
from pv.bounded import bounded
from pv.sym import SV, RV
from pv.interp import Rec, Obj, Func, Frame
from pv import extract
from contracts.c08 import broadcast_spec

LC = 'pylife/stress/collective/load_collective.py::LoadCollective'
HI = 'pylife/utils/histogram.py::'


def coll(o, with_cycles=True, names=('from', 'to')):
    a, b, n = o.reals('x_from x_to n_cycles')
    fields = {names[0]: SV(a, kind='series', index='ci'), names[1]: SV(b, kind='series', index='ci')}
    if with_cycles:
        fields['cycles'] = SV(n, kind='series', index='ci')
    rec = Rec(fields, 'frame', index='ci')
    o.track(rec)
    return rec, a, b, n


def prop(o, obj, name):
    from pv.npmodel import getattr_
    return o.run1(lambda: getattr_(o.I, obj, name, None), label=name)


def absz(x):
    return z3.If(x >= 0, x, -x)


@obligation('C14', 'collective.derived', functions=[LC + '.' + m for m in ('amplitude', 'meanstress', 'upper', 'lower', 'R', 'cycles', '_validate')])
def derived(o):
    """for every cycle: upper = max(from,to), lower = min, amplitude = |from-to|/2, mean = (from+to)/2; upper - lower = 2 amplitude, (upper+lower)/2 = mean,
    R = lower/upper (upper != 0); cycles column returned as is, 1.0 per row without one"""
    rec, a, b, n = coll(o)
    lc = o.new(LC, rec)
    o.safety_exempt = ['divisor != 0']
    amp, mean, up, lo = (prop(o, lc, k) for k in ('amplitude', 'meanstress', 'upper', 'lower'))
    o.prove('amplitude == |from - to| / 2', amp.t == absz(a - b) / 2)
    o.prove('meanstress == (from + to) / 2', mean.t == (a + b) / 2)
    o.prove('upper == max(from, to), lower == min(from, to)', z3.And(up.t == z3.If(a >= b, a, b), lo.t == z3.If(a <= b, a, b)))
    o.prove('upper - lower == 2 amplitude', up.t - lo.t == 2 * amp.t)
    o.prove('(upper + lower) / 2 == meanstress', (up.t + lo.t) / 2 == mean.t)
    R = prop(o, lc, 'R')
    o.prove('R == lower / upper where upper != 0', z3.Implies(up.t != 0, R.t == lo.t / up.t))
    cy = prop(o, lc, 'cycles')
    o.prove('cycles column is returned unchanged', cy.t == n)
    rec2, _, _, _ = coll(o, with_cycles=False)
    lc2 = o.new(LC, rec2)
    cy2 = prop(o, lc2, 'cycles')
    o.prove('without a cycles column every row counts once', (cy2.t if isinstance(cy2, SV) else RV(float(cy2))) == 1)
    o.prove('derived quantities are Series on the collective index', z3.BoolVal(all(x.kind == 'series' for x in (amp, mean, up, lo))))
    o.canary('canary: amplitude == |from - to|', z3.Implies(a != b, amp.t == absz(a - b)))


@obligation('C14', 'collective.range-mean', functions=[LC + '._validate'])
def range_mean(o):
    """a range/mean description is converted to from = mean - range/2, to = mean + range/2, which reproduces (range, mean); cycles column kept"""
    rng, mean, n = o.reals('x_range x_mean n_cycles')
    o.assume(rng >= 0)
    rec = Rec({'range': SV(rng, kind='series', index='ci'), 'mean': SV(mean, kind='series', index='ci'), 'cycles': SV(n, kind='series', index='ci')}, 'frame', index='ci')
    o.track(rec)
    lc = o.new(LC, rec)
    obj = lc.fields['_obj']
    o.prove('from == mean - range/2, to == mean + range/2', z3.And(obj.fields['from'].t == mean - rng / 2, obj.fields['to'].t == mean + rng / 2))
    amp, ms = prop(o, lc, 'amplitude'), prop(o, lc, 'meanstress')
    o.prove('round trip: 2 amplitude == range and meanstress == mean', z3.And(2 * amp.t == rng, ms.t == mean))
    o.prove('cycles column carried over', obj.fields['cycles'].t == n)
    o.prove('the caller\'s frame is not modified', z3.BoolVal(rec.writes == [] and obj is not rec))
    bad = Rec({'range': SV(rng, kind='series')}, 'frame')
    ps = o.paths(lambda: o.I.instantiate(o.cls(LC), [bad], {}))
    o.prove('neither from/to nor range/mean: AttributeError', z3.BoolVal(all(p.kind == 'raise' and p.exc.exc_type == 'AttributeError' for p in ps)))


def replay_inplace(item, model):
    import pandas as pd
    import pylife.stress.collective   # noqa
    df = pd.DataFrame({'from': [0., 3.], 'to': [1., -2.], 'cycles': [1., 2.]})
    before = df.copy()
    df.load_collective.scale(2.0)
    df.load_collective.shift(1.0)
    return {'reproduced': not df.equals(before), 'inputs': {'from': [0., 3.], 'to': [1., -2.], 'operand': 'scalar 2.0 / 1.0'}, 'outputs': {'frame after': df.to_dict('list')}}


@obligation('C14', 'collective.scale-shift', functions=[LC + '.scale', LC + '.shift'])
def scale_shift(o):
    """scale multiplies from and to by the factor, shift adds the offset; cycle counts untouched; amplitude / mean transform accordingly; receiver unchanged"""
    broadcast_spec(o)
    rec, a, b, n = coll(o)
    f = o.real('factor')
    lc = o.new(LC, rec)
    orig = dict(lc.fields['_obj'].fields)
    for name, fn in (('scale', lambda x: f * x), ('shift', lambda x: x + f)):
        for kind in ('scalar', 'series'):
            new = o.run1(lambda: o.I.call(o.method(lc, name), [SV(f, kind=kind)]), label=f'{name}[{kind}]')
            nf = new.fields['_obj'].fields
            o.prove(f'{name}[{kind}]: from, to transformed', z3.And(nf['from'].t == fn(a), nf['to'].t == fn(b)))
            o.prove(f'{name}[{kind}]: cycles untouched', nf['cycles'].t == n)
            amp, ms = prop(o, new, 'amplitude'), prop(o, new, 'meanstress')
            if name == 'scale':
                o.prove(f'scale[{kind}]: amplitude scales with |factor|, mean with factor', z3.And(amp.t == absz(f) * absz(a - b) / 2, ms.t == f * (a + b) / 2))
            else:
                o.prove(f'shift[{kind}]: amplitude unchanged, mean shifted', z3.And(amp.t == absz(a - b) / 2, ms.t == (a + b) / 2 + f))
            o.prove(f'{name}[{kind}]: the receiver (and with it the caller\'s DataFrame) is not modified',
                    z3.BoolVal(all(lc.fields['_obj'].fields[c] is orig[c] for c in orig) and new.fields['_obj'] is not lc.fields['_obj']), replay=replay_inplace)


@obligation('C14', 'rebin.overlap-additivity', functions=[HI + '_do_rebin_histogram'])
def rebin_overlap(o):
    """_do_rebin_histogram.<locals>.interval_overlap(target, source) = (min(rights) - max(lefts)) / source length; for a source class that overlaps the target
    this is the clipped overlap share; clipped overlaps of adjacent targets add up, a covering gap-free binning therefore receives each source class exactly once
    (telescoping + sum calculus): totals are conserved; the same binning is the identity"""
    mod = extract.load_module('pylife.utils.histogram')
    outer = mod.find('_do_rebin_histogram')
    inner = [n for n in outer.body if isinstance(n, ast.FunctionDef) and n.name == 'interval_overlap']
    if not inner:
        raise Unbound('interval_overlap not found')
    o.functions.add((mod.name, '_do_rebin_histogram.<locals>.interval_overlap'))
    l, r, a, b, c = o.reals('l r a b c')
    o.assume(l < r, a < b, b < c)
    o.safety_exempt = []
    outerf = Frame(o.I, mod, {}, None, 'pylife.utils.histogram::_do_rebin_histogram', node=outer)
    f = Func(inner[0], mod, outerf, 'pylife.utils.histogram::_do_rebin_histogram.<locals>.interval_overlap')

    def iv(x, y):
        return Rec({'left': SV(x), 'right': SV(y), 'length': SV(y - x)}, 'interval')

    def ovp(x, y):
        m = z3.If(r <= y, r, y) - z3.If(l >= x, l, x)
        return z3.If(m > 0, m, RV(0))
    src = iv(l, r)
    res = {}
    for nm, (x, y) in (('ab', (a, b)), ('bc', (b, c)), ('ac', (a, c))):
        res[nm] = o.run1(lambda: o.I.call(f, [iv(x, y), src]), label=f'interval_overlap[{nm}]')
        overl = z3.And(l < y, x < r)     # pandas Interval.overlaps for right-closed intervals
        o.prove(f'[{nm}] overlapping classes: share == clipped overlap / source length', z3.Implies(overl, res[nm].t == ovp(x, y) / (r - l)))
        o.prove(f'[{nm}] non-overlapping classes have clipped overlap 0 (they are skipped by the code)', z3.Implies(z3.Not(overl), ovp(x, y) == 0), kind='lemma', only=[l < r])
    o.prove('clipped overlaps of adjacent targets add up', ovp(a, b) + ovp(b, c) == ovp(a, c), kind='lemma', only=[l < r, a < b, b < c])
    o.prove('a target covering the source takes the whole class', z3.Implies(z3.And(a <= l, r <= c), ovp(a, c) == r - l), kind='lemma', only=[l < r])
    o.prove('identical class: share 1', z3.Implies(z3.And(a == l, b == r), res['ab'].t == 1))
    o.trusted("meta-rule: telescoping over a gap-free covering binning and the finite-sum calculus give sum(rebinned) = sum(histogram)")
    o.canary('canary: share is always 1', z3.Implies(z3.And(l < b, a < r), res['ab'].t == 1))


@obligation('C14', 'rebin.n-bins-cover', functions=[HI + '_do_rebin_histogram'])
def rebin_nbins(o):
    """_do_rebin_histogram.<locals>.binning_of_n_bins(index, n): the binning generated for an integer bin count is interval_range(start, end, n) with start the
    minimum over ALL left edges and end the maximum over ALL right edges (the order in which the classes are listed does not matter), so it covers the histogram"""
    from pv.interp import LibNS, Builtin
    mod = extract.load_module('pylife.utils.histogram')
    outer = mod.find('_do_rebin_histogram')
    inner = [n for n in outer.body if isinstance(n, ast.FunctionDef) and n.name == 'binning_of_n_bins']
    if not inner:
        raise Unbound('binning_of_n_bins not found')
    o.functions.add((mod.name, '_do_rebin_histogram.<locals>.binning_of_n_bins'))
    l, r = o.reals('left right')
    nb = o.int('binnum')
    o.assume(l < r, nb >= 1)
    calls = []
    pd0 = o.I.libs['pd']

    class PdNS(LibNS):
        def get(self_, attr):
            if attr == 'interval_range':
                return Builtin('interval_range', lambda *a, **k: (calls.append((a, k)), Rec({}, 'binning'))[1])
            return pd0.get(attr)
    o.I.libs['pd'] = o.I.libs['pandas'] = PdNS('pd', {})
    outerf = Frame(o.I, mod, {}, None, 'pylife.utils.histogram::_do_rebin_histogram', node=outer)
    f = Func(inner[0], mod, outerf, 'pylife.utils.histogram::_do_rebin_histogram.<locals>.binning_of_n_bins')
    index = Rec({'left': SV(l, kind='series', index='hi'), 'right': SV(r, kind='series', index='hi')}, 'intervalindex', index='hi')
    try:
        o.run1(lambda: o.I.call(f, [index, SV(nb)]), label='binning_of_n_bins')
    finally:
        o.I.libs['pd'] = o.I.libs['pandas'] = pd0
    o.shape('interval_range is called once with (start, end, n)', len(calls) == 1 and len(calls[0][0]) + len(calls[0][1]) == 3, calls and (len(calls[0][0]), sorted(calls[0][1])))
    a, k = calls[0]
    a = list(a) + [k[x] for x in ('start', 'end', 'periods')[len(a):]]
    start, end, per = a[0], a[1], a[2]
    reds = {v['value'].get_id(): v for v in o.I.reductions.values()}

    def is_red(x, kind, term):
        from pv.npmodel import lift
        v = reds.get(lift(x).t.get_id())
        return v is not None and v['kind'] == kind and v['mask'] is None and v['term'].eq(term)
    o.prove('start is the minimum over the left edges of all classes', z3.BoolVal(is_red(start, 'min', l)))
    o.prove('end is the maximum over the right edges of all classes', z3.BoolVal(is_red(end, 'max', r)))
    from pv.npmodel import lift
    o.prove('the number of classes is the requested one', lift(per).t == nb)


# ---------------------------------------------------------------------------------------------
def _collectives(ctx):
    import itertools
    import numpy as np
    import pandas as pd
    vals = [-2.0, 0.0, 1.0, 3.0]
    maxrows = 3 if ctx.tier == 'quick' else 4
    for nrows in range(1, maxrows + 1):
        for fr in itertools.product(vals, repeat=nrows):
            for to in itertools.product(vals[:3], repeat=nrows):
                yield list(fr), list(to)


@bounded('C14', 'histograms-account-every-cycle', shards=16)
def b_hist(ctx):
    """range_histogram / histogram / LoopValueRecorder.histogram: class counts sum to the number of cycles inside the covered range (each cycle in exactly
    one class, also on edges); marginal relation; with and without a cycles column / extra index level; bins as count, edges, IntervalIndex, a single bin"""
    import warnings
    import numpy as np
    import pandas as pd
    import pylife.stress.collective   # noqa
    warnings.simplefilter('ignore')
    ctx.bound = "collectives with 1..3(4) rows, from in {-2,0,1,3}, to in {-2,0,1}; bin specs: 1, 2, 3 bins; explicit edges [0,1,2,5] (values on edges), IntervalIndex of the same, one-class IntervalIndex"
    ctx.rule = "non-trivial: a cycle whose range lies exactly on a class edge or outside the covered range; distinct by (collective, bin spec)"
    ctx.exhaustive = True
    edges = np.array([0.0, 1.0, 2.0, 5.0])
    specs = [('1 bin', 1), ('2 bins', 2), ('3 bins', 3), ('edges', edges), ('IntervalIndex', pd.IntervalIndex.from_breaks(edges)),
             ('one-class IntervalIndex', pd.IntervalIndex.from_breaks([0.0, 5.0]))]
    for fr, to in _collectives(ctx):
        if not ctx.mine():
            continue
        df = pd.DataFrame({'from': fr, 'to': to})
        # the same collective with the columns listed the other way round and a further column: identified by name
        df_alt = pd.DataFrame({'note': [0.5] * len(fr), 'to': to, 'from': fr})
        for q_ in ('amplitude', 'meanstress', 'upper', 'lower'):
            a_, b_ = np.asarray(getattr(df.load_collective, q_), dtype=float), np.asarray(getattr(df_alt.load_collective, q_), dtype=float)
            if not np.array_equal(a_, b_):
                ctx.fail(f'C14:column-order:{q_}', f'{q_} of the collective from={fr}, to={to} depends on the order of the columns: {a_.tolist()} vs {b_.tolist()}', {'from': fr, 'to': to})
        rng = np.abs(np.array(fr) - np.array(to))
        means = (np.array(fr) + np.array(to)) / 2
        for sname, spec in specs:
            try:
                h = df.load_collective.range_histogram(spec).to_pandas()
            except Exception as e:   # noqa
                ctx.fail(f'C14:range_histogram-raises:{sname}', f'range_histogram({sname}) raises {type(e).__name__}: {e} for from={fr}, to={to}', {'from': fr, 'to': to})
                continue
            lo, hi = h.index.left.min(), h.index.right.max()
            inside = int(((rng >= lo) & (rng <= hi)).sum())
            ctx.case(bool(np.isin(rng, edges).any() or inside < len(rng)), key=(tuple(fr), tuple(to), sname))
            if int(round(h.sum())) != inside:
                ctx.fail('C14:range_histogram-total', f'range_histogram({sname}) counts {h.sum()} cycles, {inside} lie in [{lo},{hi}] (from={fr}, to={to})', {'from': fr, 'to': to, 'bins': sname})
            if (h < 0).any():
                ctx.fail('C14:negative-count', f'negative class count from={fr} to={to}', None)
        # two-dimensional histogram and marginal
        for nb in (1, 2, 3):
            h2 = df.load_collective.histogram(nb).to_pandas()
            if int(round(h2.sum())) != len(fr):
                ctx.fail('C14:histogram-total', f'histogram({nb}) counts {h2.sum()} of {len(fr)} cycles (from={fr}, to={to})', {'from': fr, 'to': to})
            # every occupied class contains (closed limits, both levels) at least as many cycles as it counts, and the mean classes cover the means of the
            # collective (added after seed C14-g labelled the mean level with the class limits of the range level)
            ml_, mr_ = h2.index.get_level_values('mean').left.min(), h2.index.get_level_values('mean').right.max()
            if ml_ > means.min() + 1e-12 or mr_ < means.max() - 1e-12:
                ctx.fail('C14:histogram-mean-classes', f'histogram({nb}): the mean classes cover [{ml_}, {mr_}], the means of the collective are {means.tolist()} (from={fr}, to={to})', {'from': fr, 'to': to, 'bins': nb})
            else:
                for (ri_, mi_), c_ in h2.items():
                    if c_ > 0:
                        have = int(((rng >= ri_.left - 1e-12) & (rng <= ri_.right + 1e-12) & (means >= mi_.left - 1e-12) & (means <= mi_.right + 1e-12)).sum())
                        if have < int(round(c_)):
                            ctx.fail('C14:histogram-class-membership', f'histogram({nb}): class range {ri_} / mean {mi_} counts {c_} cycles, {have} cycles lie inside it (from={fr}, to={to})', {'from': fr, 'to': to, 'bins': nb})
                            break
            h1 = df.load_collective.range_histogram(nb).to_pandas()
            marg = h2.groupby('range').sum()
            if not np.array_equal(np.asarray(marg.values, dtype=float), np.asarray(h1.values, dtype=float)) and len(set(rng)) > 1:
                # same automatic binning only when the range extrema agree: they do (both use min/max of the ranges)
                ctx.fail('C14:marginal', f'range histogram {h1.values.tolist()} is not the marginal {marg.values.tolist()} of the range/mean histogram (from={fr}, to={to})', {'from': fr, 'to': to})
        # extra index level, per-group totals
        if len(fr) >= 2:
            idx = pd.MultiIndex.from_arrays([['a', 'b'] * len(fr), list(range(2 * len(fr)))], names=['node', 'cycle_number'])
            dfg = pd.DataFrame({'from': fr + fr, 'to': to + to}, index=idx)
            hg = dfg.load_collective.range_histogram(edges, 'cycle_number').to_pandas()
            tot = hg.groupby('node').sum()
            rng2 = np.abs(np.array(fr + fr) - np.array(to + to))
            for node, sel in (('a', slice(0, None, 2)), ('b', slice(1, None, 2))):
                want = int(((rng2[sel] >= 0) & (rng2[sel] <= 5)).sum())
                if int(round(tot[node])) != want:
                    ctx.fail('C14:grouped-total', f'grouped range_histogram: node {node} has {tot[node]} cycles, expected {want}', {'from': fr, 'to': to})
            # the range/mean histogram along the same axis (optional argument `axis`): per group, an integer bin count covers every cycle of the group
            for nb in (1, 2):
                try:
                    h2g = dfg.load_collective.histogram(nb, 'cycle_number').to_pandas()
                except Exception as e:   # noqa
                    ctx.fail(f'C14:grouped-histogram-raises:{type(e).__name__}', f'histogram({nb}, axis) raises {type(e).__name__}: {e} for from={fr}, to={to}', {'from': fr, 'to': to})
                    continue
                ctx.case(True, key=(tuple(fr), tuple(to), 'grouped-2d', nb))
                for node, sel in (('a', slice(0, None, 2)), ('b', slice(1, None, 2))):
                    rn_ = np.abs(np.array(fr + fr) - np.array(to + to))[sel]
                    mn_ = ((np.array(fr + fr) + np.array(to + to)) / 2)[sel]
                    for (ri_, mi_), c_ in h2g.xs(node, level='node').items():
                        if c_ > 0 and int(((rn_ >= ri_.left - 1e-12) & (rn_ <= ri_.right + 1e-12) & (mn_ >= mi_.left - 1e-12) & (mn_ <= mi_.right + 1e-12)).sum()) < int(round(c_)):
                            ctx.fail('C14:grouped-histogram-class-membership', f'grouped histogram({nb}): node {node}, class range {ri_} / mean {mi_} counts {c_} cycles that do not lie inside it (from={fr}, to={to})', {'from': fr, 'to': to, 'bins': nb})
                            break
                t2 = h2g.groupby('node').sum()
                for node, sel in (('a', slice(0, None, 2)), ('b', slice(1, None, 2))):
                    want = len((fr + fr)[sel])
                    if int(round(t2[node])) != want:
                        ctx.fail('C14:grouped-histogram-total', f'grouped histogram({nb}): node {node} has {t2[node]} cycles, expected {want} (from={fr}, to={to})', {'from': fr, 'to': to})
    ctx.sample({'from': [0.0, 3.0], 'to': [1.0, -2.0], 'bins': 'edges [0,1,2,5]'})


@bounded('C14', 'cycles-column-weights', shards=1)
def b_cycles_column(ctx):
    """a collective with a cycles column: do histogram class counts sum to the cycles inside the covered range (weights) or to the number of rows?"""
    import numpy as np
    import pandas as pd
    import pylife.stress.collective   # noqa
    ctx.bound = "4 collectives with a cycles column (counts 1, 2.5, 10), 3 bin specs"
    ctx.rule = "non-trivial: some count != 1"
    for k, cyc in enumerate(([1.0, 1.0], [2.0, 1.0], [2.5, 10.0], [10.0, 10.0])):
        df = pd.DataFrame({'from': [0.0, 3.0], 'to': [1.0, -2.0], 'cycles': cyc})
        for spec in (1, 2, np.array([0.0, 2.0, 6.0])):
            h = df.load_collective.range_histogram(spec).to_pandas()
            ctx.case(any(c != 1 for c in cyc), key=(k, str(spec)))
            if abs(h.sum() - sum(cyc)) > 1e-9:
                ctx.fail('C14:cycles-column-ignored', f'range_histogram of a collective with cycles column {cyc} sums to {h.sum()} (number of rows), not to the {sum(cyc)} cycles',
                         "import pandas as pd\nimport pylife.stress.collective\ndf = pd.DataFrame({'from': [0.0, 3.0], 'to': [1.0, -2.0], 'cycles': [2.5, 10.0]})\n"
                         "h = df.load_collective.range_histogram(2).to_pandas()\nprint(h)\nassert h.sum() == 12.5, h.sum()\n")
    # LoadCollective.scale / shift on collectives that carry a cycles column and a further column, the columns listed in every order: from / to are transformed,
    # everything else is untouched (added after seed C14-i transformed the positional slice of columns between 'from' and 'to')
    import itertools
    base = {'from': [0.0, 3.0, -2.0], 'to': [1.0, -2.0, 4.0], 'cycles': [10.0, 200.0, 3000.0], 'note': [0.5, 0.25, 0.125]}
    for order in itertools.permutations(['from', 'to', 'cycles', 'note']):
        df = pd.DataFrame({c: base[c] for c in order}, index=pd.Index([5, 3, 9], name='cycle_number'))
        a0, m0 = np.asarray(df.load_collective.amplitude, dtype=float), np.asarray(df.load_collective.meanstress, dtype=float)
        for op, operand in (('scale', 2.5), ('scale', -0.5), ('shift', 7.0)):
            ctx.case(True, key=('collective-columns', order, op, operand))
            try:
                res = getattr(df.load_collective, op)(operand)
                out = res.to_pandas()
                a1, m1 = np.asarray(res.amplitude, dtype=float), np.asarray(res.meanstress, dtype=float)
            except Exception as e:   # noqa
                ctx.fail(f'C14:collective-{op}:raises', f'{op}({operand}) on a collective with the columns {list(order)} raises {type(e).__name__}: {str(e)[:120]}', {'columns': list(order)})
                continue
            want_a = abs(operand) * a0 if op == 'scale' else a0
            want_m = operand * m0 if op == 'scale' else m0 + operand
            bad = []
            if not np.allclose(a1, want_a, rtol=1e-12, atol=1e-12) or not np.allclose(m1, want_m, rtol=1e-12, atol=1e-12):
                bad.append(f'amplitude / mean {a1.tolist()} / {m1.tolist()}, expected {want_a.tolist()} / {want_m.tolist()}')
            for c in ('cycles', 'note'):
                if c not in out.columns or not np.array_equal(np.asarray(out[c], dtype=float), np.asarray(base[c], dtype=float)):
                    bad.append(f'column {c} became {np.asarray(out[c], dtype=float).tolist() if c in out.columns else "missing"}')
            if bad:
                ctx.fail(f'C14:collective-{op}:other-columns' if len(bad) and 'column' in bad[-1] else f'C14:collective-{op}:values', f'{op}({operand}) on a collective with the columns {list(order)}: ' + '; '.join(bad), {'columns': list(order), 'operand': operand})
    ctx.sample({'from': [0.0, 3.0], 'to': [1.0, -2.0], 'cycles': [2.5, 10.0]})


@bounded('C14', 'histogram-scale-shift', shards=1)
def b_hist_scale(ctx):
    """LoadHistogram.scale / shift (range/mean and from/to matrices): when a result is handed back, amplitude = |f| x amplitude (>= 0), mean = f x mean (shift: mean + d),
    upper >= lower, cycle counts untouched, and it agrees with LoadCollective.scale / shift on the class mids - for positive, NEGATIVE and per-node mixed-sign
    operands; an operand the histogram refuses (ValueError) is counted, not failed (added after seed C14-f swapped the class limits for negative factors, which is
    right for from / to / mean levels and wrong for the range level)"""
    import itertools
    import warnings
    import numpy as np
    import pandas as pd
    import pylife.stress.collective   # noqa
    warnings.simplefilter('ignore')
    ctx.bound = "3x3 range/mean and from/to matrices with counts 1..9 (float class limits; range/mean and range-only also with integer class limits); scale factors 0.5, 2, -1, -0.5; shifts 1.5, -2; per-node factors [2, -0.5]"
    ctx.rule = "every (layout, operation, operand) is one case; non-trivial: negative or per-node operand"
    rg = pd.IntervalIndex.from_breaks([0.0, 2.0, 4.0, 6.0], name='range')
    mn = pd.IntervalIndex.from_breaks([-3.0, -1.0, 1.0, 3.0], name='mean')
    fr = pd.IntervalIndex.from_breaks([-3.0, -1.0, 1.0, 3.0], name='from')
    to = pd.IntervalIndex.from_breaks([-2.0, 0.0, 2.0, 4.0], name='to')
    mats = {'range/mean': pd.Series(np.arange(1.0, 10.0), index=pd.MultiIndex.from_product([rg, mn]), name='cycles'),
            'from/to': pd.Series(np.arange(1.0, 10.0), index=pd.MultiIndex.from_product([fr, to]), name='cycles')}
    # class limits that are whole numbers stored as integers (interval[int64]: what range_histogram([0, 1, 2, 3]) / histogram([0, 2, 4, 6]) / pd.interval_range(0, 4)
    # hand out), with non-integer operands (added after seed C14-h pinned the transformed limits to the dtype of the source level)
    rgi = pd.IntervalIndex.from_breaks([0, 2, 4, 6], name='range')
    mni = pd.IntervalIndex.from_breaks([-3, -1, 1, 3], name='mean')
    mats['range/mean, integer limits'] = pd.Series(np.arange(1.0, 10.0), index=pd.MultiIndex.from_product([rgi, mni]), name='cycles')
    mats['range only, integer limits'] = pd.Series(np.arange(1.0, 4.0), index=rgi, name='cycles')
    for (lname, mat), (op, operand) in itertools.product(mats.items(), [('scale', 0.5), ('scale', 2.0), ('scale', -1.0), ('scale', -0.5), ('shift', 1.5), ('shift', -2.0)]):
        ctx.case(operand < 0, key=(lname, op, operand))
        h = mat.load_collective
        a0, m0 = np.asarray(h.amplitude, dtype=float), np.asarray(h.meanstress, dtype=float)
        try:
            res = getattr(h, op)(operand)
        except ValueError:
            ctx.count(f'refused:{lname}:{op}:{operand}')
            continue
        a1, m1 = np.asarray(res.amplitude, dtype=float), np.asarray(res.meanstress, dtype=float)
        up, lo = np.asarray(res.upper, dtype=float), np.asarray(res.lower, dtype=float)
        want_a = np.abs(operand) * a0 if op == 'scale' else a0
        want_m = operand * m0 if op == 'scale' else m0 + operand
        if lname.startswith('range only') and op == 'shift':
            want_m = m0          # a pure range histogram carries no mean: shift leaves it alone
        cyc_same = np.array_equal(np.asarray(res.to_pandas(), dtype=float), np.asarray(mat, dtype=float))
        # the class mids are identified by value, not by position: compare as multisets of (amplitude, mean, count)
        got_rows = sorted(zip(np.round(a1, 9), np.round(m1, 9), np.asarray(res.to_pandas(), dtype=float)))
        want_rows = sorted(zip(np.round(want_a, 9), np.round(want_m, 9), np.asarray(mat, dtype=float)))
        if (a1 < 0).any() or (up < lo - 1e-12).any() or got_rows != want_rows:
            ctx.fail(f'C14:histogram-{op}:{lname}', f'{lname} matrix {op}({operand}): amplitudes {a1.tolist()} (expected {want_a.tolist()}), means {m1.tolist()} (expected {want_m.tolist()}), upper >= lower: {bool((up >= lo - 1e-12).all())}, counts kept: {cyc_same}',
                     {'layout': lname, 'operation': op, 'operand': operand})
    ctx.sample({'layout': 'range/mean', 'operation': 'scale', 'operand': -1.0})


@bounded('C14', 'rebin-combine-conservation', shards=8)
def b_rebin(ctx):
    """rebin_histogram to any gap-free binning covering the histogram conserves the total, is the identity for the same binning and composes;
    combine_histogram(sum) conserves the grand total; one-class target binnings"""
    import itertools
    import warnings
    import numpy as np
    import pandas as pd
    from pylife.utils.histogram import rebin_histogram, combine_histogram
    warnings.simplefilter('ignore')
    pool = [[0, 1, 2, 3], [0, 0.5, 3], [0, 3], [0, 1.5, 3], [0, 0.1, 0.2, 3], [-1, 0, 4], [0, 1, 2.5, 3, 5], [0, 2.999, 3], [-2, 3.5], [0, 1, 3], [0, 0.75, 1.5, 2.25, 3], [0, 2, 3, 7]]
    counts_pool = [[1, 2, 3], [0, 5, 0], [10, 0, 1], [2.5, 2.5, 2.5]]
    ctx.bound = "source binnings: the 3/2/1-class members of a pool of 12 gap-free irregular binnings with counts from 4 patterns; targets: every pool member covering the source; all breaks also scaled by 1e-9 and 1e6; integer bin counts 1..4 with the source classes listed in order / reversed / rotated"
    ctx.rule = "non-trivial: target differs from the source; distinct by (source, counts, target)"
    ctx.exhaustive = True
    # the unit of the load axis is the user's (MPa, Pa, strain ...): the pool as it is and scaled by 1e-9 / 1e6 (added after seed C14-d treated overlaps below 1e-8
    # load units as "touching only")
    pool0 = pool
    for unit, sb0 in [(u, b) for u in (1.0, 1e-9, 1e6) for b in pool0]:
        pool = [[x * unit for x in b] for b in pool0]
        sb = [x * unit for x in sb0]
        for counts in counts_pool:
            if len(counts) < len(sb) - 1:
                continue
            c = counts[:len(sb) - 1]
            h = pd.Series([float(x) for x in c], index=pd.IntervalIndex.from_breaks([float(x) for x in sb], name='range'), name='cycles')
            # integer cycle counts (what range_histogram / np.histogram return): re-binning spreads them in fractions, the total is still conserved
            # (added after seed C14-e cast the result back to the dtype of the source histogram)
            if unit == 1.0 and all(float(x) == int(x) for x in c):
                hi = h.astype('int64')
                for tb in pool:
                    if tb[0] > sb[0] or tb[-1] < sb[-1]:
                        continue
                    ri = rebin_histogram(hi, pd.IntervalIndex.from_breaks([float(x) for x in tb]))
                    ctx.case(True, key=(tuple(sb), tuple(c), tuple(tb), 'int64'))
                    if abs(float(ri.sum()) - float(h.sum())) > 1e-9 * max(1, h.sum()):
                        ctx.fail('C14:rebin-total:integer-counts', f'rebinning {sb} with integer counts {c} to {tb}: total {h.sum()} -> {ri.sum()}', {'source': sb, 'counts': c, 'target': tb})
                for nb in (2, 3):
                    ri = rebin_histogram(hi, nb)
                    if abs(float(ri.sum()) - float(h.sum())) > 1e-9 * max(1, h.sum()):
                        ctx.fail('C14:rebin-total:integer-counts', f'rebinning {sb} with integer counts {c} to {nb} bins: total {h.sum()} -> {ri.sum()}', {'source': sb, 'counts': c, 'bins': nb})
            for tb in pool:
                if not ctx.mine():
                    continue
                if tb[0] > sb[0] or tb[-1] < sb[-1]:
                    continue
                t = pd.IntervalIndex.from_breaks([float(x) for x in tb])
                ctx.case(tb != sb, key=(tuple(sb), tuple(c), tuple(tb)))
                try:
                    r = rebin_histogram(h, t)
                except Exception as e:   # noqa
                    one = 'one-class-target' if len(tb) == 2 else 'multi-class-target'
                    ctx.fail(f'C14:rebin-raises:{one}', f'rebin_histogram to the binning {tb} raises {type(e).__name__}: {e}',
                             f"import pandas as pd\nfrom pylife.utils.histogram import rebin_histogram\nh = pd.Series({[float(x) for x in c]!r}, index=pd.IntervalIndex.from_breaks({[float(x) for x in sb]!r}, name='range'))\n"
                             f"print(rebin_histogram(h, pd.IntervalIndex.from_breaks({[float(x) for x in tb]!r})))\n")
                    continue
                if abs(r.sum() - h.sum()) > 1e-9 * max(1, h.sum()):
                    ctx.fail('C14:rebin-total', f'rebinning {sb} {c} to {tb}: total {h.sum()} -> {r.sum()}', {'source': sb, 'counts': c, 'target': tb})
                if tb == sb and not np.allclose(r.values, h.values):
                    ctx.fail('C14:rebin-identity', f'rebinning {sb} to itself changes the counts {h.values.tolist()} -> {r.values.tolist()}', {'source': sb, 'counts': c})
                # composition through a refinement
                fine = sorted(set(sb) | set(tb))
                r2 = rebin_histogram(rebin_histogram(h, pd.IntervalIndex.from_breaks([float(x) for x in fine])), t)
                if not np.allclose(r2.values, r.values, rtol=1e-9, atol=1e-12):
                    ctx.fail('C14:rebin-composition', f'rebinning {sb} -> {fine} -> {tb} differs from {sb} -> {tb}', {'source': sb, 'counts': c, 'target': tb})
            # integer bin counts: the target is generated from the range the histogram covers, in whatever order its classes are listed (added after seed C14-c)
            orders = {'listed': list(range(len(h))), 'reversed': list(range(len(h)))[::-1], 'rotated': list(range(1, len(h))) + [0]}
            for nb in (1, 2, 3, 4):
                for oname, order in orders.items():
                    if oname != 'listed' and len(h) == 1:
                        continue
                    hh = h.iloc[order]
                    r = rebin_histogram(hh, nb)
                    ctx.case(True, key=(tuple(sb), tuple(c), nb, oname))
                    if abs(r.sum() - h.sum()) > 1e-9 * max(1, h.sum()):
                        ctx.fail('C14:rebin-total', f'rebinning {sb} {c} (classes {oname}) to {nb} bins: total {h.sum()} -> {r.sum()}', {'source': sb, 'counts': c, 'bins': nb, 'order': order})
                    if len(r) != nb or r.index.left.min() != float(sb[0]) or r.index.right.max() != float(sb[-1]):
                        ctx.fail('C14:rebin-n-bins-range', f'rebinning {sb} (classes {oname}) to {nb} bins gives the binning {[(i.left, i.right) for i in r.index]}', {'source': sb, 'counts': c, 'bins': nb, 'order': order})
    if ctx.shard == 0:
        hs = [pd.Series([1.0, 2.0], index=pd.IntervalIndex.from_breaks([0.0, 1.0, 2.0], name='range')),
              pd.Series([4.0, 0.5], index=pd.IntervalIndex.from_breaks([1.0, 2.0, 3.0], name='range')),
              pd.Series([7.0], index=pd.IntervalIndex.from_breaks([0.0, 1.0], name='range'))]
        for k in range(1, 4):
            for sub in itertools.combinations(hs, k):
                comb = combine_histogram(list(sub), 'sum')
                ctx.case(k > 1, key=('combine', k, id(sub)))
                if abs(comb.sum() - sum(s_.sum() for s_ in sub)) > 1e-12:
                    ctx.fail('C14:combine-total', f'combine_histogram(sum) total {comb.sum()} != {sum(s_.sum() for s_ in sub)}', None)
    ctx.sample({'source': [0, 1, 2, 3], 'counts': [1, 2, 3], 'target': [0, 0.5, 3]})


META = {
    'level': 'other',
    'explanation': "mixed. Proved for every cycle (generic row): the derived quantities of a collective and their mutual consistency, the range/mean <-> from/to conversion, "
                   "scale and shift (cycle counts untouched), and on the real nested function interval_overlap: overlap shares of adjacent target classes add up and a covering "
                   "class takes the whole source class (the lemmas behind total conservation of the re-binning). The histogram plumbing (np.histogram edge semantics, pandas group-by, "
                   "IntervalIndex handling) is bounded: every cycle in exactly one class on all small collectives and bin specifications, re-binning over a pool of irregular binnings.",
    'not_decided': ["np.histogram / np.histogram2d edge semantics (assumed, bounded only)", "LoadHistogram interval arithmetic (mids of from/to matrices) beyond the bounded cases"],
    'trusted_base': ['assumed contract of broadcast', 'telescoping / finite-sum meta-rule for the re-binning', 'floats = reals', 'element-wise lifting'],
}


def _overlap_rebin_1d(src_breaks, counts, tgt_breaks):
    """independent oracle: counts of the target classes when every source class is spread uniformly over its length"""
    out = []
    for a, b in zip(tgt_breaks[:-1], tgt_breaks[1:]):
        tot = 0.0
        for (l, r), c in zip(zip(src_breaks[:-1], src_breaks[1:]), counts):
            ov = min(b, r) - max(a, l)
            if ov > 0:
                tot += c * ov / (r - l)
        out.append(tot)
    return out


@bounded('C14', 'rebin-multi-dimensional', shards=8)
def b_rebin_nd(ctx):
    """rebin_histogram of range x mean histograms (optionally with an additional non-interval level) to gap-free covering target binnings given as MultiIndex with the levels
    in the histogram's order or in another order, as one IntervalIndex for all levels, or as int: every level is re-binned to the target classes of the level of the SAME
    NAME, the total (per group) is conserved and the result equals the independent axis-by-axis overlap oracle"""
    import itertools
    import warnings
    import numpy as np
    import pandas as pd
    from pylife.utils.histogram import rebin_histogram
    warnings.simplefilter('error', RuntimeWarning)
    rpool = [[0.0, 1.0, 2.0, 3.0], [0.0, 0.5, 3.0], [0.0, 3.0], [0.0, 2.0, 3.0, 7.0], [-1.0, 0.0, 4.0]]
    mpool = [[-2.0, 0.0, 2.0], [-2.0, 2.0], [-3.0, -1.0, 1.0, 5.0], [-2.0, -1.5, 2.0]]
    ctx.bound = "source: range classes [0,1,2,3] x mean classes [-2,0,2] with 3 count patterns, without / with an element_id level of 2 groups; targets: 5 x 4 covering binnings as MultiIndex (both level orders), int bins 1..3"
    ctx.rule = "non-trivial: target differs from the source or levels listed in another order; distinct by (counts, group level, target, order)"
    ctx.exhaustive = True
    sr, sm = rpool[0], mpool[0]
    src = pd.MultiIndex.from_product([pd.IntervalIndex.from_breaks(sr), pd.IntervalIndex.from_breaks(sm)], names=['range', 'mean'])
    patterns = [[1, 2, 3, 4, 5, 6], [0, 5, 0, 0, 0, 1], [2.5, 0, 0, 0, 0, 2.5]]
    for counts, grouped in itertools.product(patterns, (False, True)):
        h = pd.Series([float(c) for c in counts], index=src, name='cycles')
        if grouped:
            h = pd.concat({1: h, 7: h * 2.0}, names=['element_id'])
        for tr, tm, order in itertools.product(rpool, mpool, (('range', 'mean'), ('mean', 'range'))):
            if not ctx.mine():
                continue
            if tr[0] > sr[0] or tr[-1] < sr[-1] or tm[0] > sm[0] or tm[-1] < sm[-1]:
                continue
            lv = {'range': pd.IntervalIndex.from_breaks(tr), 'mean': pd.IntervalIndex.from_breaks(tm)}
            target = pd.MultiIndex.from_product([lv[order[0]], lv[order[1]]], names=list(order))
            ctx.case((tr, tm) != (sr, sm) or order != ('range', 'mean'), key=(tuple(counts), grouped, tuple(tr), tuple(tm), order))
            tag = ('grouped' if grouped else 'plain') + ':' + ('same-order' if order == ('range', 'mean') else 'other-order')
            try:
                r = rebin_histogram(h, target)
            except Exception as e:   # noqa
                ctx.fail(f'C14:rebin-nd:raises:{tag}', f'rebin_histogram of a {"grouped " if grouped else ""}range x mean histogram to the MultiIndex binning {order} = {tr} x {tm} raises {type(e).__name__}: {e}',
                         {'counts': counts, 'grouped': grouped, 'range': tr, 'mean': tm, 'order': order})
                continue
            # oracle: axis by axis
            grid = np.array(counts, dtype=float).reshape(len(sr) - 1, len(sm) - 1)
            step1 = np.array([_overlap_rebin_1d(sr, grid[:, j], tr) for j in range(grid.shape[1])]).T
            want = np.array([_overlap_rebin_1d(sm, step1[i, :], tm) for i in range(step1.shape[0])])
            groups = [(None, 1.0)] if not grouped else [(1, 1.0), (7, 2.0)]
            for gid, fac in groups:
                rg = r if gid is None else r.xs(gid, level='element_id')
                if list(rg.index.names) != ['range', 'mean']:
                    ctx.fail(f'C14:rebin-nd:levels:{tag}', f'result levels {list(rg.index.names)}', None)
                    break
                got_r = sorted(set(rg.index.get_level_values('range')))
                got_m = sorted(set(rg.index.get_level_values('mean')))
                if got_r != list(lv['range']) or got_m != list(lv['mean']):
                    ctx.fail(f'C14:rebin-nd:classes:{tag}', f"level 'range' carries {got_r}, level 'mean' carries {got_m}; targets {tr} / {tm} listed as {order}", {'range': tr, 'mean': tm, 'order': order})
                    break
                if abs(rg.sum() - fac * sum(counts)) > 1e-9 * max(1, sum(counts)):
                    ctx.fail(f'C14:rebin-nd:total:{tag}', f'total {fac * sum(counts)} -> {rg.sum()} (targets {tr} x {tm} listed as {order})', {'range': tr, 'mean': tm, 'order': order})
                    break
                got = np.array([[rg.loc[(ri, mi)] for mi in lv['mean']] for ri in lv['range']], dtype=float)
                if not np.allclose(got, fac * want, rtol=1e-9, atol=1e-12):
                    ctx.fail(f'C14:rebin-nd:values:{tag}', f'counts differ from the axis-by-axis overlap oracle (targets {tr} x {tm} listed as {order})', {'range': tr, 'mean': tm, 'order': order})
                    break
        for nb in (1, 2, 3):
            if not ctx.mine():
                continue
            ctx.case(True, key=(tuple(counts), grouped, nb))
            try:
                r = rebin_histogram(h, nb)
            except Exception as e:   # noqa
                ctx.fail('C14:rebin-nd:raises:int-bins', f'rebin_histogram(h, {nb}) of a {"grouped " if grouped else ""}2D histogram raises {type(e).__name__}: {e}', {'bins': nb, 'grouped': grouped})
                continue
            if abs(r.sum() - h.sum()) > 1e-9 * max(1, h.sum()):
                ctx.fail('C14:rebin-nd:total:int-bins', f'total {h.sum()} -> {r.sum()} for {nb} bins', {'bins': nb, 'grouped': grouped})
    ctx.sample({'source': 'range [0,1,2,3] x mean [-2,0,2]', 'target': "MultiIndex names ['mean', 'range'] = [-2,2] x [0,0.5,3]"})
