"""C20 - VMAP export followed by import returns the same mesh and fields."""
import os
import tempfile

from pv.bounded import bounded

ELEMENT_NODES = {2: [3, 6, 4, 8], 3: [4, 10, 6, 15, 8, 20]}


def scratch_file():
    d = os.environ.get('PV_SCRATCH') or tempfile.gettempdir()
    fd, name = tempfile.mkstemp(suffix='.vmap', prefix='pv-c20-', dir=d)
    os.close(fd)
    return name


def make_mesh(rng, dim, types, n_el, ids='contiguous', order='blocks', with_z=True):
    """mesh frame with index (element_id, node_id): n_el elements whose node counts cycle through `types`; nodes shared between elements"""
    import numpy as np
    import pandas as pd
    counts = [types[i % len(types)] for i in range(n_el)]
    n_nodes = max(max(counts) + 2, int(sum(counts) * 0.6))
    if ids == 'contiguous':
        nid = np.arange(1, n_nodes + 1)
        eid = np.arange(1, n_el + 1)
    elif ids == 'gapped':
        nid = 10 + 7 * np.arange(n_nodes)
        eid = 3 + 5 * np.arange(n_el)
    elif ids == 'permuted':
        nid = rng.permutation(100 + 3 * np.arange(n_nodes))
        eid = rng.permutation(1000 + 11 * np.arange(n_el))
    elif ids == 'large':
        nid = 2**31 - 1 - rng.permutation(np.arange(n_nodes)) * 1001
        eid = 2**31 - 1 - rng.permutation(np.arange(n_el)) * 17
    else:
        raise ValueError(ids)
    xyz = rng.normal(size=(n_nodes, 3)) * 10
    if dim == 2:
        xyz[:, 2] = 0.0
    rows = []
    for e, cnt in zip(eid, counts):
        for n in rng.choice(n_nodes, size=cnt, replace=False):
            rows.append((int(e), int(nid[n]), *xyz[n]))
    if order == 'interleaved':
        # random merge of the elements' row lists: rows of an element keep their relative order (the connectivity) but are not contiguous
        per = {}
        for r in rows:
            per.setdefault(r[0], []).append(r)
        queues = [list(v) for v in per.values()]
        rows = []
        while queues:
            q = queues[rng.integers(len(queues))]
            rows.append(q.pop(0))
            queues = [q for q in queues if q]
    df = pd.DataFrame(rows, columns=['element_id', 'node_id', 'x', 'y', 'z']).set_index(['element_id', 'node_id'])
    if dim == 2 and not with_z:
        df = df[['x', 'y']]
    return df


def add_fields(rng, mesh):
    import numpy as np
    df = mesh.copy()
    nodes = df.index.get_level_values('node_id').to_numpy()
    uniq = {n: rng.normal(size=4) for n in np.unique(nodes)}
    for k, c in enumerate(['dx', 'dy', 'dz', 'T']):
        df[c] = [uniq[n][k] for n in nodes]
    for c in ['S11', 'S22', 'S33', 'S12', 'S13', 'S23', 'Q1', 'Q2']:
        df[c] = rng.normal(size=len(df)) * 100
    return df


def expected_frame(df):
    """elements ordered by id, every element's rows in their original relative order"""
    import numpy as np
    e = df.index.get_level_values('element_id').to_numpy()
    return df.iloc[np.argsort(e, kind='stable')]


def snapshot(path):
    """names of the geometries and of the (state, geometry, variable) triples in the file, plus the MYSIZE bookkeeping of the variable groups"""
    import h5py
    with h5py.File(path, 'r') as f:
        geos = {g: sorted(f['/VMAP/GEOMETRY'][g].keys()) for g in f['/VMAP/GEOMETRY'].keys()}
        variables = {}
        sizes_ok = True
        for s, sg in f['/VMAP/VARIABLES'].items():
            for g, gg in sg.items():
                for v in gg.keys():
                    variables[(s, g, v)] = sorted(gg[v].keys())
                if int(gg.attrs['MYSIZE']) != len(gg.keys()):
                    sizes_ok = False
    return geos, variables, sizes_ok


def roundtrip_compare(ctx, key, path, geometry, full, state_vars, what):
    """import everything back and compare with `full` (the exported frame incl. variable columns)"""
    import numpy as np
    import pylife.vmap as vmap
    want = expected_frame(full)
    imp = vmap.VMAPImport(path)
    try:
        for attempt in range(2):     # reading is repeatable
            m = imp.make_mesh(geometry).join_coordinates()
            cols = ['x', 'y'] + (['z'] if 'z' in full else [])      # a 2D mesh exported without z comes back without z
            for state, var, colnames, explicit in state_vars:
                m = m.join_variable(var, state, column_names=colnames if explicit else None)
                cols += list(colnames)
            got = m.to_frame()
            if list(got.index) != list(want.index):
                ctx.fail(f'{key}:rows', f'{what}: imported element/node rows differ from the exported ones (elements by id, node order kept): got {list(got.index)[:6]}..., want {list(want.index)[:6]}...', None)
                return False
            wantz = want
            for c in cols:
                if c not in got:
                    ctx.fail(f'{key}:column-missing', f'{what}: column {c} missing after import', None)
                    return False
                if not np.array_equal(got[c].to_numpy(dtype=float), wantz[c].to_numpy(dtype=float)):
                    kind = 'coordinates' if c in 'xyz' else 'values'
                    ctx.fail(f'{key}:{kind}', f'{what}: column {c} differs after the round trip (first rows got {got[c].to_numpy()[:4]}, want {wantz[c].to_numpy()[:4]})', None)
                    return False
    finally:
        imp._file.close()
    return True


def repro(dim, types, n_el, ids, order, with_z, seed):
    return ("import numpy as np, sys\nsys.path.insert(0, '/verif')\nfrom contracts.c20 import *\nimport pylife.vmap as vmap\n"
            f"rng = np.random.default_rng({seed})\nmesh = make_mesh(rng, {dim}, {types}, {n_el}, ids={ids!r}, order={order!r}, with_z={with_z})\nfull = add_fields(rng, mesh)\n"
            "path = scratch_file()\nex = vmap.VMAPExport(path)\nex.add_geometry('g', full)\nex.add_variable('STATE-1', 'g', 'STRESS_CAUCHY', full)\n"
            "imp = vmap.VMAPImport(path)\ngot = imp.make_mesh('g').join_coordinates().join_variable('STRESS_CAUCHY', 'STATE-1').to_frame()\n"
            "want = expected_frame(full)\nprint(got.head(8)); print(want.head(8))\nassert list(got.index) == list(want.index)\nassert (got.S11.to_numpy() == want.S11.to_numpy()).all()\n")


@bounded('C20', 'export-import-round-trip', shards=16)
def b_roundtrip(ctx):
    """contract of VMAPExport.add_geometry / add_variable / add_*_set and VMAPImport: the imported frame equals the exported one with elements ordered by id and each
    element's node order kept; coordinates and variable values bit-identical; node / element variables in several states; sets written by the exporter filter exactly
    their members; reading twice gives the same frame"""
    import itertools
    import warnings
    import numpy as np
    import pylife.vmap as vmap
    from pylife.vmap.vmap_structures import VariableLocations as VL
    warnings.simplefilter('ignore')
    combos = []
    for dim in (2, 3):
        singles = [[t] for t in ELEMENT_NODES[dim]]
        mixed = [ELEMENT_NODES[dim][:2], ELEMENT_NODES[dim][1:3], list(ELEMENT_NODES[dim])]
        for types in singles + mixed:
            for ids in ('contiguous', 'gapped', 'permuted', 'large'):
                for order in ('blocks', 'interleaved'):
                    for with_z in ((True, False) if dim == 2 else (True,)):
                        combos.append((dim, types, ids, order, with_z))
    sizes = [5] if ctx.tier == 'quick' else [1, 5, 12]
    ctx.bound = (f"{len(combos)} configurations (2D tri3/tri6/quad4/quad8 with and without z column, 3D tet4/tet10/wedge6/wedge15/hex8/hex20, single and mixed types; ids contiguous / gapped / "
                 f"permuted / near 2^31; rows element-wise or interleaved) x element counts {sizes}; node variables DISPLACEMENT and a custom one, element-nodal STRESS_CAUCHY and a custom one, two states, "
                 "one node set and one element set")
    ctx.rule = "each configuration is one case; non-trivial = anything but a single element type with ids 1..N in file order"
    ctx.exhaustive = True
    for (dim, types, ids, order, with_z), n_el in itertools.product(combos, sizes):
        if not ctx.mine():
            continue
        seed = 7 + n_el
        rng = np.random.default_rng(seed)
        mesh = make_mesh(rng, dim, types, n_el, ids=ids, order=order, with_z=with_z)
        full = add_fields(rng, mesh)
        cfg = f"{dim}D types {types} ids {ids} rows {order}" + ('' if with_z else ' no z column') + f" ({n_el} elements)"
        tag = ('mixed-types' if len(types) > 1 else 'single-type') + f':ids-{ids}:rows-{order}' + ('' if with_z else ':no-z')
        ctx.case(len(types) > 1 or ids != 'contiguous' or order != 'blocks', key=(dim, tuple(types), ids, order, with_z, n_el))
        path = scratch_file()
        try:
            ex = vmap.VMAPExport(path)
            try:
                ex.add_geometry('g', full)
            except Exception as e:   # noqa
                ctx.fail(f'C20:export-geometry-raises:{dim}D:{tag}', f'add_geometry raises {type(e).__name__}: {str(e)[:160]} for a valid mesh: {cfg}', repro(dim, types, n_el, ids, order, with_z, seed))
                continue
            state_vars = [('STATE-1', 'DISPLACEMENT', ['dx', 'dy', 'dz'], False), ('STATE-1', 'STRESS_CAUCHY', ['S11', 'S22', 'S33', 'S12', 'S13', 'S23'], False),
                          ('STATE-2', 'TEMP', ['T'], True), ('STATE-2', 'HEATFLUX', ['Q1', 'Q2'], True)]
            try:
                ex.add_variable('STATE-1', 'g', 'DISPLACEMENT', full)
                ex.add_variable('STATE-1', 'g', 'STRESS_CAUCHY', full)
                ex.add_variable('STATE-2', 'g', 'TEMP', full, column_names=['T'], location=VL.NODE)
                ex.add_variable('STATE-2', 'g', 'HEATFLUX', full, column_names=['Q1', 'Q2'], location=VL.ELEMENT_NODAL)
            except Exception as e:   # noqa
                ctx.fail(f'C20:export-variable-raises:{dim}D:{tag}', f'add_variable raises {type(e).__name__}: {str(e)[:160]}: {cfg}', repro(dim, types, n_el, ids, order, with_z, seed))
                continue
            nodes = np.unique(full.index.get_level_values('node_id'))
            elems = np.unique(full.index.get_level_values('element_id'))
            nset = rng.choice(nodes, size=max(1, len(nodes) // 3), replace=False)
            eset = rng.choice(elems, size=max(1, len(elems) // 2), replace=False)
            import pandas as pd
            ex.add_node_set('g', pd.Index(nset), full, 'NS')
            ex.add_element_set('g', pd.Index(eset), full, 'ES')
            try:
                ok = roundtrip_compare(ctx, f'C20:round-trip:{dim}D:{tag}', path, 'g', full, state_vars, cfg)
            except Exception as e:   # noqa
                ctx.fail(f'C20:import-raises:{dim}D:{tag}', f'import raises {type(e).__name__}: {str(e)[:160]}: {cfg}', repro(dim, types, n_el, ids, order, with_z, seed))
                continue
            if not ok:
                continue
            imp = vmap.VMAPImport(path)
            try:
                want = expected_frame(full)
                if set(imp.node_sets('g')) != {'NS'} or set(imp.element_sets('g')) != {'ES'}:
                    ctx.fail('C20:sets:names', f'set names read back as {list(imp.node_sets("g"))} / {list(imp.element_sets("g"))}: {cfg}', None)
                got = imp.make_mesh('g').filter_node_set('NS').to_frame()
                w = want[want.index.get_level_values('node_id').isin(nset)]
                if list(got.index) != list(w.index):
                    ctx.fail(f'C20:sets:node-filter:ids-{ids}', f'filter_node_set returns rows other than the members of the stored set: {cfg}', None)
                got = imp.make_mesh('g').filter_element_set('ES').to_frame()
                w = want[want.index.get_level_values('element_id').isin(eset)]
                if list(got.index) != list(w.index):
                    ctx.fail(f'C20:sets:element-filter:ids-{ids}', f'filter_element_set returns rows other than the members of the stored set: {cfg}', None)
            except Exception as e:   # noqa
                ctx.fail(f'C20:sets:raises:{type(e).__name__}', f'set handling raises {type(e).__name__}: {str(e)[:160]}: {cfg}', None)
            finally:
                imp._file.close()
        finally:
            if os.path.exists(path):
                os.remove(path)
    ctx.sample({'config': '3D hex8 + hex20 mixed, permuted ids, interleaved rows', 'variables': ['DISPLACEMENT', 'STRESS_CAUCHY', 'TEMP', 'HEATFLUX']})


@bounded('C20', 'failed-export-leaves-no-partial-object', shards=4)
def b_failures(ctx):
    """histories of add_* calls including failing ones: after a call that raises, the set of geometries and of (state, geometry, variable) objects in the file is what it was before
    the call, the MYSIZE bookkeeping matches the content, and the same name can be exported afterwards with a correct round trip"""
    import warnings
    import numpy as np
    import pandas as pd
    import pylife.vmap as vmap
    from pylife.vmap.vmap_structures import VariableLocations as VL
    warnings.simplefilter('ignore')
    ctx.bound = "histories: {bad geometry (element with unsupported node count / missing coordinate column / non-numeric coordinates / ids not integers), duplicate geometry, ids beyond int32, geometry of the other dimension in between, bad variable (missing column / non-numeric values / bad location / unknown variable without columns / duplicate / unknown geometry)} interleaved with good calls, 2D and 3D meshes, 3 seeds"
    ctx.rule = "each (history, mesh) is one case"
    ctx.exhaustive = True

    def bad_geometries(rng, dim):
        good = add_fields(rng, make_mesh(rng, dim, [ELEMENT_NODES[dim][0]], 4, ids='gapped'))
        out = []
        five = make_mesh(rng, dim, [5], 3, ids='gapped')          # points are written, the element type lookup fails
        out.append(('unsupported-node-count', five))
        out.append(('missing-y', good.drop(columns=['y'])))
        bad = good.copy()
        bad['x'] = 'abc'
        out.append(('non-numeric-coordinate', bad))
        if dim == 3:
            mixed_bad = make_mesh(rng, dim, [4, 7], 4, ids='gapped')   # the second element type does not exist
            out.append(('unsupported-second-type', mixed_bad))
        # identifiers VMAP's 32 bit storage cannot hold: the export must fail (and leave nothing), not store wrapped ids
        for level in ('node_id', 'element_id'):
            big = good.copy()
            idx = big.index.to_frame(index=False)
            idx[level] = idx[level] + 2**31
            big.index = pd.MultiIndex.from_frame(idx)
            out.append((f'{level}-beyond-int32', big))
        return good, out

    cases = [(dim, seed) for dim in (2, 3) for seed in (1, 2, 3)]
    for idx, (dim, seed) in enumerate(cases):
        if idx % ctx.nshards != ctx.shard:
            continue
        rng = np.random.default_rng(seed)
        good, bads = bad_geometries(rng, dim)
        path = scratch_file()
        try:
            ex = vmap.VMAPExport(path)
            ex.add_geometry('first', good)
            ex.add_variable('STATE-1', 'first', 'DISPLACEMENT', good)
            for name, bad in bads:
                ctx.case(True, key=('geometry', dim, seed, name))
                before = snapshot(path)
                try:
                    ex.add_geometry('second', bad)
                    raised = None
                except Exception as e:   # noqa
                    raised = e
                after = snapshot(path)
                if raised is None:
                    ctx.fail(f'C20:failed-geometry:{name}:accepted', f'add_geometry accepted an invalid mesh ({name}, {dim}D)', None)
                    with __import__('h5py').File(path, 'a') as f:
                        del f['/VMAP/GEOMETRY/second']
                    continue
                if after != before:
                    ctx.fail(f'C20:failed-geometry:{name}:partial', f'after add_geometry raised {type(raised).__name__} ({name}, {dim}D) the file content changed: geometries {sorted(after[0])} (before {sorted(before[0])})', None)
                    continue
            # the name is still free; a geometry of the other dimension in between does not disturb (the exporter's dimension is per geometry)
            other = add_fields(rng, make_mesh(rng, 5 - dim, [ELEMENT_NODES[5 - dim][0]], 3, ids='permuted'))
            ctx.case(True, key=('other-dimension', dim, seed))
            try:
                ex.add_geometry('other', other)
                ex.add_geometry('second', good)
            except Exception as e:   # noqa
                ctx.fail(f'C20:history:geometry-after-other-dimension:{dim}D', f'a valid {dim}D geometry is rejected after a {5 - dim}D one was exported: {type(e).__name__}: {str(e)[:120]}', None)
                continue
            with __import__('h5py').File(path, 'r') as f:
                et = {int(t) for t in f['/VMAP/GEOMETRY/second/ELEMENTS/MYELEMENTS']['myElementType'][:, 0]}
            want_et = {vmap.VMAPExport._element_types[(dim, ELEMENT_NODES[dim][0])][0]}
            if et != want_et:
                ctx.fail(f'C20:history:element-type-after-other-dimension:{dim}D', f'{dim}D elements stored with element types {et}, expected {want_et}, after a {5 - dim}D geometry', None)
            bad_vars = [
                ('missing-column', dict(variable_name='STRESS_CAUCHY', mesh=good.drop(columns=['S12']))),
                ('non-numeric-values', dict(variable_name='STRESS_CAUCHY', mesh=good.assign(S11='abc'))),
                ('bad-location', dict(variable_name='XX', mesh=good, column_names=['T'], location=2)),
                ('unknown-variable-no-columns', dict(variable_name='XX', mesh=good)),
                ('unknown-variable-no-location', dict(variable_name='XX', mesh=good, column_names=['T'])),
                ('missing-custom-column', dict(variable_name='XX', mesh=good, column_names=['nope'], location=VL.NODE)),
            ]
            for state in ('STATE-1', 'STATE-9'):
                for name, kw in bad_vars:
                    ctx.case(True, key=('variable', dim, seed, name, state))
                    before = snapshot(path)
                    try:
                        ex.add_variable(state, 'second', **kw)
                        raised = None
                    except Exception as e:   # noqa
                        raised = e
                    after = snapshot(path)
                    if raised is None:
                        ctx.fail(f'C20:failed-variable:{name}:accepted', f'add_variable accepted an invalid request ({name}, {dim}D)', None)
                        continue
                    if after[1] != before[1] or after[0] != before[0] or not after[2]:
                        ctx.fail(f'C20:failed-variable:{name}:partial', f'after add_variable raised {type(raised).__name__} ({name}, {dim}D, state {state}) the file holds {sorted(set(after[1]) - set(before[1]))} in addition / MYSIZE consistent: {after[2]}', None)
            ctx.case(True, key=('duplicates', dim, seed))
            before = snapshot(path)
            for call in (lambda: ex.add_geometry('first', good), lambda: ex.add_variable('STATE-1', 'first', 'DISPLACEMENT', good), lambda: ex.add_variable('STATE-1', 'nowhere', 'DISPLACEMENT', good)):
                try:
                    call()
                    ctx.fail('C20:duplicate:accepted', 'a duplicate geometry / variable or an unknown geometry was accepted', None)
                except Exception:   # noqa
                    pass
            if snapshot(path)[:2] != before[:2]:
                ctx.fail('C20:duplicate:changed', 'a rejected duplicate changed the file', None)
            # good calls after the failures: complete round trip of both geometries
            try:
                ex.add_variable('STATE-1', 'second', 'STRESS_CAUCHY', good)
                ex.add_variable('STATE-9', 'second', 'XX', good, column_names=['T'], location=VL.NODE)
            except Exception as e:   # noqa
                ctx.fail(f'C20:history:valid-variable-rejected-after-failed-calls:{dim}D', f'a valid add_variable is rejected after failed calls: {type(e).__name__}: {str(e)[:120]}', None)
                continue
            try:
                roundtrip_compare(ctx, f'C20:round-trip-after-failures:{dim}D', path, 'second', good, [('STATE-1', 'STRESS_CAUCHY', ['S11', 'S22', 'S33', 'S12', 'S13', 'S23'], False), ('STATE-9', 'XX', ['T'], True)], f'{dim}D after failed calls')
                roundtrip_compare(ctx, f'C20:round-trip-after-failures:{dim}D', path, 'first', good, [('STATE-1', 'DISPLACEMENT', ['dx', 'dy', 'dz'], False)], f'{dim}D after failed calls')
            except Exception as e:   # noqa
                ctx.fail(f'C20:round-trip-after-failures:raises:{type(e).__name__}', f'import after failed calls raises {type(e).__name__}: {str(e)[:160]}', None)
        finally:
            if os.path.exists(path):
                os.remove(path)
    ctx.sample({'history': ['add_geometry(first)', 'add_geometry(second, 5-node elements) -> raises', 'add_geometry(second) ok', 'add_variable(missing column) -> raises', '...']})


META = {
    'level': 'exploration',
    'explanation': "bounded stand-in (labelled): the round trip runs through h5py, pandas group-by / merge and HDF5 variable-length types, none of which the verification-condition "
                   "generator models; the export / import contract is evaluated on the real classes for generated meshes and call histories.",
    'not_decided': ["meshes and histories beyond the generated ones"],
    'trusted_base': ['h5py / HDF5 as storage'],
}
