"""C20 - VMAP export followed by import returns the same mesh and fields."""
import os
import tempfile

from pv.bounded import bounded

ELEMENT_NODES = {2: [3, 6, 4, 8], 3: [4, 10, 6, 15, 8, 20]}


def scratch_file():
    d = os.environ.get('PV_SCRATCH') or tempfile.gettempdir()
    fd, name = tempfile.mkstemp(suffix='.vmap', prefix='pv-c20-', dir=d)
    os.close(fd)
    return name


def make_mesh(rng, dim, types, n_el, ids='contiguous', order='blocks', with_z=True):
    """mesh frame with index (element_id, node_id): n_el elements whose node counts cycle through `types`; nodes shared between elements"""
    import numpy as np
    import pandas as pd
    counts = [types[i % len(types)] for i in range(n_el)]
    n_nodes = max(max(counts) + 2, int(sum(counts) * 0.6))
    if ids == 'contiguous':
        nid = np.arange(1, n_nodes + 1)
        eid = np.arange(1, n_el + 1)
    elif ids == 'gapped':
        nid = 10 + 7 * np.arange(n_nodes)
        eid = 3 + 5 * np.arange(n_el)
    elif ids == 'permuted':
        nid = rng.permutation(100 + 3 * np.arange(n_nodes))
        eid = rng.permutation(1000 + 11 * np.arange(n_el))
    elif ids == 'large':
        nid = 2**31 - 1 - rng.permutation(np.arange(n_nodes)) * 1001
        eid = 2**31 - 1 - rng.permutation(np.arange(n_el)) * 17
    else:
        raise ValueError(ids)
    xyz = rng.normal(size=(n_nodes, 3)) * 10
    if dim == 2:
        xyz[:, 2] = 0.0
    rows = []
    for e, cnt in zip(eid, counts):
        for n in rng.choice(n_nodes, size=cnt, replace=False):
            rows.append((int(e), int(nid[n]), *xyz[n]))
    if order == 'interleaved':
        # random merge of the elements' row lists: rows of an element keep their relative order (the connectivity) but are not contiguous
        per = {}
        for r in rows:
            per.setdefault(r[0], []).append(r)
        queues = [list(v) for v in per.values()]
        rows = []
        while queues:
            q = queues[rng.integers(len(queues))]
            rows.append(q.pop(0))
            queues = [q for q in queues if q]
    df = pd.DataFrame(rows, columns=['element_id', 'node_id', 'x', 'y', 'z']).set_index(['element_id', 'node_id'])
    if dim == 2 and not with_z:
        df = df[['x', 'y']]
    return df


def add_fields(rng, mesh):
    import numpy as np
    df = mesh.copy()
    nodes = df.index.get_level_values('node_id').to_numpy()
    uniq = {n: rng.normal(size=4) for n in np.unique(nodes)}
    for k, c in enumerate(['dx', 'dy', 'dz', 'T']):
        df[c] = [uniq[n][k] for n in nodes]
    for c in ['S11', 'S22', 'S33', 'S12', 'S13', 'S23', 'Q1', 'Q2']:
        df[c] = rng.normal(size=len(df)) * 100
    return df


def expected_frame(df):
    """elements ordered by id, every element's rows in their original relative order"""
    import numpy as np
    e = df.index.get_level_values('element_id').to_numpy()
    return df.iloc[np.argsort(e, kind='stable')]


def snapshot(path):
    """names of the geometries and of the (state, geometry, variable) triples in the file, plus the MYSIZE bookkeeping of the variable groups"""
    import h5py
    with h5py.File(path, 'r') as f:
        geos = {g: sorted(f['/VMAP/GEOMETRY'][g].keys()) for g in f['/VMAP/GEOMETRY'].keys()}
        variables = {}
        sizes_ok = True
        for s, sg in f['/VMAP/VARIABLES'].items():
            for g, gg in sg.items():
                for v in gg.keys():
                    variables[(s, g, v)] = sorted(gg[v].keys())
                if int(gg.attrs['MYSIZE']) != len(gg.keys()):
                    sizes_ok = False
    return geos, variables, sizes_ok


def roundtrip_compare(ctx, key, path, geometry, full, state_vars, what):
    """import everything back and compare with `full` (the exported frame incl. variable columns)"""
    import numpy as np
    import pylife.vmap as vmap
    want = expected_frame(full)
    imp = vmap.VMAPImport(path)
    try:
        for attempt in range(2):     # reading is repeatable
            m = imp.make_mesh(geometry).join_coordinates()
            cols = ['x', 'y'] + (['z'] if 'z' in full else [])      # a 2D mesh exported without z comes back without z
            for state, var, colnames, explicit in state_vars:
                m = m.join_variable(var, state, column_names=colnames if explicit else None)
                cols += list(colnames)
            got = m.to_frame()
            if list(got.index) != list(want.index):
                ctx.fail(f'{key}:rows', f'{what}: imported element/node rows differ from the exported ones (elements by id, node order kept): got {list(got.index)[:6]}..., want {list(want.index)[:6]}...', None)
                return False
            wantz = want
            for c in cols:
                if c not in got:
                    ctx.fail(f'{key}:column-missing', f'{what}: column {c} missing after import', None)
                    return False
                if not np.array_equal(got[c].to_numpy(dtype=float), wantz[c].to_numpy(dtype=float)):
                    kind = 'coordinates' if c in 'xyz' else 'values'
                    ctx.fail(f'{key}:{kind}', f'{what}: column {c} differs after the round trip (first rows got {got[c].to_numpy()[:4]}, want {wantz[c].to_numpy()[:4]})', None)
                    return False
    finally:
        imp._file.close()
    return True


def repro(dim, types, n_el, ids, order, with_z, seed):
    return ("import numpy as np, sys\nsys.path.insert(0, '/verif')\nfrom contracts.c20 import *\nimport pylife.vmap as vmap\n"
            f"rng = np.random.default_rng({seed})\nmesh = make_mesh(rng, {dim}, {types}, {n_el}, ids={ids!r}, order={order!r}, with_z={with_z})\nfull = add_fields(rng, mesh)\n"
            "path = scratch_file()\nex = vmap.VMAPExport(path)\nex.add_geometry('g', full)\nex.add_variable('STATE-1', 'g', 'STRESS_CAUCHY', full)\n"
            "imp = vmap.VMAPImport(path)\ngot = imp.make_mesh('g').join_coordinates().join_variable('STRESS_CAUCHY', 'STATE-1').to_frame()\n"
            "want = expected_frame(full)\nprint(got.head(8)); print(want.head(8))\nassert list(got.index) == list(want.index)\nassert (got.S11.to_numpy() == want.S11.to_numpy()).all()\n")


@bounded('C20', 'export-import-round-trip', shards=16)
def b_roundtrip(ctx):
    """contract of VMAPExport.add_geometry / add_variable / add_*_set and VMAPImport: the imported frame equals the exported one with elements ordered by id and each
    element's node order kept; coordinates and variable values bit-identical; node / element variables in several states; sets written by the exporter filter exactly
    their members; reading twice gives the same frame"""
    import itertools
    import warnings
    import numpy as np
    import pylife.vmap as vmap
    from pylife.vmap.vmap_structures import VariableLocations as VL
    warnings.simplefilter('ignore')
    combos = []
    for dim in (2, 3):
        singles = [[t] for t in ELEMENT_NODES[dim]]
        mixed = [ELEMENT_NODES[dim][:2], ELEMENT_NODES[dim][1:3], list(ELEMENT_NODES[dim])]
        for types in singles + mixed:
            for ids in ('contiguous', 'gapped', 'permuted', 'large'):
                for order in ('blocks', 'interleaved'):
                    for with_z in ((True, False) if dim == 2 else (True,)):
                        combos.append((dim, types, ids, order, with_z, 'plain'))
            # the unit and origin of the coordinates are the user's: a micro part in metres (coordinates of the order 1e-9) and a thin layer far from the origin
            # (z extent 2e-3 at z = 250) are three-dimensional meshes like any other (added after seed C20-e decided "all z equal" with np.allclose)
            if dim == 3:
                for coords in ('micro', 'thin-layer'):
                    combos.append((dim, types, 'contiguous', 'blocks', True, coords))
    sizes = [5] if ctx.tier == 'quick' else [1, 5, 12]
    ctx.bound = (f"{len(combos)} configurations (2D tri3/tri6/quad4/quad8 with and without z column, 3D tet4/tet10/wedge6/wedge15/hex8/hex20, single and mixed types; ids contiguous / gapped / "
                 f"permuted / near 2^31; rows element-wise or interleaved) x element counts {sizes}; node variables DISPLACEMENT and a custom one, element-nodal STRESS_CAUCHY and a custom one, two states, "
                 "one node set and one element set")
    ctx.rule = "each configuration is one case; non-trivial = anything but a single element type with ids 1..N in file order"
    ctx.exhaustive = True
    for (dim, types, ids, order, with_z, coords), n_el in itertools.product(combos, sizes):
        if not ctx.mine():
            continue
        seed = 7 + n_el
        rng = np.random.default_rng(seed)
        mesh = make_mesh(rng, dim, types, n_el, ids=ids, order=order, with_z=with_z)
        if coords == 'micro':
            mesh[['x', 'y', 'z']] = mesh[['x', 'y', 'z']] * 2e-10
        elif coords == 'thin-layer':
            mesh['z'] = mesh['z'] * 1e-4 + 250.0
        full = add_fields(rng, mesh)
        cfg = f"{dim}D types {types} ids {ids} rows {order}" + ('' if with_z else ' no z column') + f" ({n_el} elements)"
        tag = ('mixed-types' if len(types) > 1 else 'single-type') + f':ids-{ids}:rows-{order}' + ('' if with_z else ':no-z') + ('' if coords == 'plain' else f':coordinates-{coords}')
        ctx.case(len(types) > 1 or ids != 'contiguous' or order != 'blocks' or coords != 'plain', key=(dim, tuple(types), ids, order, with_z, n_el, coords))
        path = scratch_file()
        try:
            ex = vmap.VMAPExport(path)
            try:
                ex.add_geometry('g', full)
            except Exception as e:   # noqa
                ctx.fail(f'C20:export-geometry-raises:{dim}D:{tag}', f'add_geometry raises {type(e).__name__}: {str(e)[:160]} for a valid mesh: {cfg}', repro(dim, types, n_el, ids, order, with_z, seed))
                continue
            with __import__('h5py').File(path, 'r') as f_:
                tnames = {int(r_['myIdentifier'][0]): (r_['myTypeName'][0].decode() if isinstance(r_['myTypeName'][0], bytes) else str(r_['myTypeName'][0])) for r_ in f_['/VMAP/SYSTEM/ELEMENTTYPES'][()]}
                used = {tnames.get(int(t_), '?') for t_ in f_['/VMAP/GEOMETRY/g/ELEMENTS/MYELEMENTS']['myElementType'][:, 0]}
            if not all(f'{dim}D' in t_ for t_ in used):
                ctx.fail(f'C20:element-type-dimension:{dim}D:{tag}', f'a {dim}D mesh is stored with the element types {sorted(used)}: {cfg}', repro(dim, types, n_el, ids, order, with_z, seed))
            state_vars = [('STATE-1', 'DISPLACEMENT', ['dx', 'dy', 'dz'], False), ('STATE-1', 'STRESS_CAUCHY', ['S11', 'S22', 'S33', 'S12', 'S13', 'S23'], False),
                          ('STATE-2', 'TEMP', ['T'], True), ('STATE-2', 'HEATFLUX', ['Q1', 'Q2'], True)]
            try:
                ex.add_variable('STATE-1', 'g', 'DISPLACEMENT', full)
                ex.add_variable('STATE-1', 'g', 'STRESS_CAUCHY', full)
                ex.add_variable('STATE-2', 'g', 'TEMP', full, column_names=['T'], location=VL.NODE)
                ex.add_variable('STATE-2', 'g', 'HEATFLUX', full, column_names=['Q1', 'Q2'], location=VL.ELEMENT_NODAL)
            except Exception as e:   # noqa
                ctx.fail(f'C20:export-variable-raises:{dim}D:{tag}', f'add_variable raises {type(e).__name__}: {str(e)[:160]}: {cfg}', repro(dim, types, n_el, ids, order, with_z, seed))
                continue
            nodes = np.unique(full.index.get_level_values('node_id'))
            elems = np.unique(full.index.get_level_values('element_id'))
            nset = rng.choice(nodes, size=max(1, len(nodes) // 3), replace=False)
            eset = rng.choice(elems, size=max(1, len(elems) // 2), replace=False)
            import pandas as pd
            ex.add_node_set('g', pd.Index(nset), full, 'NS')
            ex.add_element_set('g', pd.Index(eset), full, 'ES')
            try:
                ok = roundtrip_compare(ctx, f'C20:round-trip:{dim}D:{tag}', path, 'g', full, state_vars, cfg)
            except Exception as e:   # noqa
                ctx.fail(f'C20:import-raises:{dim}D:{tag}', f'import raises {type(e).__name__}: {str(e)[:160]}: {cfg}', repro(dim, types, n_el, ids, order, with_z, seed))
                continue
            if not ok:
                continue
            imp = vmap.VMAPImport(path)
            try:
                want = expected_frame(full)
                if set(imp.node_sets('g')) != {'NS'} or set(imp.element_sets('g')) != {'ES'}:
                    ctx.fail('C20:sets:names', f'set names read back as {list(imp.node_sets("g"))} / {list(imp.element_sets("g"))}: {cfg}', None)
                got = imp.make_mesh('g').filter_node_set('NS').to_frame()
                w = want[want.index.get_level_values('node_id').isin(nset)]
                if list(got.index) != list(w.index):
                    ctx.fail(f'C20:sets:node-filter:ids-{ids}', f'filter_node_set returns rows other than the members of the stored set: {cfg}', None)
                got = imp.make_mesh('g').filter_element_set('ES').to_frame()
                w = want[want.index.get_level_values('element_id').isin(eset)]
                if list(got.index) != list(w.index):
                    ctx.fail(f'C20:sets:element-filter:ids-{ids}', f'filter_element_set returns rows other than the members of the stored set: {cfg}', None)
            except Exception as e:   # noqa
                ctx.fail(f'C20:sets:raises:{type(e).__name__}', f'set handling raises {type(e).__name__}: {str(e)[:160]}: {cfg}', None)
            finally:
                imp._file.close()
        finally:
            if os.path.exists(path):
                os.remove(path)
    ctx.sample({'config': '3D hex8 + hex20 mixed, permuted ids, interleaved rows', 'variables': ['DISPLACEMENT', 'STRESS_CAUCHY', 'TEMP', 'HEATFLUX']})


@bounded('C20', 'one-importer-several-geometries', shards=4)
def b_several(ctx):
    """a file with several geometries (different element types, ids, sizes) and variables in several states, read through ONE importer object in every order and
    repeatedly: every read returns that geometry's own rows, coordinates and values - what the importer read before does not matter ("reading is repeatable");
    added after seed C20-d cached the mesh index on the importer without keying it by geometry"""
    import itertools
    import warnings
    import numpy as np
    import pylife.vmap as vmap
    warnings.simplefilter('ignore')
    cases = [(2, [[3], [4]], ('contiguous', 'gapped')), (2, [[4, 3], [8]], ('permuted', 'contiguous')), (3, [[4], [8]], ('contiguous', 'permuted')), (3, [[8, 6], [10], [4]], ('gapped', 'contiguous', 'large'))]
    ctx.bound = "4 files with 2-3 geometries each (2D and 3D, single and mixed element types, different id schemes and sizes), node variable DISPLACEMENT and element-nodal STRESS_CAUCHY per geometry; every order of reading the geometries through one importer, each geometry read twice"
    ctx.rule = "every (file, reading order) is one case"
    for ci, (dim, typesets, idschemes) in enumerate(cases):
        if not ctx.mine():
            continue
        rng = np.random.default_rng(40 + ci)
        meshes = {}
        path = scratch_file()
        try:
            ex = vmap.VMAPExport(path)
            for gi, (types, ids) in enumerate(zip(typesets, idschemes)):
                nodes_ok = [t for t in types if t in ELEMENT_NODES[dim]]
                full = add_fields(rng, make_mesh(rng, dim, nodes_ok or [ELEMENT_NODES[dim][0]], 3 + 2 * gi, ids=ids))
                name = f'geo{gi}'
                ex.add_geometry(name, full)
                ex.add_variable('STATE-1', name, 'DISPLACEMENT', full)
                ex.add_variable('STATE-1', name, 'STRESS_CAUCHY', full)
                meshes[name] = expected_frame(full)
            for order in itertools.permutations(sorted(meshes)):
                imp = vmap.VMAPImport(path)
                ctx.case(True, key=(ci, order))
                try:
                    for name in list(order) + list(order):
                        want = meshes[name]
                        try:
                            got = imp.make_mesh(name, 'STATE-1').join_coordinates().join_variable('DISPLACEMENT').join_variable('STRESS_CAUCHY').to_frame()
                        except Exception as e:   # noqa
                            ctx.fail(f'C20:several-geometries:raises:{type(e).__name__}', f'reading geometry {name} after {order} through one importer raises {type(e).__name__}: {str(e)[:150]}', {'case': ci, 'order': order})
                            break
                        cols = ['x', 'y'] + (['z'] if 'z' in want else []) + ['dx', 'dy', 'dz', 'S11', 'S22', 'S33', 'S12', 'S13', 'S23']
                        if list(got.index) != list(want.index):
                            ctx.fail('C20:several-geometries:rows', f'geometry {name} read through an importer that has read other geometries (order {order}) returns rows {list(got.index)[:4]}..., written {list(want.index)[:4]}...', {'case': ci, 'order': order})
                            break
                        bad = [c for c in cols if c in want and not np.array_equal(got[c].to_numpy(dtype=float), want[c].to_numpy(dtype=float))]
                        if bad:
                            ctx.fail('C20:several-geometries:values', f'geometry {name} read through an importer that has read other geometries (order {order}): columns {bad} differ', {'case': ci, 'order': order})
                            break
                finally:
                    imp._file.close()
        finally:
            if os.path.exists(path):
                os.remove(path)
    ctx.sample({'file': '3D: hex8+wedge6 (gapped ids), tet10 (contiguous), tet4 (ids near 2^31)', 'orders': 'all 6'})


@bounded('C20', 'failed-export-leaves-no-partial-object', shards=4)
def b_failures(ctx):
    """histories of add_* calls including failing ones: after a call that raises, the set of geometries and of (state, geometry, variable) objects in the file is what it was before
    the call, the MYSIZE bookkeeping matches the content, and the same name can be exported afterwards with a correct round trip"""
    import warnings
    import numpy as np
    import pandas as pd
    import pylife.vmap as vmap
    from pylife.vmap.vmap_structures import VariableLocations as VL
    warnings.simplefilter('ignore')
    ctx.bound = "histories: {bad geometry (element with unsupported node count / missing coordinate column / non-numeric coordinates / ids not integers), duplicate geometry, ids beyond int32, geometry of the other dimension in between, bad variable (missing column / non-numeric values / bad location / unknown variable without columns / duplicate / unknown geometry)} interleaved with good calls, 2D and 3D meshes, 3 seeds"
    ctx.rule = "each (history, mesh) is one case"
    ctx.exhaustive = True

    def bad_geometries(rng, dim):
        good = add_fields(rng, make_mesh(rng, dim, [ELEMENT_NODES[dim][0]], 4, ids='gapped'))
        out = []
        five = make_mesh(rng, dim, [5], 3, ids='gapped')          # points are written, the element type lookup fails
        out.append(('unsupported-node-count', five))
        out.append(('missing-y', good.drop(columns=['y'])))
        bad = good.copy()
        bad['x'] = 'abc'
        out.append(('non-numeric-coordinate', bad))
        if dim == 3:
            mixed_bad = make_mesh(rng, dim, [4, 7], 4, ids='gapped')   # the second element type does not exist
            out.append(('unsupported-second-type', mixed_bad))
        # identifiers VMAP's 32 bit storage cannot hold: the export must fail (and leave nothing), not store wrapped ids
        for level in ('node_id', 'element_id'):
            big = good.copy()
            idx = big.index.to_frame(index=False)
            idx[level] = idx[level] + 2**31
            big.index = pd.MultiIndex.from_frame(idx)
            out.append((f'{level}-beyond-int32', big))
            # the exact limits: the largest id equal to 2^31, the smallest equal to -2^31 - 1 (added after seed C20-c, which accepted 2^31)
            for tag, pick, value in (('equals-2^31', 'max', 2**31), ('equals-minus-2^31-minus-1', 'min', -2**31 - 1)):
                edge = good.copy()
                idx = edge.index.to_frame(index=False)
                target = idx[level].max() if pick == 'max' else idx[level].min()
                idx.loc[idx[level] == target, level] = value
                edge.index = pd.MultiIndex.from_frame(idx)
                out.append((f'{level}-{tag}', edge))
        return good, out

    cases = [(dim, seed) for dim in (2, 3) for seed in (1, 2, 3)]
    for idx, (dim, seed) in enumerate(cases):
        if idx % ctx.nshards != ctx.shard:
            continue
        rng = np.random.default_rng(seed)
        good, bads = bad_geometries(rng, dim)
        path = scratch_file()
        try:
            ex = vmap.VMAPExport(path)
            ex.add_geometry('first', good)
            ex.add_variable('STATE-1', 'first', 'DISPLACEMENT', good)
            for name, bad in bads:
                ctx.case(True, key=('geometry', dim, seed, name))
                before = snapshot(path)
                try:
                    ex.add_geometry('second', bad)
                    raised = None
                except Exception as e:   # noqa
                    raised = e
                after = snapshot(path)
                if raised is None:
                    ctx.fail(f'C20:failed-geometry:{name}:accepted', f'add_geometry accepted an invalid mesh ({name}, {dim}D)', None)
                    with __import__('h5py').File(path, 'a') as f:
                        del f['/VMAP/GEOMETRY/second']
                    continue
                if after != before:
                    ctx.fail(f'C20:failed-geometry:{name}:partial', f'after add_geometry raised {type(raised).__name__} ({name}, {dim}D) the file content changed: geometries {sorted(after[0])} (before {sorted(before[0])})', None)
                    continue
            # the name is still free; a geometry of the other dimension in between does not disturb (the exporter's dimension is per geometry)
            other = add_fields(rng, make_mesh(rng, 5 - dim, [ELEMENT_NODES[5 - dim][0]], 3, ids='permuted'))
            ctx.case(True, key=('other-dimension', dim, seed))
            try:
                ex.add_geometry('other', other)
                ex.add_geometry('second', good)
            except Exception as e:   # noqa
                ctx.fail(f'C20:history:geometry-after-other-dimension:{dim}D', f'a valid {dim}D geometry is rejected after a {5 - dim}D one was exported: {type(e).__name__}: {str(e)[:120]}', None)
                continue
            with __import__('h5py').File(path, 'r') as f:
                et = {int(t) for t in f['/VMAP/GEOMETRY/second/ELEMENTS/MYELEMENTS']['myElementType'][:, 0]}
            want_et = {vmap.VMAPExport._element_types[(dim, ELEMENT_NODES[dim][0])][0]}
            if et != want_et:
                ctx.fail(f'C20:history:element-type-after-other-dimension:{dim}D', f'{dim}D elements stored with element types {et}, expected {want_et}, after a {5 - dim}D geometry', None)
            bad_vars = [
                ('missing-column', dict(variable_name='STRESS_CAUCHY', mesh=good.drop(columns=['S12']))),
                ('non-numeric-values', dict(variable_name='STRESS_CAUCHY', mesh=good.assign(S11='abc'))),
                ('bad-location', dict(variable_name='XX', mesh=good, column_names=['T'], location=2)),
                ('unknown-variable-no-columns', dict(variable_name='XX', mesh=good)),
                ('unknown-variable-no-location', dict(variable_name='XX', mesh=good, column_names=['T'])),
                ('missing-custom-column', dict(variable_name='XX', mesh=good, column_names=['nope'], location=VL.NODE)),
            ]
            for state in ('STATE-1', 'STATE-9'):
                for name, kw in bad_vars:
                    ctx.case(True, key=('variable', dim, seed, name, state))
                    before = snapshot(path)
                    try:
                        ex.add_variable(state, 'second', **kw)
                        raised = None
                    except Exception as e:   # noqa
                        raised = e
                    after = snapshot(path)
                    if raised is None:
                        ctx.fail(f'C20:failed-variable:{name}:accepted', f'add_variable accepted an invalid request ({name}, {dim}D)', None)
                        continue
                    if after[1] != before[1] or after[0] != before[0] or not after[2]:
                        ctx.fail(f'C20:failed-variable:{name}:partial', f'after add_variable raised {type(raised).__name__} ({name}, {dim}D, state {state}) the file holds {sorted(set(after[1]) - set(before[1]))} in addition / MYSIZE consistent: {after[2]}', None)
            ctx.case(True, key=('duplicates', dim, seed))
            before = snapshot(path)
            for call in (lambda: ex.add_geometry('first', good), lambda: ex.add_variable('STATE-1', 'first', 'DISPLACEMENT', good), lambda: ex.add_variable('STATE-1', 'nowhere', 'DISPLACEMENT', good)):
                try:
                    call()
                    ctx.fail('C20:duplicate:accepted', 'a duplicate geometry / variable or an unknown geometry was accepted', None)
                except Exception:   # noqa
                    pass
            if snapshot(path)[:2] != before[:2]:
                ctx.fail('C20:duplicate:changed', 'a rejected duplicate changed the file', None)
            # good calls after the failures: complete round trip of both geometries
            try:
                ex.add_variable('STATE-1', 'second', 'STRESS_CAUCHY', good)
                ex.add_variable('STATE-9', 'second', 'XX', good, column_names=['T'], location=VL.NODE)
            except Exception as e:   # noqa
                ctx.fail(f'C20:history:valid-variable-rejected-after-failed-calls:{dim}D', f'a valid add_variable is rejected after failed calls: {type(e).__name__}: {str(e)[:120]}', None)
                continue
            try:
                roundtrip_compare(ctx, f'C20:round-trip-after-failures:{dim}D', path, 'second', good, [('STATE-1', 'STRESS_CAUCHY', ['S11', 'S22', 'S33', 'S12', 'S13', 'S23'], False), ('STATE-9', 'XX', ['T'], True)], f'{dim}D after failed calls')
                roundtrip_compare(ctx, f'C20:round-trip-after-failures:{dim}D', path, 'first', good, [('STATE-1', 'DISPLACEMENT', ['dx', 'dy', 'dz'], False)], f'{dim}D after failed calls')
            except Exception as e:   # noqa
                ctx.fail(f'C20:round-trip-after-failures:raises:{type(e).__name__}', f'import after failed calls raises {type(e).__name__}: {str(e)[:160]}', None)
        finally:
            if os.path.exists(path):
                os.remove(path)
    ctx.sample({'history': ['add_geometry(first)', 'add_geometry(second, 5-node elements) -> raises', 'add_geometry(second) ok', 'add_variable(missing column) -> raises', '...']})


META = {
    'level': 'other',
    'explanation': "mixed. Proved, for every crash point: the roll-back of VMAPExport.add_geometry and add_variable. The real methods (and the helpers they call) are executed "
                   "symbolically over an abstract HDF5 file and arbitrary mesh / numpy / pandas objects whose every operation may fail (pv/ghost.py); on every raising path the "
                   "geometry / variable group is absent or the untouched old one, the MYSIZE counter is unchanged and nothing outside the call's own subtree is written; on returning "
                   "paths the object is new and complete. Replayed by fault injection into the real h5py. The round trip itself runs through h5py, pandas group-by / merge and "
                   "HDF5 variable-length types, which the generator does not model: it is a bounded stand-in on generated meshes and call histories.",
    'not_decided': ["round trip of meshes and histories beyond the generated ones", "add_node_set / add_element_set roll-back (marked unreachable in the code)"],
    'trusted_base': ['abstract HDF5 file model (pv/ghost.py)', 'h5py / HDF5 as storage', 'exceptions are of class Exception'],
}


# ---------------------------------------------------------------------------------------------
# P: roll-back of failed exports, for every crash point, over an abstract HDF5 file (pv/ghost.py)
# ---------------------------------------------------------------------------------------------
import z3                                     # noqa: E402
from pv.api import obligation                 # noqa: E402
from pv.sym import SV                         # noqa: E402

EX = 'pylife/vmap/vmap_export.py::VMAPExport'
LAYOUT = {'VMAP': {'GEOMETRY': {}, 'VARIABLES': {}, 'SYSTEM': {}, 'MATERIAL': {}}}


def ghost_run(o, method, make_args, layout=LAYOUT):
    """all paths of VMAPExport.<method>(...) over a fresh abstract file and arbitrary (Havoc) mesh / numpy / pandas objects"""
    from pv.ghost import World, GhostFile, HavocNS, H5NS, Havoc
    from pv.interp import PyRaise, Obj

    def thunk():
        world = World(o.I)
        gf = GhostFile(world, layout)
        o.I.libs.update({'numpy': HavocNS(world, 'np'), 'pandas': HavocNS(world, 'pd'), 'h5py': H5NS(world, gf),
                         'os': HavocNS(world, 'os'), 'datetime': HavocNS(world, 'datetime'), 'getpass': HavocNS(world, 'getpass')})
        ex = Obj(o.cls(EX))
        ex.fields['_file_name'] = 'file.vmap'
        ex.fields['_dimension'] = 2
        args, kwargs = make_args(world, Havoc)
        try:
            r = o.I.call(o.method(ex, method), args, kwargs)
            outcome = ('return', r is ex)
        except PyRaise as e:
            outcome = ('raise', e.exc_type)
        return outcome, gf, world
    ps = o.paths(thunk, max_paths=20000)
    return [p for p in ps if p.kind == 'return']


def _b(x):
    return z3.BoolVal(x) if isinstance(x, bool) else x


def _all(paths_goals):
    return z3.And(*[z3.Implies(z3.And(*[_b(c) for c in pc]) if pc else z3.BoolVal(True), _b(g)) for pc, g in paths_goals]) if paths_goals else z3.BoolVal(True)


@obligation('C20', 'add_geometry.rollback', functions=[EX + '.add_geometry', EX + '._create_geometry_groups', EX + '._create_points_datasets', EX + '._create_elements_dataset',
                                                        EX + '._fail_if_ids_exceed_int32', EX + '._create_group_with_attributes'])
def add_geometry_rollback(o):
    """VMAPExport.add_geometry over an abstract HDF5 file, an arbitrary mesh object and arbitrary numpy / pandas: on EVERY path that raises - whichever library call fails,
    at whichever point - the geometry group's presence is what it was before the call (absent if it was absent, the untouched old group if it existed), and nothing
    outside /VMAP/GEOMETRY/<name> is written; on every returning path the group is new and complete"""
    G = '/VMAP/GEOMETRY/G'
    ps = ghost_run(o, 'add_geometry', lambda world, Havoc: (['G', Havoc(world, 'mesh')], {}))
    raises = [p for p in ps if p.result[0][0] == 'raise']
    returns = [p for p in ps if p.result[0][0] == 'return']
    unchanged, untouched, frame, complete, fresh_only = [], [], [], [], []
    for p in ps:
        (kind, info), gf, world = p.result
        p0 = gf.initial.get(G)
        e = gf.lookup(G)
        outside = [l for l in gf.log if not (l[1] == G or l[1].startswith(G + '/'))]
        frame.append((p.pc, len(outside) == 0))
        if kind == 'raise':
            if p0 is None:
                unchanged.append((p.pc, e is None))        # the file was not even looked at
            else:
                unchanged.append((p.pc, _b(e.present) == p0))
                # if it is (still) there it is the old object, and no logged write touches it
                old_ok = (e.node is None) or (e.node.origin == 'old' and not [l for l in gf.log if l[1].startswith(G) and l[0] != 'delete' and l[3] == 'old'])
                untouched.append((p.pc, old_ok))
        else:
            node = e.node if e is not None else None
            ok = bool(node is not None and e.present is True and node.origin == 'new' and info
                      and all(k in node.children and node.children[k].present is True for k in ('POINTS', 'ELEMENTS', 'GEOMETRYSETS'))
                      and all(c.present is True and not c.node.partial for grp in ('POINTS', 'ELEMENTS') for c in node.children[grp].node.children.values()))
            complete.append((p.pc, ok))
            fresh_only.append((p.pc, z3.Not(p0) if p0 is not None else False))
    o.prove('the exploration has raising and returning paths', z3.BoolVal(len(raises) >= 10 and len(returns) >= 1))
    o.prove('every raising path: presence of the geometry group unchanged', _all(unchanged), replay=rollback_replay('geometry'))
    o.prove('every raising path: a pre-existing geometry group is the old, unmodified one', _all(untouched), replay=rollback_replay('geometry'))
    o.prove('every path: nothing outside /VMAP/GEOMETRY/<name> is written', _all(frame))
    o.prove('every returning path: the geometry group is new and complete (POINTS, ELEMENTS, GEOMETRYSETS; no partial dataset) and self is returned', _all(complete))
    o.prove('every returning path: the name was free before', _all(fresh_only))
    o.note(f"{len(ps)} paths explored: {len(raises)} raising (one per crash point and exception kind), {len(returns)} returning")
    o.trusted("abstract HDF5 file (pv/ghost.py): h5py item access / create_group / create_dataset / del / attrs behave as modelled; del removes the whole subtree atomically")
    o.trusted("exceptions are of class Exception (KeyboardInterrupt / SystemExit inside the export are not rolled back)")


# ---------------------------------------------------------------------------------------------
# fault injection on the real h5py (replay of the roll-back obligations, and a bounded check of its own)
# ---------------------------------------------------------------------------------------------
class Injected(Exception):
    pass


class Injector:
    """makes the k-th h5py mutation of the real library fail ('before': without effect, 'after': after it has been carried out)"""
    def __init__(self, k, when='before'):
        self.k, self.when, self.count, self.fired = k, when, 0, None

    def __enter__(self):
        import h5py
        self.saved = []
        targets = [(h5py.Group, 'create_group'), (h5py.Group, 'create_dataset'), (h5py.AttributeManager, 'create'), (h5py.AttributeManager, '__setitem__')]
        for cls, name in targets:
            orig = getattr(cls, name)
            self.saved.append((cls, name, orig))
            setattr(cls, name, self._wrap(orig, f'{cls.__name__}.{name}'))
        return self

    def _wrap(self, orig, label):
        inj = self

        def wrapper(obj, *a, **k):
            if getattr(inj, 'inside', False):
                return orig(obj, *a, **k)
            if inj.when == 'after' and not label.endswith('create_dataset'):
                return orig(obj, *a, **k)          # only writing a dataset can fail half way (dataset created, data not written)
            inj.count += 1
            mine = inj.count == inj.k
            if mine and inj.when == 'before':
                inj.fired = f'{label}({a[0] if a else ""}) fails before it has any effect'
                raise Injected(inj.fired)
            inj.inside = True
            try:
                r = orig(obj, *a, **k)
            finally:
                inj.inside = False
            if mine:
                inj.fired = f'{label}({a[0] if a else ""}) fails after it was carried out'
                raise Injected(inj.fired)
            return r
        return wrapper

    def __exit__(self, *exc):
        for cls, name, orig in self.saved:
            setattr(cls, name, orig)
        return False


def fault_sweep(kind, dim=3, stop_at_first=True):
    """real VMAPExport on a real file: inject a failure at every h5py mutation of add_geometry / add_variable in turn; returns the list of injections after
    which the file holds a partial geometry / variable (or the MYSIZE bookkeeping is off), and the number of injection points"""
    import warnings
    import numpy as np
    import pylife.vmap as vmap
    warnings.simplefilter('ignore')
    rng = np.random.default_rng(5)
    good = add_fields(rng, make_mesh(rng, dim, [ELEMENT_NODES[dim][0], ELEMENT_NODES[dim][1]], 4, ids='gapped'))
    bad, points = [], 0
    for when in ('before', 'after'):
        k = 0
        while True:
            k += 1
            path = scratch_file()
            try:
                ex = vmap.VMAPExport(path)
                ex.add_geometry('first', good)
                ex.add_variable('STATE-1', 'first', 'DISPLACEMENT', good)
                before = snapshot(path)
                with Injector(k, when) as inj:
                    try:
                        if kind == 'geometry':
                            ex.add_geometry('second', good)
                        else:
                            ex.add_variable('STATE-1', 'first', 'STRESS_CAUCHY', good)
                        raised = None
                    except Exception as e:   # noqa
                        raised = e
                if inj.fired is None:
                    break                       # fewer than k mutations: sweep complete
                points += 1
                after = snapshot(path)
                if raised is None:
                    bad.append({'fail_at': k, 'when': when, 'operation': inj.fired, 'problem': 'the injected failure was swallowed'})
                elif after != before:
                    bad.append({'fail_at': k, 'when': when, 'operation': inj.fired, 'problem': f'file content after the failed call: geometries {sorted(after[0])}, variables {sorted(after[1])}, MYSIZE consistent {after[2]}; before: {sorted(before[0])}, {sorted(before[1])}'})
                if bad and stop_at_first:
                    return bad, points
            finally:
                if os.path.exists(path):
                    os.remove(path)
    return bad, points


def rollback_replay(kind):
    def replay(item, model):
        from pv import extbuild   # noqa  (the real package is importable in the worker)
        bad, points = fault_sweep(kind)
        if bad:
            return {'reproduced': True, 'inputs': bad[0], 'note': f'fault injection on the real h5py ({points} injection points tried): ' + bad[0]['problem']}
        return {'reproduced': False, 'reason': f'no injection of a failure into the {points} h5py mutations of the real call leaves a partial object'}
    return replay


@bounded('C20', 'fault-injection', shards=2)
def b_fault_injection(ctx):
    """real add_geometry / add_variable on a real file with a failure injected at every h5py mutation (create_group, create_dataset, attrs.create, attrs[...] = ...), once
    before the operation has an effect and, for create_dataset, once after the dataset exists: the call raises and the file content (geometries, variables, MYSIZE bookkeeping) is what it was before"""
    ctx.bound = "every h5py mutation of one add_geometry and one add_variable call (2D and 3D mixed-type mesh of 4 elements), failure before / after the operation"
    ctx.rule = "each injection point is one case"
    ctx.exhaustive = True
    for idx, (kind, dim) in enumerate([('geometry', 2), ('geometry', 3), ('variable', 2), ('variable', 3)]):
        if idx % ctx.nshards != ctx.shard:
            continue
        bad, points = fault_sweep(kind, dim, stop_at_first=False)
        for _ in range(points):
            ctx.case(True)
        for b in bad:
            ctx.fail(f'C20:fault-injection:{kind}:partial', f"add_{kind} ({dim}D): {b['operation']}: {b['problem']}", b)
    ctx.sample({'injection': 'Group.create_dataset(MYCOORDINATES) fails after it was carried out', 'expected': 'VMAPExportError, no geometry "second" in the file'})


def _variable_rollback(o, label, variable, extra):
    S, G = 'STATE-1', 'G'
    VP = f'/VMAP/VARIABLES/{S}/{G}/{variable}'
    GP = f'/VMAP/VARIABLES/{S}/{G}'
    ps = ghost_run(o, 'add_variable', lambda world, Havoc: ([S, G, variable, Havoc(world, 'mesh')], extra(world, Havoc)))
    raises = [p for p in ps if p.result[0][0] == 'raise']
    returns = [p for p in ps if p.result[0][0] == 'return']
    unchanged, size_ok, frame, complete, fresh_only, size_inc = [], [], [], [], [], []
    for p in ps:
        (kind, info), gf, world = p.result
        e = gf.lookup(VP)
        ge = gf.lookup(GP)
        p0 = gf.initial.get(VP, False)
        outside = [l for l in gf.log if not (l[1] == f'/VMAP/VARIABLES/{S}' or l[1].startswith(f'/VMAP/VARIABLES/{S}/'))]
        frame.append((p.pc, len(outside) == 0))
        gnode = ge.node if (ge is not None and ge.node is not None) else None
        size_now = gnode.attrs.values.get('MYSIZE') if gnode is not None else None
        size_was = (gnode.initial_attrs.get('MYSIZE') if gnode.origin == 'old' else 0) if gnode is not None else None
        term = lambda v: v.t if hasattr(v, 't') else z3.IntVal(v)   # noqa: E731
        if kind == 'raise':
            unchanged.append((p.pc, True if e is None else _b(e.present) == _b(p0)))
            if e is not None and e.node is not None:
                unchanged.append((p.pc, e.node.origin == 'old' and not [l for l in gf.log if l[1].startswith(VP) and l[0] != 'delete']))
            if size_now is not None and size_was is not None:
                size_ok.append((p.pc, term(size_now) == term(size_was)))
            elif size_now is not None and gnode.origin == 'old':
                size_ok.append((p.pc, False))      # written without having been read
        else:
            node = e.node if e is not None else None
            ok = bool(node is not None and e.present is True and node.origin == 'new' and info
                      and all(k in node.children and node.children[k].present is True and not node.children[k].node.partial for k in ('MYGEOMETRYIDS', 'MYVALUES')))
            complete.append((p.pc, ok))
            fresh_only.append((p.pc, z3.Not(_b(p0))))
            size_inc.append((p.pc, term(size_now) == term(size_was) + 1 if (size_now is not None and size_was is not None) else False))
    rp = rollback_replay('variable')
    o.prove(f'{label}: the exploration has raising and returning paths', z3.BoolVal(len(raises) >= 10 and len(returns) >= 1))
    o.prove(f'{label}: every raising path: the variable group is absent if it was absent, the untouched old one if it existed', _all(unchanged), replay=rp)
    o.prove(f'{label}: every raising path: MYSIZE of the geometry group is what it was (0 for a group created by the call)', _all(size_ok), replay=rp)
    o.prove(f'{label}: every path: nothing outside /VMAP/VARIABLES/<state> is written', _all(frame))
    o.prove(f'{label}: every returning path: the variable group is new, holds MYGEOMETRYIDS and MYVALUES completely written, self is returned', _all(complete))
    o.prove(f'{label}: every returning path: the variable did not exist before and MYSIZE is incremented by one', z3.And(_all(fresh_only), _all(size_inc)))
    o.note(f"{label}: {len(ps)} paths explored: {len(raises)} raising, {len(returns)} returning")


@obligation('C20', 'add_variable.rollback', functions=[EX + '.add_variable', EX + '._fail_if_ids_exceed_int32', EX + '._create_group_with_attributes'])
def add_variable_rollback(o):
    """VMAPExport.add_variable over an abstract HDF5 file and arbitrary mesh / numpy / pandas objects, for a known variable (columns and location from the table) and for
    an unknown one with caller-supplied arbitrary column names and location: on every raising path - whichever operation fails - the variable group is absent (or the
    untouched old one) and the MYSIZE counter of the geometry's variable group is unchanged; on returning paths the variable is complete and counted once"""
    _variable_rollback(o, 'known variable', 'STRESS_CAUCHY', lambda world, Havoc: {})
    _variable_rollback(o, 'caller-supplied columns and location', 'XX', lambda world, Havoc: {'column_names': Havoc(world, 'column_names'), 'location': Havoc(world, 'location')})
    o.trusted("abstract HDF5 file (pv/ghost.py): h5py item access / create_group / create_dataset / del / attrs behave as modelled; del removes the whole subtree atomically")
    o.trusted("exceptions are of class Exception (KeyboardInterrupt / SystemExit inside the export are not rolled back)")


@obligation('C20', 'ids.int32-guard', functions=[EX + '._fail_if_ids_exceed_int32'])
def int32_guard(o):
    """VMAPExport._fail_if_ids_exceed_int32(mesh) raises exactly when a non-empty id level has a smallest id < -2^31 or a largest id > 2^31 - 1, i.e. exactly when
    an identifier does not fit the 32 bit integers the datasets are written with (dtype=np.int32 would wrap it silently): every id that passes is stored unchanged"""
    from pv.interp import Obj, Rec, Builtin
    lims = {}
    lens = {}

    class Ids:
        def __init__(self, level):
            self.level = level
            if level not in lims:
                lo, hi, n = o.int(f'min_{level}'), o.int(f'max_{level}'), o.int(f'n_{level}')
                o.assume(n >= 0, z3.Implies(n > 0, lo <= hi))
                lims[level], lens[level] = (lo, hi), n

        def pv_len(self):
            return SV(lens[self.level])

        def pv_getattr(self, attr):
            if attr in ('min', 'max'):
                return Builtin(attr, lambda: SV(lims[self.level][0 if attr == 'min' else 1]))
            raise AttributeError(attr)

    class Index:
        def pv_getattr(self, attr):
            if attr == 'get_level_values':
                return Builtin('get_level_values', lambda level: Ids(level))
            raise AttributeError(attr)

    class Mesh:
        def pv_getattr(self, attr):
            if attr == 'index':
                return Index()
            raise AttributeError(attr)
    exp = Obj(o.cls(EX))
    ps = o.paths(lambda: o.I.call(o.method(exp, '_fail_if_ids_exceed_int32'), [Mesh()]))
    o.shape('both id levels are examined', sorted(lims) == ['element_id', 'node_id'], sorted(lims))
    fits = z3.And(*[z3.Implies(lens[l] > 0, z3.And(lims[l][0] >= -2**31, lims[l][1] <= 2**31 - 1)) for l in sorted(lims)])
    rets = [p for p in ps if p.kind == 'return']
    rais = [p for p in ps if p.kind == 'raise']
    o.shape('the guard has returning and raising paths', bool(rets) and bool(rais), (len(rets), len(rais)))

    def replay(item, model):
        # native replay of the solver's id limits on the real method: a two-row mesh per level holding exactly the smallest and largest id of the model
        import pandas as pd
        from pylife.vmap import VMAPExport
        def val(k, d):
            v = model.get(k, d)
            return int(round(v)) if v is not None else d
        ids = {l: ([val(f'min_{l}', 1), val(f'max_{l}', 2)] if val(f'n_{l}', 2) > 0 else []) for l in ('element_id', 'node_id')}
        n = max(len(v) for v in ids.values())
        if any(len(v) not in (0, n) for v in ids.values()) or n == 0:
            ids = {l: (v if v else [1, 2]) for l, v in ids.items()}
        mesh = pd.DataFrame({'x': [0.0] * 2, 'y': [0.0] * 2}, index=pd.MultiIndex.from_arrays([ids['element_id'], ids['node_id']], names=['element_id', 'node_id']))
        fit = all(-2**31 <= i <= 2**31 - 1 for v in ids.values() for i in v)
        try:
            VMAPExport._fail_if_ids_exceed_int32(object.__new__(VMAPExport), mesh)
            raised = None
        except Exception as e:   # noqa
            raised = type(e).__name__
        return {'reproduced': (raised is None) != fit, 'inputs': ids, 'outputs': {'raised': raised, 'every_id_fits_int32': fit}}
    o.prove('returns only if every id of both levels fits int32', _all([(p.pc, fits) for p in rets]), replay=replay)
    o.prove('raises only if some id does not fit int32', _all([(p.pc, z3.Not(fits)) for p in rais]), replay=replay)
    o.prove('raises ValueError', z3.BoolVal(all(p.exc.exc_type == 'ValueError' for p in rais)))
    o.canary('canary: ids up to 2^31 are accepted', _all([(p.pc, z3.Not(z3.And(*[z3.Implies(lens[l] > 0, z3.And(lims[l][0] >= -2**31, lims[l][1] <= 2**31)) for l in sorted(lims)]))) for p in rais]))
