"""C12 - mean stress transformation follows iso-damage lines of the Haigh diagram."""
import ast
import z3
from pv.api import obligation, Unbound
from pv.bounded import bounded
from pv.sym import SV, RV
from pv.interp import Rec, Obj, Func, Frame
from pv import extract

MS = 'pylife/strength/meanstress.py::'
KER = MS + '_SegmentTransformer.transform_cycles_in_interval.<locals>.transformed_amplitude'


def run_kernel(o, a, R, M, Rg, label):
    """run the real nested function `transformed_amplitude` of _SegmentTransformer.transform_cycles_in_interval on one generic cycle
    (amplitude a, stress ratio R as extended real SV) with sensitivity M and target R_goal (python -inf or a term)"""
    mod = extract.load_module('pylife.strength.meanstress')
    outer_node = mod.find('_SegmentTransformer.transform_cycles_in_interval')
    inner = None
    for n in outer_node.body:
        if isinstance(n, ast.FunctionDef) and n.name == 'transformed_amplitude':
            inner = n
    if inner is None:
        raise Unbound('transformed_amplitude not found')
    o.functions.add((mod.name, '_SegmentTransformer.transform_cycles_in_interval.<locals>.transformed_amplitude'))
    cls = o.I.get_class(mod, mod.find('_SegmentTransformer'))
    selfobj = Obj(cls)
    tc = Rec({'amplitude': SV(a, kind='series'), 'R': R}, 'frame')
    selfobj.fields['transformed_cycles'] = tc
    outer = Frame(o.I, mod, {'self': selfobj, 'R_goal': Rg, 'M': SV(M, kind='series'), 'to_shift': SV(z3.BoolVal(True), kind='series')}, None,
                  'pylife.strength.meanstress::_SegmentTransformer.transform_cycles_in_interval', node=outer_node)
    f = Func(inner, mod, outer, 'pylife.strength.meanstress::_SegmentTransformer.transform_cycles_in_interval.<locals>.transformed_amplitude')
    return o.run1(lambda: o.I.call(f, []), label=label)


def mean_of(a, R, R_neginf=None, R_one=None):
    """mean stress of a cycle with amplitude a and ratio R as the code defines it (R = -inf and R = 1 mapped to mean = -a)"""
    m = a * (1 + R) / (1 - R)
    return m


@obligation('C12', 'kernel.iso-damage', functions=[KER])
def kernel(o):
    """the transformed amplitude a' lies on the iso-damage line of slope M through the cycle and on the target ray:
    a' + M m' = a + M m with m = a(1+R)/(1-R) (m = -a for R = -inf) and m' = a'(1+R_g)/(1-R_g) (m' = -a' for R_g = -inf)"""
    a, Rr, M, Rg = o.reals('a R M R_g')
    o.assume(a > 0, M >= 0, M < 1, Rr != 1, Rg != 1, 1 - Rg + M * (1 + Rg) != 0)
    o.safety_exempt = ['inf', 'divisor != 0']
    o.note("safety obligations about inf/inf and 1-R = 0 are exempt: the code computes mean = amp*(1+R)/(1-R) for all rows first (NaN for R = -inf) and "
           "overwrites the R = -inf and R = 1 rows afterwards; the postcondition covers the overwritten values")

    def real(env):
        import numpy as np
        import pandas as pd
        from pylife.strength.meanstress import HaighDiagram
        a_, R_, M_, Rg_ = env['a'], env['R'], env['M'], env['R_g']
        m_ = a_ * (1 + R_) / (1 - R_)
        hd = HaighDiagram.from_dict({(-np.inf, np.inf): M_}) if False else None
        # single-segment diagram covering everything: one kernel application
        from pylife.strength.meanstress import _SegmentTransformer   # noqa
        hd = HaighDiagram(pd.Series([M_], index=pd.IntervalIndex.from_tuples([(-np.inf, np.inf)], name='R')))
        res = hd.transform(pd.DataFrame({'range': [2 * a_], 'mean': [m_]}), Rg_)
        return {'a_new': float(res['range'].iloc[0]) / 2}
    o.set_replay(real)
    # finite R, finite target
    r = o.named('a_new', run_kernel(o, a, SV(Rr, kind='series'), M, SV(Rg), 'kernel[finite]'))
    m = a * (1 + Rr) / (1 - Rr)
    o.prove('finite R, finite R_g: a\' + M m\' == a + M m', r + M * (r * (1 + Rg) / (1 - Rg)) == a + M * m)
    o.prove('kernel(R_g = R) is the identity', z3.Implies(Rg == Rr, r == a))
    o.canary('canary: amplitude unchanged by the transformation', z3.Implies(z3.And(M > 0, Rg != Rr), r == a))


@obligation('C12', 'kernel.special-ratios', functions=[KER])
def kernel_special(o):
    """R = -inf cycles (mean = -amplitude) and target R_g = -inf (m' = -a'); idempotence; composition of two steps with one M;
    monotone in the amplitude"""
    a, a2, Rr, M, Rg, R2 = o.reals('a a2 R M R_g R_2')
    o.assume(a > 0, a2 > a, M >= 0, M < 1, Rr != 1, Rg != 1, R2 != 1, 1 - Rg + M * (1 + Rg) > 0, 1 - R2 + M * (1 + R2) > 0, 1 - Rr + M * (1 + Rr) > 0)
    o.safety_exempt = ['inf', 'divisor != 0']
    neg_inf = SV(RV(0), ninf=z3.BoolVal(True), kind='series')
    r1 = run_kernel(o, a, neg_inf, M, SV(Rg), 'kernel[R=-inf]')
    o.prove('R = -inf: a\' + M m\' == a - M a', r1.t + M * (r1.t * (1 + Rg) / (1 - Rg)) == a - M * a)
    r2 = run_kernel(o, a, SV(Rr, kind='series'), M, float('-inf'), 'kernel[R_g=-inf]')
    m = a * (1 + Rr) / (1 - Rr)
    o.prove('R_g = -inf: a\' - M a\' == a + M m', r2.t - M * r2.t == a + M * m)
    r3 = run_kernel(o, a, neg_inf, M, float('-inf'), 'kernel[-inf -> -inf]')
    o.prove('R = R_g = -inf: identity', r3.t == a)
    # composition: R -> R_g -> R_2 equals R -> R_2 (same M)
    s1 = run_kernel(o, a, SV(Rr, kind='series'), M, SV(Rg), 'kernel[R->R_g]')
    s2 = run_kernel(o, s1.t, SV(Rg, kind='series'), M, SV(R2), 'kernel[R_g->R_2]')
    d = run_kernel(o, a, SV(Rr, kind='series'), M, SV(R2), 'kernel[R->R_2]')
    o.prove('two steps with one M compose to one', s2.t == d.t)
    # monotone in the amplitude for a fixed ratio (admissible targets: positive denominators)
    b = run_kernel(o, a2, SV(Rr, kind='series'), M, SV(Rg), 'kernel[a2]')
    o.prove('non-decreasing in the amplitude (R and R_g below 1: iso-damage amplitude stays positive)', z3.Implies(z3.And(1 - Rr > 0, 1 - Rg > 0, 1 + Rr >= 0), b.t >= s1.t))
    o.prove('positively homogeneous: kernel(c a) = c kernel(a)', b.t * a == s1.t * a2)


@obligation('C12', 'transform.assembly', functions=[MS + 'HaighDiagram.transform'])
def assembly(o):
    """result assembly in HaighDiagram.transform: range = 2 a', mean = a'(1+R)/(1-R), and mean = -a' exactly for R = -inf (0 * inf filled with -1)"""
    # the two assembly expressions are evaluated on a generic row by interpreting the real statement
    mod = extract.load_module('pylife.strength.meanstress')
    node = mod.find('HaighDiagram.transform')
    o.functions.add((mod.name, 'HaighDiagram.transform'))
    # the dict literal {'range': ..., 'mean': ...} of the real method is located in its AST and its two value expressions are evaluated symbolically on a generic
    # row (a first version compared the source text with the expected strings and alarmed on a reformatted file)
    dicts = [n for n in ast.walk(node) if isinstance(n, ast.Dict) and [getattr(k, 'value', None) for k in n.keys] == ['range', 'mean']]
    if len(dicts) != 1:
        raise Unbound("the result assembly {'range': ..., 'mean': ...} was not found in HaighDiagram.transform")
    a, Rr = o.reals('a R')
    o.assume(a >= 0, Rr != 1)
    o.safety_exempt = ['divisor != 0']
    tc = Rec({'amplitude': SV(a, kind='series'), 'R': SV(Rr, kind='series')}, 'frame')
    fr = Frame(o.I, mod, {'transfomed_cycles': tc}, None, 'pylife.strength.meanstress::HaighDiagram.transform', node=node)
    vals = o.run1(lambda: tuple(fr.eval(v) for v in dicts[0].values), label='assembly')
    o.prove('assembled range == 2 a\'', vals[0].t == 2 * a)
    o.prove('assembled mean == a\' (1 + R)/(1 - R) for finite R', vals[1].t == a * (1 + Rr) / (1 - Rr))
    o.prove('finite R: mean = a (1+R)/(1-R) satisfies (mean - a)/(mean + a) == R when mean + a != 0',
            z3.Implies(a * (1 + Rr) / (1 - Rr) + a != 0, (a * (1 + Rr) / (1 - Rr) - a) / (a * (1 + Rr) / (1 - Rr) + a) == Rr), kind='lemma')
    o.note("R = -inf: (1+R)/(1-R) evaluates to nan in floating point (inf/inf) and is replaced by -1: mean = -a', the R = -inf ray; "
           "bounded stand-in checks the numeric behaviour")


@obligation('C12', 'rebin.intervals-partition', functions=[MS + 'MeanstressTransformMatrix._rebin_results'])
def rebin_partition(o):
    """sum_intervals: the first interval is closed on both sides, the others left-open: for gap-free breaks 0 = b_0 < ... < b_k every range in [0, b_k] lies
    in exactly one interval, hence (sum calculus) the re-binning conserves the number of cycles"""
    mod = extract.load_module('pylife.strength.meanstress')
    outer = mod.find('MeanstressTransformMatrix._rebin_results')
    inner = [n for n in outer.body if isinstance(n, ast.FunctionDef) and n.name == 'sum_intervals']
    if not inner:
        raise Unbound('sum_intervals not found')
    o.functions.add((mod.name, 'MeanstressTransformMatrix._rebin_results.<locals>.sum_intervals'))
    # membership test of sum_intervals evaluated symbolically: op_left(ranges, iv.left) & op.le(ranges, iv.right)
    import operator as op_
    x, l, r, l2, r2 = o.reals('x l r l2 r2')
    from pv.interp import Opaque, Builtin

    class Iv:
        pass
    results = {}
    for first in (True, False):
        left = RV(0) if first else l
        iv = Rec({'left': 0.0 if first else SV(l), 'right': SV(r)}, 'interval')
        captured = {}

        class ObjSeries:
            pass
        objrec = Rec({}, 'series')
        # obj.iloc[mask].sum(): capture the mask
        from pv import npmodel

        def iloc_get(mask):
            captured['mask'] = mask
            return SV(RV(0), kind='series')
        objrec.fields['iloc'] = _Indexer(iloc_get)
        rng = Rec({'values': SV(x, kind='ndarray')}, 'series')
        outerf = Frame(o.I, mod, {}, None, 'pylife.strength.meanstress::MeanstressTransformMatrix._rebin_results', node=outer)
        f = Func(inner[0], mod, outerf, 'pylife.strength.meanstress::MeanstressTransformMatrix._rebin_results.<locals>.sum_intervals')
        if not first:
            o.hyps.append(l > 0)
        o.run1(lambda: o.I.call(f, [iv, rng, objrec]), label=f'sum_intervals[first={first}]', allow_raise=True)
        results[first] = captured.get('mask')
    m_first, m_other = results[True], results[False]
    o.prove('first interval [0, r] is closed on both sides', m_first.t == z3.And(x >= 0, x <= r))
    o.prove('other intervals (l, r] are left-open, right-closed', m_other.t == z3.And(x > l, x <= r))
    # partition lemma for adjacent intervals
    b0, b1, b2 = o.reals('b0 b1 b2')
    o.prove('adjacent intervals (b0,b1], (b1,b2] are disjoint and cover (b0,b2]',
            z3.Implies(z3.And(b0 < b1, b1 < b2),
                       z3.And(z3.Not(z3.And(z3.And(x > b0, x <= b1), z3.And(x > b1, x <= b2))),
                              z3.Or(z3.And(x > b0, x <= b1), z3.And(x > b1, x <= b2)) == z3.And(x > b0, x <= b2))), kind='lemma', only=[])
    o.prove('[0,b1] and (b1,b2] are disjoint and cover [0,b2]',
            z3.Implies(z3.And(0 < b1, b1 < b2),
                       z3.And(z3.Not(z3.And(z3.And(x >= 0, x <= b1), z3.And(x > b1, x <= b2))),
                              z3.Or(z3.And(x >= 0, x <= b1), z3.And(x > b1, x <= b2)) == z3.And(x >= 0, x <= b2))), kind='lemma', only=[])
    o.trusted("meta-rule: a sum over a partition of the rows equals the sum over all rows (cycle conservation of the re-binning); induction over the breaks")


class _Indexer:
    def __init__(self, fn):
        self.pv_getitem = fn


# ---------------------------------------------------------------------------------------------
def _oracle(a, m, segments, Rg):
    """independent piecewise-linear iso-damage walk in the (mean, amplitude) plane.
    segments: list of (t_lo, t_hi, M) with t = mean/amplitude the ray parameter ((1+R)/(1-R)), gap free, ascending; returns a' on the ray t_g."""
    import math
    t = m / a
    tg = -1.0 if Rg == -math.inf else (1 + Rg) / (1 - Rg)

    def seg_of(tt, towards):
        for lo, hi, M in segments:
            if lo < tt < hi:
                return lo, hi, M
            if tt == lo and towards > 0 and lo != hi:
                return lo, hi, M
            if tt == hi and towards < 0:
                return lo, hi, M
        for lo, hi, M in segments:
            if lo <= tt <= hi:
                return lo, hi, M
        raise ValueError(tt)
    cur_a, cur_t = a, t
    for _ in range(20):
        if cur_t == tg:
            return cur_a
        direction = 1 if tg > cur_t else -1
        lo, hi, M = seg_of(cur_t, direction)
        target = min(tg, hi) if direction > 0 else max(tg, lo)
        # a' (1 + M target) = cur_a (1 + M cur_t)
        cur_a = cur_a * (1 + M * cur_t) / (1 + M * target)
        cur_t = target
    raise RuntimeError('no convergence')


def _t_of_R(R):
    import math
    if R == -math.inf or R == math.inf:
        return -1.0
    return (1 + R) / (1 - R)


@bounded('C12', 'fkm-goodman-closed-form', shards=16)
def b_goodman(ctx):
    """FKM-Goodman / five-segment transformation vs an independent piecewise-linear iso-damage walk; path independence R_1 -> R_2 vs direct;
    idempotence; cycle already at the target unchanged; monotone in the amplitude; the three interfaces agree; restricted to cycles whose exact
    iso-damage amplitude stays positive"""
    import itertools
    import math
    import warnings
    import numpy as np
    import pandas as pd
    import pylife.strength.meanstress as MST
    import pylife.stress.collective   # noqa
    warnings.simplefilter('ignore')
    amps = [1.0, 2.0, 5.0]
    ratios = [-3.0, -1.5, -1.0, -0.5, 0.0, 0.5, 1.0, 2.0, 5.0]            # mean / amplitude (R = 0 at 1.0, R = -inf at -1.0)
    Ms = [(0.0, 0.0), (0.1, 0.1 / 3), (0.3, 0.1), (0.3, 0.0), (0.5, 0.5), (0.3, 0.3)] if ctx.tier == 'thorough' else [(0.0, 0.0), (0.3, 0.1), (0.5, 0.5), (0.3, 0.0)]
    # (0.6 .. 0.97: targets in the upper half of the topmost segment, added after seed C12-e parked that segment on its right border R = 1)
    goals = [-math.inf, -2.0, -1.0, -0.5, 0.0, 0.3, 0.5, 0.6, 0.75, 0.9, 0.97, 2.0, 5.0]
    ctx.bound = f"cycles: amplitude in {amps} x mean/amplitude in {ratios}; (M, M2) in {Ms}; R_goal in {goals}; two five-segment sets; pairs of goals for path independence"
    ctx.rule = "non-trivial: cycle not already on the target ray and M > 0; distinct by (cycle, diagram, goal)"
    ctx.exhaustive = True
    five = [dict(M0=0.5, M1=0.3, M2=0.2, M3=0.1, M4=0.0, R12=0.4, R23=0.7), dict(M0=0.3, M1=0.3, M2=0.1, M3=0.0, M4=0.3, R12=0.2, R23=0.5)]

    def goodman_segments(M, M2):
        return [(-math.inf, -1.0, 0.0), (-1.0, 1.0, M), (1.0, math.inf, M2)]

    def five_segments(p):
        t12, t23 = _t_of_R(p['R12']), _t_of_R(p['R23'])
        return [(-math.inf, -1.0, p['M4']), (-1.0, 1.0, p['M0']), (1.0, t12, p['M1']), (t12, t23, p['M2']), (t23, math.inf, p['M3'])]

    def positive_path(a, m, segs, Rg):
        try:
            v = _oracle(a, m, segs, Rg)
        except (ZeroDivisionError, ValueError, RuntimeError):
            return None
        return v if (v is not None and v > 1e-9 and math.isfinite(v)) else None

    cases = []
    for (M, M2) in Ms:
        cases.append(('goodman', (M, M2), goodman_segments(M, M2)))
    for p in five:
        cases.append(('five', p, five_segments(p)))
    for kind, par, segs in cases:
        for a, q, Rg in itertools.product(amps, ratios, goals):
            if not ctx.mine():
                continue
            m = q * a
            want = positive_path(a, m, segs, Rg)
            if want is None:
                continue
            # every intermediate amplitude of the walk must stay positive too (restriction of the statement)
            if kind == 'goodman':
                got = float(MST.fkm_goodman(np.array([a]), np.array([m]), par[0], par[1], Rg)[0])
            else:
                got = float(MST.five_segment_correction(np.array([a]), np.array([m]), par['M0'], par['M1'], par['M2'], par['M3'], par['M4'], par['R12'], par['R23'], Rg)[0])
            nontriv = abs(_t_of_R(Rg) - q) > 1e-12 and (par[0] if kind == 'goodman' else 1) > 0
            ctx.case(nontriv, key=(kind, str(par), a, q, Rg))
            if abs(got - want) > 1e-9 * max(1, want):
                ctx.fail(f'C12:closed-form:{kind}', f'{kind} {par}: cycle a={a}, m={m} -> R={Rg}: {got}, iso-damage walk gives {want}',
                         {'kind': kind, 'params': par, 'a': a, 'm': m, 'R_goal': Rg})
                continue
            # number types: the amplitudes given as an integer array (the means stay floats), the mean given as one scalar for all cycles - same values
            # (added after seed C12-g cast the mean to the dtype of the amplitude array in the plain functions)
            if float(a).is_integer():
                for tname, a_arr, m_arg in (('int64 amplitudes', np.array([int(a)]), np.array([m])), ('int32 amplitudes', np.array([int(a)], dtype=np.int32), np.array([m])),
                                            ('scalar mean', np.array([int(a), int(a)]), float(m))):
                    try:
                        if kind == 'goodman':
                            got_t = float(np.asarray(MST.fkm_goodman(a_arr, m_arg, par[0], par[1], Rg))[0])
                        else:
                            got_t = float(np.asarray(MST.five_segment_correction(a_arr, m_arg, par['M0'], par['M1'], par['M2'], par['M3'], par['M4'], par['R12'], par['R23'], Rg))[0])
                    except Exception as e:   # noqa
                        ctx.fail(f'C12:number-type:{kind}:raises:{type(e).__name__}', f'{kind} with {tname} raises {type(e).__name__}: {str(e)[:120]}', {'kind': kind, 'a': a, 'm': m, 'R_goal': Rg})
                        continue
                    if not (got_t == got or abs(got_t - got) <= 1e-12 * max(1, abs(got))):
                        ctx.fail(f'C12:number-type:{kind}', f'{kind} {par}: cycle a={int(a)} ({tname}), m={m} -> R={Rg}: {got_t}, with float amplitudes {got}', {'kind': kind, 'params': par, 'a': a, 'm': m, 'R_goal': Rg})
            # the transformation is homogeneous of degree 1: the same cycle in units a billion times larger (numbers of the order 1e-9) gives the same result in
            # those units (added after seed C12-f snapped R to -inf whenever the upper load is np.isclose to 0)
            if kind == 'goodman':
                u_ = 1e-9
                got_u = float(MST.fkm_goodman(np.array([a * u_]), np.array([m * u_]), par[0], par[1], Rg)[0]) / u_
                if abs(got_u - want) > 1e-9 * max(1, want):
                    ctx.fail(f'C12:closed-form:{kind}:unit-scale', f'{kind} {par}: cycle a={a}e-9, m={m}e-9 -> R={Rg}: {got_u}e-9, iso-damage walk gives {want}e-9',
                             {'kind': kind, 'params': par, 'a': a, 'm': m, 'R_goal': Rg})
            # idempotence / cycle at target
            t_g = _t_of_R(Rg)
            m2 = got * t_g
            if kind == 'goodman':
                again = float(MST.fkm_goodman(np.array([got]), np.array([m2]), par[0], par[1], Rg)[0])
            else:
                again = float(MST.five_segment_correction(np.array([got]), np.array([m2]), par['M0'], par['M1'], par['M2'], par['M3'], par['M4'], par['R12'], par['R23'], Rg)[0])
            if abs(again - got) > 1e-9 * max(1, got):
                ctx.fail(f'C12:idempotence:{kind}', f'{kind} {par}: transforming twice to R={Rg} changes {got} to {again}', {'a': a, 'm': m, 'R_goal': Rg})
            # path independence via a second goal
            for R1 in (-1.0, 0.0, 0.5):
                mid = positive_path(a, m, segs, R1)
                if mid is None or positive_path(mid, mid * _t_of_R(R1), segs, Rg) is None:
                    continue
                if kind == 'goodman':
                    step = float(MST.fkm_goodman(np.array([a]), np.array([m]), par[0], par[1], R1)[0])
                    two = float(MST.fkm_goodman(np.array([step]), np.array([step * _t_of_R(R1)]), par[0], par[1], Rg)[0])
                else:
                    step = float(MST.five_segment_correction(np.array([a]), np.array([m]), par['M0'], par['M1'], par['M2'], par['M3'], par['M4'], par['R12'], par['R23'], R1)[0])
                    two = float(MST.five_segment_correction(np.array([step]), np.array([step * _t_of_R(R1)]), par['M0'], par['M1'], par['M2'], par['M3'], par['M4'], par['R12'], par['R23'], Rg)[0])
                if abs(two - got) > 1e-9 * max(1, got):
                    ctx.fail(f'C12:path-independence:{kind}', f'{kind} {par}: a={a}, m={m}: via R={R1} gives {two}, direct to R={Rg} gives {got}', {'a': a, 'm': m, 'R1': R1, 'R_goal': Rg})
            # interfaces agree (collective accessor)
            if kind == 'goodman' and (ctx.evaluations % 5 == 0 or Rg == -math.inf):
                df = pd.DataFrame({'range': [2 * a], 'mean': [m]})
                lc = df.meanstress_transform.fkm_goodman(pd.Series({'M': par[0], 'M2': par[1]}), Rg)
                acc = float(lc.amplitude.iloc[0])
                # the cycles are identified by the column NAMES: columns listed the other way round, a further column, a non-default row label
                df2 = pd.DataFrame({'note': [1.0], 'mean': [m], 'range': [2 * a]}, index=pd.Index([7], name='cycle_number'))
                acc2 = float(df2.meanstress_transform.fkm_goodman(pd.Series({'M2': par[1], 'M': par[0]}), Rg).amplitude.iloc[0])
                if not (acc2 == acc or abs(acc2 - acc) <= 1e-12 * abs(acc)):
                    ctx.fail('C12:interfaces:column-order', f'collective accessor gives {acc2} for the frame with columns (note, mean, range), {acc} for (range, mean)', {'a': a, 'm': m, 'R_goal': Rg})
                if abs(acc - got) > 1e-12 * max(1, got):
                    ctx.fail('C12:interfaces', f'collective accessor {acc} != plain function {got}', {'a': a, 'm': m, 'R_goal': Rg})
                mean_got = float(lc.meanstress.iloc[0])
                if abs(mean_got - got * t_g) > 1e-9 * max(1, abs(got * t_g)):
                    ctx.fail('C12:result-mean', f'transformed cycle has mean {mean_got}, but amplitude {got} on the ray R={Rg} means {got * t_g}', {'a': a, 'm': m, 'R_goal': Rg})
    # several cycles at once, labelled by something else than 0..n-1 in order: the plain functions answer position by position, the collective accessor hands the
    # cycles back in the order (and under the labels) it was given (added after seed C12-h: results came back in label order)
    if ctx.shard == 0:
        a5 = np.array([1.0, 2.0, 5.0, 2.0, 1.0])
        m5 = np.array([0.5, -1.0, 2.5, 4.0, -3.0])
        labels = [3, 0, 4, 1, 2]
        for Rg in (-1.0, 0.0, 0.4, -math.inf, 2.0):
            ref = np.asarray(MST.fkm_goodman(a5, m5, 0.5, 0.2, Rg), dtype=float)
            one = np.array([float(MST.fkm_goodman(np.array([a_]), np.array([m_]), 0.5, 0.2, Rg)[0]) for a_, m_ in zip(a5, m5)])
            ser = np.asarray(MST.fkm_goodman(pd.Series(a5, index=labels), pd.Series(m5, index=labels), 0.5, 0.2, Rg), dtype=float)
            ctx.case(True, key=('labels', Rg))
            if not np.allclose(ref, one, rtol=1e-12, atol=0, equal_nan=True) or not np.allclose(ser, one, rtol=1e-12, atol=0, equal_nan=True):
                ctx.fail('C12:several-cycles:positional', f'fkm_goodman of 5 cycles -> R={Rg}: arrays {ref.tolist()}, Series labelled {labels} {ser.tolist()}, one cycle at a time {one.tolist()}', {'R_goal': Rg})
            dfl = pd.DataFrame({'range': 2 * a5, 'mean': m5}, index=pd.Index(labels, name='cycle_number'))
            lc = dfl.meanstress_transform.fkm_goodman(pd.Series({'M': 0.5, 'M2': 0.2}), Rg)
            got_l = np.asarray(lc.amplitude, dtype=float)
            if list(lc.amplitude.index) != labels or not np.allclose(got_l, one, rtol=1e-12, atol=0, equal_nan=True):
                ctx.fail('C12:several-cycles:collective-order', f'collective accessor on cycles labelled {labels} -> R={Rg}: labels {list(lc.amplitude.index)}, amplitudes {got_l.tolist()}, one cycle at a time {one.tolist()}', {'R_goal': Rg})
    # a pulsating compressive cycle whose upper load is the float -0.0 (what 0.0 * -1 or a sign flip of a collective produces) is the cycle with upper load 0.0:
    # same R (-inf), same transformed amplitude.  Exposed a defect of the unchanged tree (R = lower / -0.0 = +inf, transformed amplitude 0), repaired in /repo,
    # see known_findings.json
    if ctx.shard == 0:
        for Rg in (-1.0, 0.0, -math.inf):
            pz = pd.DataFrame({'from': [-2.0, -5.0], 'to': [0.0, 0.0]})
            nz = pd.DataFrame({'from': [-2.0, -5.0], 'to': [-0.0, -0.0]})
            ctx.case(True, key=('negative-zero-upper-load', Rg))
            ap = np.asarray(pz.meanstress_transform.fkm_goodman(pd.Series({'M': 0.3, 'M2': 0.1}), Rg).amplitude, dtype=float)
            an = np.asarray(nz.meanstress_transform.fkm_goodman(pd.Series({'M': 0.3, 'M2': 0.1}), Rg).amplitude, dtype=float)
            one = np.array([float(MST.fkm_goodman(np.array([a_]), np.array([-a_]), 0.3, 0.1, Rg)[0]) for a_ in (1.0, 2.5)])
            if not np.allclose(an, ap, rtol=1e-12, atol=0, equal_nan=True) or not np.allclose(ap, one, rtol=1e-12, atol=0, equal_nan=True):
                ctx.fail('C12:negative-zero-upper-load', f'cycles (-2, 0), (-5, 0) -> R={Rg}: upper load 0.0 gives {ap.tolist()}, upper load -0.0 gives {an.tolist()}, plain function {one.tolist()}', {'R_goal': Rg})
    ctx.sample({'cycle': {'a': 2.0, 'm': 1.0}, 'M': 0.3, 'M2': 0.1, 'R_goal': -1.0, 'oracle': _oracle(2.0, 1.0, goodman_segments(0.3, 0.1), -1.0)})


@bounded('C12', 'matrix-cycle-conservation', shards=1)
def b_matrix(ctx):
    """transforming a rainflow matrix (from/to and range/mean histograms) conserves the total number of cycles"""
    import warnings
    import numpy as np
    import pandas as pd
    import pylife.strength.meanstress   # noqa
    warnings.simplefilter('ignore')
    rng = np.random.default_rng(ctx.seed)
    n = 6 if ctx.tier == 'quick' else 40
    ctx.bound = f"{n} random 3x3 / 4x4 from-to and range-mean matrices with integer counts, R_goal in {{-1, -0.5, 0, 0.5}}, M in {{0, 0.3, 0.5}}"
    ctx.rule = "non-trivial: matrix with >= 2 occupied cells"
    for it in range(n):
        k = 3 + it % 2
        edges = np.linspace(-10 - it, 20 + 2 * it, k + 1)
        fr = pd.IntervalIndex.from_breaks(edges)
        counts = rng.integers(0, 5, size=k * k).astype(float)
        if it % 2 == 0:
            idx = pd.MultiIndex.from_product([fr, fr], names=['from', 'to'])
        else:
            idx = pd.MultiIndex.from_product([pd.IntervalIndex.from_breaks(np.linspace(0, 30 + it, k + 1)), fr], names=['range', 'mean'])
        mat = pd.Series(counts, index=idx)
        for Rg in (-1.0, -0.5, 0.0, 0.5):
            for M in (0.0, 0.3, 0.5):
                res = mat.meanstress_transform.fkm_goodman(pd.Series({'M': M, 'M2': M / 3}), Rg)
                total = float(res.cycles.sum()) if hasattr(res, 'cycles') else float(res.to_pandas().sum())
                ctx.case((counts > 0).sum() >= 2, key=(it, Rg, M))
                if abs(total - counts.sum()) > 1e-9 * max(1, counts.sum()):
                    ctx.fail('C12:matrix-conservation', f'matrix total {counts.sum()} becomes {total} (R_goal {Rg}, M {M})',
                             {'edges': edges.tolist(), 'counts': counts.tolist(), 'layout': list(idx.names), 'R_goal': Rg, 'M': M})
                    continue
                # the classes of a matrix are identified by their limits: the same matrix with its rows listed downwards gives the same transformed histogram
                # (added after seed C12-h sorted the operands inside HaighDiagram.transform and the re-binning paired sorted ranges with unsorted counts)
                # (listed downwards; with the second level as the major one; shuffled; with the two levels exchanged.  The last three exposed a defect of the unchanged
                # tree - transformed ranges paired by position with cycle counts listed in another order - repaired in /repo, see known_findings.json)
                hu = res.to_pandas()
                for oname, mat_v in (('listed downwards', mat.sort_index(ascending=False)), ('second level major', mat.swaplevel().sort_index().swaplevel()),
                                     ('shuffled', mat.sample(frac=1, random_state=it)), ('levels exchanged', mat.swaplevel())):
                    try:
                        hd = mat_v.meanstress_transform.fkm_goodman(pd.Series({'M': M, 'M2': M / 3}), Rg).to_pandas()
                        same = len(hu) == len(hd) and bool(np.allclose(np.asarray(hd, dtype=float), np.asarray(hu, dtype=float), rtol=1e-12, atol=1e-12))
                    except Exception as e:   # noqa
                        hd, same = f'{type(e).__name__}: {str(e)[:100]}', False
                    if not same:
                        ctx.fail(f'C12:matrix-row-order:{oname}', f'matrix {list(idx.names)} (R_goal {Rg}, M {M}) {oname} transforms to {np.asarray(hd, dtype=float).tolist() if not isinstance(hd, str) else hd}, listed upwards to {np.asarray(hu, dtype=float).tolist()}',
                                 {'edges': edges.tolist(), 'counts': counts.tolist(), 'layout': list(idx.names), 'R_goal': Rg, 'M': M, 'order': oname})
    ctx.sample({'layout': ['from', 'to'], 'cells': 9})


META = {
    'level': 'other',
    'explanation': "mixed. Proved on the real nested kernel `transformed_amplitude` (run symbolically with its closure): the point moves along the iso-damage line of slope M "
                   "onto the target ray (all special ratios), identity at the target, composition, homogeneity / monotonicity in the amplitude; interval membership of the "
                   "re-binning partitions the range axis. The segment orchestration (pandas IntervalIndex sorting, boundary choice, five-segment construction) is bounded: "
                   "compared with an independent piecewise-linear iso-damage walk on a grid incl. exactly R = 0, +-inf and the segment borders.",
    'not_decided': ["path independence for arbitrary gap-free diagrams beyond the enumerated ones", "matrix interface for R_goal outside [-1, 1)"],
    'trusted_base': ['floats = reals (NaN-then-overwrite idiom of the kernel modelled by the overwritten value)', 'sum-over-partition meta-rule', 'element-wise lifting'],
}
