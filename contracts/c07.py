"""C07 - binned notch law is the wrapped law sampled at the upper class edge."""
import z3
from pv.api import obligation
from pv.bounded import bounded
from pv.sym import SV, RV
from pv.interp import Rec, Obj, SArr
from pv import npmodel

NAF = 'pylife/materiallaws/notch_approximation_law.py::'
BIN = NAF + 'Binned'
LAW = NAF + 'ExtendedNeuber'
R = z3.RealSort()
F_STRESS = z3.Function('law_stress', R, R)
F_STRAIN = z3.Function('law_strain', R, R, R)
F_DSTRESS = z3.Function('law_delta_stress', R, R)
F_DSTRAIN = z3.Function('law_delta_strain', R, R, R)
BF = [BIN + '.' + m for m in ('__init__', '_create_bins', '_create_bins_single_assessment_point', 'stress', 'strain', 'stress_secondary_branch', 'strain_secondary_branch')]


def wrapped_law(o):
    """the wrapped law enters only through its four forward functions: replaced by uninterpreted functions (any law), applied element-wise"""
    def lift1(F):
        def apply(I, args, kw):
            x = args[1]
            if isinstance(x, SArr):
                return npmodel.sarr_map(I, x, lambda e: SV(F(npmodel.realish(e.t))))
            x = npmodel.lift(x)
            return x.like(F(npmodel.realish(x.t)))
        return apply

    def lift2(F):
        def apply(I, args, kw):
            a, b = args[1], args[2]
            if isinstance(a, SArr) and isinstance(b, SArr):
                k = z3.Int(f"k!law{next(I.fresh_counter)}")
                return SArr(z3.Lambda([k], F(z3.Select(a.a, k), z3.Select(b.a, k))), a.n, 'real', a.kind)
            a, b = npmodel.lift(a), npmodel.lift(b)
            return a.like(F(npmodel.realish(a.t), npmodel.realish(b.t)))
        return apply
    o.spec(LAW + '.stress', lift1(F_STRESS))
    o.spec(LAW + '.strain', lift2(F_STRAIN))
    o.spec(LAW + '.stress_secondary_branch', lift1(F_DSTRESS))
    o.spec(LAW + '.strain_secondary_branch', lift2(F_DSTRAIN))
    law = Obj(o.cls(LAW))
    return law


def binned(o):
    mx = o.real('max_load')
    n = o.int('n_bins')
    o.assume(mx > 0, n >= 1)
    law = wrapped_law(o)
    b = o.new(BIN, law, SV(mx), SV(n))
    return b, mx, n


def call(o, obj, name, *args, **kw):
    return o.I.call(o.method(obj, name), list(args), kw)


def sel(arr, i):
    return z3.Select(arr.a, i)


@obligation('C07', 'table.single-point', functions=BF[:3])
def table(o):
    """single assessment point: the primary table has n rows, row i (1-based) holds load i max/n, stress = law.stress(load_i), strain = law.strain(stress_i, load_i);
    the secondary table has 2n rows with delta_load_i = i max/n; loads strictly increasing"""
    b, mx, n = binned(o)
    p, s = b.fields['_lut_primary_branch'], b.fields['_lut_secondary_branch']
    k = z3.Int('k_')
    inr = z3.And(k >= 0, k < n)
    o.prove('primary table has n rows', z3.And(p.tindex.n == n, p.fields['load'].n == n, p.fields['stress'].n == n, p.fields['strain'].n == n))
    o.prove('primary: load_k == (k+1) max / n', z3.ForAll([k], z3.Implies(inr, sel(p.fields['load'], k) == z3.ToReal(k + 1) / z3.ToReal(n) * mx)))
    o.prove('primary: stress_k == law.stress(load_k)', z3.ForAll([k], z3.Implies(inr, sel(p.fields['stress'], k) == F_STRESS(sel(p.fields['load'], k)))))
    o.prove('primary: strain_k == law.strain(stress_k, load_k)',
            z3.ForAll([k], z3.Implies(inr, sel(p.fields['strain'], k) == F_STRAIN(sel(p.fields['stress'], k), sel(p.fields['load'], k)))))
    in2 = z3.And(k >= 0, k < 2 * n)
    o.prove('secondary table has 2n rows', z3.And(s.tindex.n == 2 * n, s.fields['delta_load'].n == 2 * n))
    o.prove('secondary: delta_load_k == (k+1) max / n', z3.ForAll([k], z3.Implies(in2, sel(s.fields['delta_load'], k) == z3.ToReal(k + 1) / z3.ToReal(n) * mx)))
    o.prove('secondary: delta_stress_k == law.stress_secondary_branch(delta_load_k)',
            z3.ForAll([k], z3.Implies(in2, sel(s.fields['delta_stress'], k) == F_DSTRESS(sel(s.fields['delta_load'], k)))))
    o.prove('secondary: delta_strain_k == law.strain_secondary_branch(delta_stress_k, delta_load_k)',
            z3.ForAll([k], z3.Implies(in2, sel(s.fields['delta_strain'], k) == F_DSTRAIN(sel(s.fields['delta_stress'], k), sel(s.fields['delta_load'], k)))))
    o.prove('last class edge is the maximum load (2 max for ranges)', z3.And(sel(p.fields['load'], n - 1) == mx, sel(s.fields['delta_load'], 2 * n - 1) == 2 * mx))
    o.canary('canary: secondary table has n rows', s.tindex.n == n)


def lookup(o, fname, table_field, load_col, val_col, nrows, top, F_of_edge):
    """shared postcondition of the scalar branch of the four look-ups"""
    b, mx, n = binned(o)
    x = o.real('x')
    tab = b.fields[table_field]
    loads, vals = tab.fields[load_col], tab.fields[val_col]
    N = nrows(n)
    T = top(mx)
    k = z3.Int('k_')
    # facts about the table established in table.single-point (re-derived here from the same construction run)
    edge = lambda i: z3.ToReal(i + 1) / z3.ToReal(n) * mx     # noqa: E731
    E1 = o.prove('table: load_k == (k+1) max / n', z3.ForAll([k], z3.Implies(z3.And(k >= 0, k < N), sel(loads, k) == edge(k))))
    # strict monotonicity of the class edges: lemma in linear arithmetic over u = max/n > 0
    u = o.real('u_class_width')
    o.assume(u > 0)
    o.hyps.append(u * z3.ToReal(n) == mx)
    o.note("u = max/n > 0 is the class width (defining equation u n = max added as a hypothesis: it has the solution max/n)")
    args = [SV(x)] if fname.startswith('stress') else [SV(o.real('given_stress')), SV(x)]
    ps = o.paths(lambda: call(o, b, fname, *args))
    rets = [p for p in ps if p.kind == 'return']
    raises = [p for p in ps if p.kind == 'raise' and p.exc.exc_type == 'ValueError']
    others = [p for p in ps if p.kind == 'raise' and p.exc.exc_type != 'ValueError']
    absx = z3.If(x >= 0, x, -x)
    for p in ps:
        o.take_side_obligations(p, fname)
    for p in others:
        o.prove(f'no {p.exc.exc_type} path', z3.BoolVal(False), under=p.pc, kind='no-raise')
    def decs(p):
        return z3.And(*[c for i, c in enumerate(p.pc) if i in p.dec_idx]) if p.dec_idx else z3.BoolVal(True)

    def assms(p):
        return [c for i, c in enumerate(p.pc) if i not in p.dec_idx]
    shape = len(rets) == 1 and len(raises) == 1
    o.prove('exactly one returning and one ValueError path', z3.BoolVal(shape))
    if not shape:
        return b, mx, n, x
    o.prove('returns iff |x| <= max (2 max for ranges)', decs(rets[0]) == (absx <= T), under=assms(rets[0]))
    o.prove('raises ValueError iff |x| > max (2 max for ranges)', decs(raises[0]) == (absx > T), under=assms(raises[0]))
    for i, p in enumerate(rets):
        r = p.result.t
        j = z3.Int('j_class')
        # the class used: smallest class whose upper edge is >= |x|
        cls = z3.And(j >= 0, j < N, sel(loads, j) >= absx, z3.Or(j == 0, sel(loads, j - 1) < absx))
        sgn = z3.If(x > 0, 1, z3.If(x < 0, -1, 0))
        o.prove(f'[path {i}] result == sign(x) * table value of the smallest class with edge >= |x|',
                z3.Exists([j], z3.And(cls, r == sgn * sel(vals, j))), under=p.pc)
        o.prove(f'[path {i}] x == 0 -> 0', z3.Implies(x == 0, r == 0), under=p.pc)
    return b, mx, n, x


@obligation('C07', 'lookup.stress', functions=BF)
def lookup_stress(o):
    """Binned.stress (scalar branch): sign(load) * law.stress at the upper edge of the load's class; ValueError iff |load| > max"""
    lookup(o, 'stress', '_lut_primary_branch', 'load', 'stress', lambda n: n, lambda mx: mx, F_STRESS)


@obligation('C07', 'lookup.strain', functions=BF)
def lookup_strain(o):
    """Binned.strain (scalar branch): sign(load) * law.strain at the upper class edge; ValueError iff |load| > max"""
    lookup(o, 'strain', '_lut_primary_branch', 'load', 'strain', lambda n: n, lambda mx: mx, F_STRAIN)


@obligation('C07', 'lookup.stress_secondary_branch', functions=BF)
def lookup_dstress(o):
    """Binned.stress_secondary_branch (scalar branch): 2n classes of width max/n; ValueError iff |delta_load| > 2 max"""
    lookup(o, 'stress_secondary_branch', '_lut_secondary_branch', 'delta_load', 'delta_stress', lambda n: 2 * n, lambda mx: 2 * mx, F_DSTRESS)


@obligation('C07', 'lookup.strain_secondary_branch', functions=BF)
def lookup_dstrain(o):
    """Binned.strain_secondary_branch (scalar branch)"""
    lookup(o, 'strain_secondary_branch', '_lut_secondary_branch', 'delta_load', 'delta_strain', lambda n: 2 * n, lambda mx: 2 * mx, F_DSTRAIN)


@obligation('C07', 'lemma.consequences')
def consequences(o):
    """from 'value at the smallest class edge e >= |x|' and a law that is odd-free, non-negative and non-decreasing on loads >= 0 (C06): never
    under-estimates the magnitude, monotone in the load, deviates from the exact law by less than one class (in load), exact on class edges;
    proportional points pick the same class"""
    x, y, e1, e2, w = o.reals('x y e_x e_y w')
    F = F_STRESS
    mono = lambda a, b: z3.Implies(z3.And(a >= 0, a <= b), F(a) <= F(b))     # noqa: E731  (assumed law monotonicity, instantiated where needed)
    o.assume(x >= 0, y >= x, w > 0, e1 >= x, e1 - x < w, e2 >= y, e2 - y < w)
    o.prove('never under-estimates: F(e_x) >= F(x)', F(e1) >= F(x), under=[mono(x, e1)], kind='lemma')
    o.prove('error below one class in load: 0 <= e_x - x < w', z3.And(e1 - x >= 0, e1 - x < w), kind='lemma')
    o.prove('exact on class edges: x == e_x -> F(e_x) == F(x)', z3.Implies(x == e1, F(e1) == F(x)), kind='lemma')
    # monotone: classes are ordered like the loads (smallest edge >= x is <= smallest edge >= y when x <= y)
    o.prove('monotone: e_x <= e_y -> F(e_x) <= F(e_y)', z3.Implies(e1 <= e2, F(e1) <= F(e2)), under=[mono(e1, e2)], kind='lemma')
    # proportional points: i max_j / n >= |L_j|  <=>  i max_0 / n >= |L_0|  for L_j = r L_0, max_j = r max_0, r > 0
    r, L0, m0 = o.reals('r L0 m0')
    i, n = o.ints('i n')
    o.assume(r > 0, m0 > 0, n >= 1, i >= 1, L0 >= 0)
    c = z3.ToReal(i) / z3.ToReal(n)
    cc, dcc = o.define('c_frac', c)
    o.prove('proportional points choose the same class', (cc * (r * m0) >= r * L0) == (cc * m0 >= L0), kind='lemma', only=[r > 0])
    o.trusted("law monotonicity on non-negative loads (C06) is used as a hypothesis of this lemma")


# ---------------------------------------------------------------------------------------------
@bounded('C07', 'binned-lookups', shards=8)
def b_lookups(ctx):
    """all four look-ups against the wrapped law's own (vectorised) values at the class edges: on every class edge, mid-class, 0, +-max, just above max,
    scalar and per-point Series; per-point tables equal the single-point tables; NaN entries of a Series load"""
    import itertools
    import warnings
    import numpy as np
    import pandas as pd
    from pylife.materiallaws.notch_approximation_law import ExtendedNeuber, Binned
    from pylife.materiallaws.notch_approximation_law_seegerbeste import SeegerBeste
    warnings.simplefilter('ignore')
    laws = [('neuber', ExtendedNeuber(206e3, 1184.0, 0.187, 3.5)), ('seegerbeste', SeegerBeste(206e3, 1184.0, 0.187, 3.5))]
    bins = [2, 3, 10, 100] if ctx.tier == 'quick' else [2, 3, 5, 10, 37, 100]
    maxima = [800.0, 1234.5, 4e-9]     # the unit of the load is the user's (4e-9: added after seed C07-g compared load ranges with np.isclose)
    ctx.bound = f"laws: extended Neuber, Seeger-Beste (E=206e3, K'=1184, n'=0.187, K_p=3.5); bin counts {bins} (and 1, see finding); maxima {maxima}; loads: every class edge, every mid-class, 0, +-max, max*(1+1e-9)"
    ctx.rule = "non-trivial: load strictly inside a class or exactly on an edge other than the last; distinct by (law, bins, max, load, function)"
    ctx.exhaustive = True
    for (lname, law), nb, mx in itertools.product(laws, bins, maxima):
        if not ctx.mine():
            continue
        b = Binned(law, mx, nb)
        edges = np.arange(1, nb + 1) / nb * mx
        s_edge = np.asarray(law.stress(pd.Series(edges)), dtype=float)
        e_edge = np.asarray(law.strain(pd.Series(s_edge), pd.Series(edges)), dtype=float)
        edges2 = np.arange(1, 2 * nb + 1) / nb * mx
        ds_edge = np.asarray(law.stress_secondary_branch(pd.Series(edges2)), dtype=float)
        de_edge = np.asarray(law.strain_secondary_branch(pd.Series(ds_edge), pd.Series(edges2)), dtype=float)
        probes = [0.0]
        for i, e in enumerate(edges):
            lo = edges[i - 1] if i else 0.0
            probes += [e, (lo + e) / 2, lo + (e - lo) * 1e-9]
        for sign in (1.0, -1.0):
            for x in probes:
                x = sign * x
                cls = int(np.searchsorted(edges, abs(x)))
                want_s = np.sign(x) * s_edge[cls]
                want_e = np.sign(x) * e_edge[cls]
                got_s, got_e = float(b.stress(x)), float(b.strain(got_s := float(b.stress(x)), x))
                ctx.case(x != 0, key=(lname, nb, mx, x))
                if got_s != want_s or got_e != want_e:
                    ctx.fail(f'C07:primary:{lname}', f'{lname} n={nb} max={mx}: stress/strain({x}) = {got_s}/{got_e}, law at the class edge {edges[cls]} gives {want_s}/{want_e}',
                             {'law': lname, 'bins': nb, 'max': mx, 'load': x})
                # the wrapped law is an iterative solver (default tol = rtol = 1e-4): 'never under-estimates' can only hold up to that tolerance
                if abs(got_s) < abs(float(np.asarray(law.stress(pd.Series([abs(x), abs(x)])))[0])) * (1 - 5e-4) - 1e-3:
                    ctx.fail(f'C07:underestimate:{lname}', f'binned |stress| {got_s} below the exact law at {x}', {'law': lname, 'bins': nb, 'max': mx, 'load': x})
            # secondary branch
            for x in [0.0] + list(edges2) + [float(e) - mx / nb / 2 for e in edges2]:
                x = sign * x
                cls = int(np.searchsorted(edges2, abs(x)))
                got = float(b.stress_secondary_branch(x))
                gote = float(b.strain_secondary_branch(got, x))
                ctx.case(x != 0, key=(lname, nb, mx, x, 'sec'))
                if got != np.sign(x) * ds_edge[cls] or gote != np.sign(x) * de_edge[cls]:
                    ctx.fail(f'C07:secondary:{lname}', f'{lname} n={nb} max={mx}: secondary({x}) = {got}/{gote}, expected {np.sign(x) * ds_edge[cls]}/{np.sign(x) * de_edge[cls]}', {'law': lname, 'bins': nb, 'max': mx, 'dload': x})
        # range guard
        for fn, top in ((b.stress, mx), (b.stress_secondary_branch, 2 * mx)):
            for x in (top, -top):
                try:
                    fn(x)
                except ValueError:
                    ctx.fail(f'C07:guard-too-strict:{lname}', f'load {x} == initialised maximum raises', {'law': lname, 'bins': nb, 'max': mx})
            for x in (top * (1 + 1e-9), -top * (1 + 1e-9), 3 * top):
                try:
                    v = fn(x)
                    ctx.fail(f'C07:guard-missing:{lname}', f'load {x} above the initialised maximum {top} returns {v} instead of raising', {'law': lname, 'bins': nb, 'max': mx, 'load': x})
                except ValueError:
                    pass
            ctx.case(True, key=(lname, nb, mx, 'guard', top))
        # the same guard for loads given as a Series (added after seed C07-g snapped load ranges "close to" 2 max onto the last class in the Series branch only)
        for fname, top, second in (('stress', mx, None), ('strain', mx, 'stress'), ('stress_secondary_branch', 2 * mx, None), ('strain_secondary_branch', 2 * mx, 'stress_secondary_branch')):
            fn = getattr(b, fname)

            def call_(ser_):
                if second is None:
                    return fn(ser_)
                inner = pd.Series(np.zeros(len(ser_)), index=ser_.index)
                return fn(inner, ser_)
            for x in (top, -top):
                try:
                    call_(pd.Series([0.25 * top, x]))
                except ValueError:
                    ctx.fail(f'C07:guard-too-strict:series:{fname}:{lname}', f'{fname}(Series) with the load {x} == initialised maximum raises', {'law': lname, 'bins': nb, 'max': mx})
            for x in (float(np.nextafter(top, np.inf)), top * (1 + 1e-9), -top * (1 + 1e-6), top * (1 + 5e-6), 3 * top):
                for ser_ in (pd.Series([x]), pd.Series([0.25 * top, x, -0.5 * top])):
                    try:
                        v = call_(ser_)
                        ctx.fail(f'C07:guard-missing:series:{fname}:{lname}', f'{fname}(Series {ser_.tolist()}) with a load above the initialised maximum {top} returns {np.asarray(v).tolist()} instead of raising',
                                 {'law': lname, 'bins': nb, 'max': mx, 'load': x})
                    except ValueError:
                        pass
            ctx.case(True, key=(lname, nb, mx, 'series-guard', fname))
        # monotone
        xs = np.linspace(-mx, mx, 41)
        ys = [float(b.stress(float(x))) for x in xs]
        # ("consequently ... is monotone": a consequence of the wrapped law's own monotonicity - at loads of 1e-9 the Seeger-Beste solver's absolute tolerance 1e-4
        # makes the law's own edge values decrease, which is not Binned's doing; the premise is checked on the values the law returned for the class edges)
        if bool(np.all(np.diff(s_edge) >= 0)) and any(ys[i] > ys[i + 1] for i in range(len(ys) - 1)):
            ctx.fail(f'C07:monotone:{lname}', 'binned stress not monotone', {'law': lname, 'bins': nb, 'max': mx})
        # Series load (single point table) incl. NaN
        ser = pd.Series([0.3 * mx, -0.77 * mx, np.nan, mx])
        got = np.asarray(b.stress(ser), dtype=float)
        want = np.array([float(b.stress(0.3 * mx)), float(b.stress(-0.77 * mx)), 0.0, float(b.stress(mx))])
        if not np.array_equal(got, want):
            ctx.fail(f'C07:series:{lname}', f'Series look-up {got.tolist()} != scalar look-ups {want.tolist()}', {'law': lname, 'bins': nb, 'max': mx})
        # Series look-ups of all four functions over every class (both signs, edges, mid-class, just above an edge, NaN, 0) == the scalar look-ups element by element
        # (added after seed C07-c clamped the class index of the Series branch of strain_secondary_branch: only the first class was affected)
        pr1 = [sg * x for sg in (1.0, -1.0) for x in probes] + [np.nan]
        pr2 = [sg * x for sg in (1.0, -1.0) for x in [0.0] + list(edges2) + [float(e) - mx / nb / 2 for e in edges2] + [float(e) * (1 + 1e-9) for e in edges2[:-1]]] + [np.nan]
        for fname, prs, second in (('stress', pr1, None), ('strain', pr1, 'stress'), ('stress_secondary_branch', pr2, None), ('strain_secondary_branch', pr2, 'stress_secondary_branch')):
            ser = pd.Series(prs)
            fn = getattr(b, fname)

            def one(x):
                if np.isnan(x):
                    return 0.0
                return float(fn(x)) if second is None else float(fn(float(getattr(b, second)(x)), x))
            want = np.array([one(x) for x in prs])
            try:
                got = np.asarray(fn(ser) if second is None else fn(getattr(b, second)(ser), ser), dtype=float)
            except Exception as e:   # noqa
                ctx.fail(f'C07:series-raises:{fname}:{lname}', f'{fname}(Series) raises {type(e).__name__}: {e}', {'law': lname, 'bins': nb, 'max': mx})
                continue
            ctx.case(True, key=(lname, nb, mx, 'series', fname))
            # the labels of the load Series mean nothing for a single-point table: descending / repeated labels give the same values position by position
            # (proactive, after seeds C04-g / C10-g looked up or sorted by label)
            for iname, ix in (('descending', list(range(len(prs), 0, -1))), ('repeated', [k_ % 2 for k_ in range(len(prs))])):
                ser_v = pd.Series(prs, index=ix)
                try:
                    got_v = np.asarray(fn(ser_v) if second is None else fn(getattr(b, second)(ser_v), ser_v), dtype=float)
                except Exception as e:   # noqa
                    ctx.fail(f'C07:series-labels:raises:{fname}:{lname}', f'{fname}(Series with {iname} labels) raises {type(e).__name__}: {e}', {'law': lname, 'bins': nb, 'max': mx})
                    continue
                if not np.array_equal(got_v, got):
                    ctx.fail(f'C07:series-labels:{fname}:{lname}', f'{fname}(Series with {iname} labels) differs from the same loads with the labels 0..n-1 (n={nb}, max={mx})', {'law': lname, 'bins': nb, 'max': mx, 'labels': iname})
            if not np.array_equal(got, want):
                k_ = int(np.argmax(got != want))
                ctx.fail(f'C07:series:{fname}:{lname}', f'{fname}(Series)[{k_}] = {got[k_]} for load {prs[k_]}, the scalar look-up gives {want[k_]} (n={nb}, max={mx})', {'law': lname, 'bins': nb, 'max': mx, 'load': prs[k_]})
        # per-point tables
        ratios = [1.0, 0.6, 1.5]
        mser = pd.Series([mx * r for r in ratios], index=pd.Index([3, 1, 7], name='node_id'))
        bm = Binned(law, mser, nb)
        lut = bm._lut_primary_branch
        for node, r in zip([3, 1, 7], ratios):
            single = Binned(law, mx * r, nb)._lut_primary_branch
            sub = lut.xs(node, level='node_id')
            ctx.case(True, key=(lname, nb, mx, node))
            # loads must agree to rounding; stresses / strains come from one vectorised solver call over all points and agree with the
            # single-point call only up to the solver tolerance (1e-4): a first version demanded 1e-9 and alarmed on Seeger-Beste (secant) tables
            if not (np.allclose(sub.load.values, single.load.values, rtol=1e-13) and np.allclose(sub.stress.values, single.stress.values, rtol=5e-4, atol=1e-3)
                    and np.allclose(sub.strain.values, single.strain.values, rtol=5e-4, atol=1e-8)):
                ctx.fail(f'C07:per-point-table:{lname}', f'table of node {node} differs from the table the point gets alone', {'law': lname, 'bins': nb, 'max': mx, 'ratio': r})
        loads = pd.Series([0.4137 * mx * r for r in ratios], index=pd.MultiIndex.from_product([[0], [3, 1, 7]], names=['load_step', 'node_id']))
        gotm = np.asarray(bm.stress(loads), dtype=float)
        wantm = np.array([float(Binned(law, mx * r, nb).stress(0.4137 * mx * r)) for r in ratios])
        if not np.allclose(gotm, wantm, rtol=5e-4):
            ctx.fail(f'C07:per-point-lookup:{lname}', f'per-point look-up {gotm.tolist()} != single-point look-ups {wantm.tolist()}', {'law': lname, 'bins': nb, 'max': mx})
        # the points of a component may be loaded in opposite directions (tension / compression side): every point gets the sign of ITS load (range), in all four
        # functions (added after seed C07-f applied the first point's sign to all points)
        sgn = np.array([1.0, -1.0, 1.0])
        lm_ = pd.Series(loads.to_numpy() * sgn, index=loads.index)
        singles = [Binned(law, mx * r, nb) for r in ratios]
        for fname, fac in (('stress', 1.0), ('stress_secondary_branch', 2.0)):
            g_ = np.asarray(getattr(bm, fname)(fac * lm_), dtype=float)
            w_ = np.array([float(getattr(singles[k_], fname)(fac * float(lm_.iloc[k_]))) for k_ in range(3)])
            ctx.case(True, key=(lname, nb, mx, 'mixed-signs', fname))
            if not np.allclose(g_, w_, rtol=5e-4):
                ctx.fail(f'C07:per-point-lookup:mixed-signs:{fname}:{lname}', f'{fname} of the per-point loads {(fac * lm_).tolist()} = {g_.tolist()}, each point alone {w_.tolist()}', {'law': lname, 'bins': nb, 'max': mx})
                continue
            sfn = 'strain' if fname == 'stress' else 'strain_secondary_branch'
            ge_ = np.asarray(getattr(bm, sfn)(pd.Series(g_, index=lm_.index), fac * lm_), dtype=float)
            we_ = np.array([float(getattr(singles[k_], sfn)(w_[k_], fac * float(lm_.iloc[k_]))) for k_ in range(3)])
            if not np.allclose(ge_, we_, rtol=5e-4):
                ctx.fail(f'C07:per-point-lookup:mixed-signs:{sfn}:{lname}', f'{sfn} of the per-point loads {(fac * lm_).tolist()} = {ge_.tolist()}, each point alone {we_.tolist()}', {'law': lname, 'bins': nb, 'max': mx})
                continue
            # the per-point look-ups pair the i-th load with the i-th point of the table; the labels of the load Series carry no meaning (the docstring of
            # Binned.stress asks for a plain RangeIndex, the HCM detector passes Series labelled by load_step): a RangeIndex, one repeated load_step label and the
            # node ids listed in another order give the same values position by position (added after seed C07-h multiplied a label-indexed sign with a
            # node-indexed strain in the per-point branch of strain())
            for iname, ix in (('RangeIndex', pd.RangeIndex(3)), ('load_step label', pd.Index([7, 7, 7], name='load_step')), ('node ids in another order', pd.Index([7, 3, 1], name='node_id'))):
                lv_ = pd.Series((fac * lm_).to_numpy(), index=ix)
                ctx.case(True, key=(lname, nb, mx, 'per-point-labels', fname, iname))
                try:
                    gs_ = getattr(bm, fname)(lv_)
                    gv_ = np.asarray(gs_, dtype=float).ravel()
                    gev_ = np.asarray(getattr(bm, sfn)(gs_, lv_), dtype=float).ravel()
                except Exception as e:   # noqa
                    ctx.fail(f'C07:per-point-labels:raises:{fname}:{lname}', f'{fname} / {sfn} of per-point loads labelled by {iname} raises {type(e).__name__}: {str(e)[:150]}', {'law': lname, 'bins': nb, 'max': mx, 'labels': iname})
                    continue
                if gv_.shape != g_.shape or not np.array_equal(gv_, g_) or gev_.shape != ge_.shape or not np.array_equal(gev_, ge_):
                    ctx.fail(f'C07:per-point-labels:{sfn if np.array_equal(gv_, g_) else fname}:{lname}', f'{fname} / {sfn} of the per-point loads {lv_.tolist()} labelled by {iname}: {gv_.tolist()} / {gev_.tolist()}, labelled by the node ids {g_.tolist()} / {ge_.tolist()}',
                             {'law': lname, 'bins': nb, 'max': mx, 'labels': iname})
    # a single bin
    if ctx.shard == 0:
        for lname, law in laws:
            ctx.case(True, key=(lname, 'one-bin'))
            try:
                b1 = Binned(law, 800.0, 1)
                v = float(b1.stress(400.0))
                ref = float(np.asarray(law.stress(pd.Series([800.0, 800.0])))[0])
                if abs(v - ref) > 1e-9 * ref:
                    ctx.fail(f'C07:one-bin-value:{lname}', f'one-bin table returns {v}, law at the single edge gives {ref}', None)
            except Exception as e:   # noqa
                ctx.fail(f'C07:one-bin:{lname}', f'Binned({lname}, 800.0, number_of_bins=1) raises {type(e).__name__}: {e}',
                         "import pandas as pd\nfrom pylife.materiallaws.notch_approximation_law import ExtendedNeuber, Binned\nBinned(ExtendedNeuber(206e3, 1184.0, 0.187, 3.5), 800.0, 1)\n")
    ctx.sample({'law': 'neuber', 'bins': 3, 'max': 800.0, 'load': 300.0, 'class_edge': 533.33})


META = {
    'level': 'other',
    'explanation': "mixed. Proved for every wrapped law (four uninterpreted forward functions), every maximum load > 0 and every bin count n >= 1 (symbolic): the single-point "
                   "tables built by the real constructor (row i at load i max/n, 2n rows for ranges) and the scalar branch of all four look-ups over the assumed searchsorted "
                   "contract: value of the smallest class whose edge is >= |load| with the load's sign, 0 at 0, ValueError iff |load| > max (2 max). The consequences "
                   "(no under-estimation, monotone, error < one class, proportional points pick the same class) are lemmas. Series / per-point branches (pandas merge, MultiIndex) "
                   "are bounded.",
    'not_decided': ["Series and multi-index branches of the look-ups and per-point table construction (bounded only)",
                    "a load equal to a class edge only up to rounding may land one class higher (floats = reals)"],
    'trusted_base': ['assumed contract of searchsorted (left insertion point in a sorted array)', 'pandas table model (columns as arrays over one index)', 'floats = reals'],
}
