"""C05 - HCM stress-strain bookkeeping matches the guideline procedure, point by point."""
import z3
from pv.api import obligation
from pv.bounded import bounded

COLS = ['loads_min', 'loads_max', 'S_min', 'S_max', 'epsilon_min', 'epsilon_max', 'epsilon_min_LF', 'epsilon_max_LF']


def make_law(kind, maximum, nbins=50):
    from pylife.materiallaws.notch_approximation_law import ExtendedNeuber, Binned
    from pylife.materiallaws.notch_approximation_law_seegerbeste import SeegerBeste
    base = ExtendedNeuber(206e3, 1184.0, 0.187, 2.5) if kind == 'neuber' else SeegerBeste(206e3, 1184.0, 0.187, 2.5)
    return Binned(base, maximum, nbins)


def run_detector(seq, law):
    import numpy as np
    import pylife.stress.rainflow.fkm_nonlinear as FNM
    import pylife.stress.rainflow.recorders as RFR
    rec = RFR.FKMNonlinearRecorder()
    det = FNM.FKMNonlinearDetector(recorder=rec, notch_approximation_law=law)
    s = np.array(seq, dtype=float) if not hasattr(seq, 'index') else seq
    det.process_hcm_first(s).process_hcm_second(s)
    return rec, det


def ideal_passes(seq):
    """turning points the two passes have to process (guideline: start from zero load, the sequence twice) with the attribution of the last sample
    that the detector documents: it belongs to pass 1 iff it is a reversal of the repeated sequence and of the sequence continued with zero load"""
    from specs.rainflow_spec import TP
    from contracts.c04 import _last_is_turn_of_repeated
    n = len(seq)
    W = [0.0] + list(seq) + list(seq)
    tp = TP(W)
    periodic = _last_is_turn_of_repeated(seq)
    flush1 = periodic and _last_is_turn_of_repeated([0.0] + list(seq))
    last = n - 1
    while last > 0 and seq[last - 1] == seq[last]:
        last -= 1
    p_last = last + 1                      # position in W of the first sample of the trailing plateau of copy 1
    p1, p2 = [], []
    for p in tp:
        if p < p_last or (p == p_last and flush1):
            p1.append(W[p])
        elif p == p_last and not flush1:
            p2.append(W[p])
        elif p > n:
            # second copy: its own trailing plateau start is the closing sample, handled below
            if p == p_last + n:
                continue
            p2.append(W[p])
        else:
            p2.append(W[p])
    if periodic and flush1:
        p2.append(W[-1])                   # closing sample of pass 2 (flushed)
    elif periodic and not flush1:
        p2.append(W[-1])
    return p1, p2


class FloatLaw:
    """float view of a (Binned) notch approximation law for the oracle"""
    def __init__(self, law):
        self.law = law

    def stress(self, L):
        return float(self.law.stress(float(L)))

    def strain(self, s, L):
        return float(self.law.strain(float(s), float(L)))

    def stress_secondary_branch(self, dL):
        return float(self.law.stress_secondary_branch(float(dL)))

    def strain_secondary_branch(self, ds, dL):
        return float(self.law.strain_secondary_branch(float(ds), float(dL)))


@bounded('C05', 'bookkeeping=guideline-procedure', shards=16)
def b_bookkeeping(ctx):
    """recorder.collective (min/max load, stress, strain, running strain extremes, closed/half flag, zero-mean flag, pass number, derived amplitude / mean /
    R columns) and the visited strain values equal an independent implementation of the FKM-nonlinear HCM procedure with the same law; negating the loads
    mirrors all stresses and strains"""
    import itertools
    import warnings
    import numpy as np
    from specs.hcm_spec import HCMNonlinear
    from contracts.c04 import classify
    warnings.simplefilter('ignore')
    vals = [-300.0, -200.0, -100.0, 0.0, 100.0, 200.0, 300.0]
    maxlen = 4 if ctx.tier == 'quick' else 5
    extra = [[100, 0, 80, 20, 60, 40], [100, -200, 300, -100, 200, -300], [200, 600, 1000, 60, 1500, 200, 80, 400, 1500, 700, 200], [100, -200, 100, -250, 200, 0, 200, -200],
             [300, -300, 200, -100, 250, -250, 100], [50, 150, -150, 300, -300, 300, -100]]
    laws = ['neuber'] if ctx.tier == 'quick' else ['neuber', 'seegerbeste']
    ctx.bound = f"all sequences over {{-300..300 step 100}} with >= 2 distinct values, length 2..{maxlen}, plus {len(extra)} longer ones incl. the guideline examples; laws {laws} behind Binned (50 classes)"
    ctx.rule = "non-trivial: at least one closed hysteresis and one Memory 2 or Memory 3 event; distinct by (law, sequence)"
    ctx.exhaustive = True
    seqs = [list(s) for L in range(2, maxlen + 1) for s in itertools.product(vals, repeat=L) if len(set(s)) >= 2] + [[float(v) for v in s] for s in extra]
    for lawname in laws:
        for seq in seqs:
            if not ctx.mine():
                continue
            if classify(seq) == 'last-reversal-deferred-to-pass-2':
                ctx.count('skipped: known C04 junction finding (last reversal deferred to pass 2)')
                continue
            mx = max(abs(v) for v in seq) * 1.0
            law = make_law(lawname, mx)
            rec, det = run_detector(seq, law)
            c = rec.collective
            o = HCMNonlinear(FloatLaw(law))
            p1, p2 = ideal_passes(seq)
            o.run_pass(p1)
            n1 = len(o.strains)
            o.run_pass(p2)
            rows = o.rows
            ctx.case(any(r['is_closed_hysteresis'] for r in rows) and any(not r['is_closed_hysteresis'] for r in rows), key=(lawname, tuple(seq)))
            bad = None
            if len(c) != len(rows):
                bad = f'{len(c)} hystereses recorded, the procedure yields {len(rows)}'
            else:
                for i, r in enumerate(rows):
                    for col in COLS:
                        g = float(c[col].iloc[i])
                        if abs(g - r[col]) > 1e-9 * max(1.0, abs(r[col])):
                            bad = f'hysteresis {i}: {col} = {g}, procedure gives {r[col]}'
                            break
                    if bad:
                        break
                    if bool(c.is_closed_hysteresis.iloc[i]) != r['is_closed_hysteresis'] or int(c.run_index.iloc[i]) != r['run_index'] \
                            or bool(c.is_zero_mean_stress_and_strain.iloc[i]) != r['is_zero_mean_stress_and_strain']:
                        bad = f'hysteresis {i}: flags closed/zero-mean/run = {bool(c.is_closed_hysteresis.iloc[i])}/{bool(c.is_zero_mean_stress_and_strain.iloc[i])}/{int(c.run_index.iloc[i])}, procedure {r["is_closed_hysteresis"]}/{r["is_zero_mean_stress_and_strain"]}/{r["run_index"]}'
                        break
                    # derived columns
                    Sa, Sm = (r['S_max'] - r['S_min']) / 2, (0.0 if r['is_zero_mean_stress_and_strain'] else (r['S_min'] + r['S_max']) / 2)
                    ea, em = (r['epsilon_max'] - r['epsilon_min']) / 2, (0.0 if r['is_zero_mean_stress_and_strain'] else (r['epsilon_min'] + r['epsilon_max']) / 2)
                    for col, w in (('S_a', Sa), ('S_m', Sm), ('epsilon_a', ea), ('epsilon_m', em)):
                        if abs(float(c[col].iloc[i]) - w) > 1e-9 * max(1.0, abs(w)):
                            bad = f'hysteresis {i}: derived column {col} = {float(c[col].iloc[i])}, expected {w}'
                    if not bad:
                        wantR = -1.0 if r['is_zero_mean_stress_and_strain'] else (r['S_min'] / r['S_max'] if r['S_max'] != 0 else None)
                        if wantR is not None and abs(float(c['R'].iloc[i]) - wantR) > 1e-9 * max(1.0, abs(wantR)):
                            bad = f'hysteresis {i}: R = {float(c["R"].iloc[i])}, expected {wantR}'
                    if bad:
                        break
            if not bad:
                sv = np.asarray(det.strain_values, dtype=float)
                if len(sv) != len(o.strains) or not np.allclose(sv, o.strains, rtol=1e-9, atol=1e-15):
                    bad = f'visited strain values {sv.tolist()} differ from the procedure {o.strains}'
                elif len(det.strain_values_first_run) != n1:
                    bad = f'{len(det.strain_values_first_run)} strain values attributed to the first run, procedure {n1}'
            if bad:
                ctx.fail(f'C05:bookkeeping:{lawname}', f'{lawname}, sequence {seq}: {bad}',
                         {'law': lawname, 'sequence': seq, 'turning_points_pass1': p1, 'turning_points_pass2': p2})
                continue
            # negation mirrors stresses and strains (same law object: odd)
            recn, detn = run_detector([-v for v in seq], law)
            cn = recn.collective
            okn = len(cn) == len(c) and np.allclose(cn.S_min.astype(float), -c.S_max.astype(float), rtol=1e-12, atol=1e-12) \
                and np.allclose(cn.S_max.astype(float), -c.S_min.astype(float), rtol=1e-12, atol=1e-12) \
                and np.allclose(cn.epsilon_min.astype(float), -c.epsilon_max.astype(float), rtol=1e-12, atol=1e-15) \
                and np.allclose(cn.epsilon_max.astype(float), -c.epsilon_min.astype(float), rtol=1e-12, atol=1e-15) \
                and np.allclose(np.asarray(detn.strain_values, dtype=float), -np.asarray(det.strain_values, dtype=float), rtol=1e-12, atol=1e-15)
            if not okn:
                ctx.fail(f'C05:negation:{lawname}', f'{lawname}: negating {seq} does not mirror stresses / strains', {'law': lawname, 'sequence': seq})
    ctx.sample({'sequence': [100.0, 0.0, 80.0, 20.0, 60.0, 40.0], 'law': 'neuber', 'passes': ideal_passes([100.0, 0.0, 80.0, 20.0, 60.0, 40.0])})


@bounded('C05', 'multi-point=single-point', shards=8)
def b_multipoint(ctx):
    """several assessment points with proportional load histories processed at once: every point gets exactly the values it gets when processed alone
    (all columns of the collective and the strain values of the first point)"""
    import itertools
    import warnings
    import numpy as np
    import pandas as pd
    warnings.simplefilter('ignore')
    seqs = [[100, 0, 80, 20, 60, 40], [100, -200, 300, -100, 200, -300], [200, -100, 250, -250, 0, 150], [-50, 300, -300, 100, -200, 200, 0],
            [100, 200, 300, -300, 0, 100], [300, 300, -100, 200, 200, -300]]
    if ctx.tier == 'thorough':
        seqs += [[50, 150, -150, 300, -300, 300, -100], [200, 600, 1000, 60, 1500, 200, 80, 400, 1500, 700, 200], [100, -100, 100, -100, 300, -300]]
    ratio_sets = [(1.0,), (1.0, 0.5), (1.0, 2.0, 3.0), (0.5, 1.0, 2.0), (2.0, 0.5)]
    ctx.bound = f"{len(seqs)} sequences x point sets with load ratios {ratio_sets} x laws neuber (+ seegerbeste in thorough) x node ids ascending / not ascending / rows listed point by point"
    ctx.rule = "non-trivial: >= 2 points with different ratios; distinct by (sequence, ratios, law)"
    laws = ['neuber'] if ctx.tier == 'quick' else ['neuber', 'seegerbeste']
    # the labels of the points are bookkeeping: ids 0..n-1 in order, and ids that are not listed in ascending order (13, 11, 12, ...: a filtered / joined mesh) -
    # added after seed C05-d re-sorted the signal of the first pass by node id
    for lawname, seq, ratios, labelling in itertools.product(laws, seqs, ratio_sets, ('ascending', 'unordered', 'point-by-point')):
        if not ctx.mine():
            continue
        if labelling != 'ascending' and len(ratios) < 2:
            continue
        seq = [float(v) for v in seq]
        nodes = list(range(len(ratios))) if labelling != 'unordered' else [13, 11, 12, 10][:len(ratios)]
        idx = pd.MultiIndex.from_product([range(len(seq)), nodes], names=['load_step', 'node_id'])
        loads = pd.Series([v * r for v in seq for r in ratios], index=idx)
        if labelling == 'point-by-point':
            # the same index and data, the rows listed point by point (what pd.concat of per-point histories gives) - added after seed C05-f took every n-th row as the
            # first point's history
            loads = pd.concat({nd: pd.Series([v * r for v in seq], index=pd.Index(range(len(seq)), name='load_step')) for nd, r in zip(nodes, ratios)}, names=['node_id', 'load_step']).swaplevel()
        maxima = pd.Series([max(abs(v) for v in seq) * r for r in ratios], index=pd.Index(nodes, name='node_id'))
        law_m = make_law(lawname, maxima)
        ctx.case(len(set(ratios)) > 1, key=(lawname, tuple(seq), ratios, labelling))
        try:
            rec, det = run_detector(loads, law_m)
        except Exception as e:   # noqa
            ctx.fail(f'C05:multi-point-raises:{type(e).__name__}', f'multi-point run raises {type(e).__name__}: {e} for {seq} x {ratios}, node ids {nodes}', {'sequence': seq, 'ratios': ratios, 'node_ids': nodes})
            continue
        cm = rec.collective
        for node, r in zip(range(len(nodes)), ratios):        # the collective numbers the points by position (assessment_point_index)
            law_s = make_law(lawname, max(abs(v) for v in seq) * r)
            recs, dets = run_detector([v * r for v in seq], law_s)
            cs = recs.collective
            sub = cm.xs(node, level='assessment_point_index') if 'assessment_point_index' in cm.index.names else cm
            bad = None
            if len(sub) != len(cs):
                bad = f'{len(sub)} hystereses in the batch, {len(cs)} alone'
            else:
                for col in COLS + ['S_a', 'S_m', 'epsilon_a', 'epsilon_m', 'R']:
                    a, b = np.asarray(sub[col], dtype=float), np.asarray(cs[col], dtype=float)
                    # mean values are differences of two values carrying the solver tolerance: absolute tolerance on the scale of the column's family
                    # (a first version used atol=1e-9 and alarmed on S_m = 0.0 vs 7e-9 with the Seeger-Beste law, thorough tier)
                    scale = float(np.nanmax(np.abs(np.asarray(cs['S_max' if col.startswith('S') else ('epsilon_max' if col.startswith('eps') else col)], dtype=float)))) if col != 'R' else 0.0
                    if not np.allclose(a, b, rtol=5e-4, atol=1e-9 + 1e-6 * scale, equal_nan=True):
                        bad = f'column {col}: batch {a.tolist()} vs alone {b.tolist()}'
                        break
                for col in ('is_closed_hysteresis', 'run_index', 'is_zero_mean_stress_and_strain'):
                    if not bad and list(sub[col]) != list(cs[col]):
                        bad = f'column {col}: batch {list(sub[col])} vs alone {list(cs[col])}'
            if bad:
                ctx.fail(f'C05:multi-point:{lawname}', f'{lawname}: point {node} (ratio {r}) of {seq} x {ratios}, node ids {nodes}: {bad}', {'sequence': seq, 'ratios': ratios, 'node': node, 'node_ids': nodes})
            # "the visited strain values agree as well": the detector's strain value lists are those of the first listed point (added after seed C05-g took the strain
            # of the LAST point at the turning points that set a new absolute maximum)
            if node == 0:
                for attr in ('strain_values', 'strain_values_first_run', 'strain_values_second_run'):
                    a, b = np.asarray(getattr(det, attr), dtype=float).ravel(), np.asarray(getattr(dets, attr), dtype=float).ravel()
                    sc_ = float(np.max(np.abs(b))) if len(b) else 0.0
                    if len(a) != len(b) or not np.allclose(a, b, rtol=5e-4, atol=1e-12 + 1e-6 * sc_, equal_nan=True):
                        ctx.fail(f'C05:multi-point:{attr}:{lawname}', f'{lawname}: {attr} of the batch {seq} x {ratios} (node ids {nodes}) = {a.tolist()}, the first point alone visits {b.tolist()}',
                                 {'sequence': seq, 'ratios': ratios, 'node_ids': nodes})
                        break
    ctx.sample({'sequence': [100, 0, 80, 20, 60, 40], 'ratios': (1.0, 2.0, 3.0)})



# ---------------------------------------------------------------------------------------------
# P: the control skeleton of the HCM step against the guideline's decision table
# ---------------------------------------------------------------------------------------------
FN = 'pylife/stress/rainflow/fkm_nonlinear.py::FKMNonlinearDetector'


class Ghost:
    """stateless opaque value: attribute / item access, calls and arithmetic yield opaque values again (message strings, point histories, pandas objects)"""
    pv_stateless = True

    def __init__(self, tag):
        self.tag = tag

    def pv_getattr(self, attr):
        return Ghost(f'{self.tag}.{attr}')

    def pv_getitem(self, idx):
        return Ghost(f'{self.tag}[]')

    def pv_binop(self, other):
        return self

    def __call__(self, *a, **k):
        return Ghost(f'{self.tag}()')

    def __repr__(self):
        return f'Ghost({self.tag})'


class Point(Ghost):
    """a point of the stress-strain path: only its representative load is visible to the control skeleton"""
    def __init__(self, tag, load=None):
        super().__init__(tag)
        self.load = load

    def pv_getattr(self, attr):
        if attr == 'load_representative' and self.load is not None:
            from pv.sym import SV
            return SV(self.load)
        return Ghost(f'{self.tag}.{attr}')


class Residuals(Ghost):
    def __init__(self, p0, p1):
        super().__init__('residuals')
        self.p0, self.p1 = p0, p1

    def pv_getitem(self, idx):
        if idx == -1:
            return self.p1
        if idx == -2:
            return self.p0
        raise KeyError(idx)


@obligation('C05', 'hcm.sample.step=decision-table', functions=[FN + '._hcm_process_sample'])
def hcm_step(o):
    """control skeleton of FKMNonlinearDetector._hcm_process_sample, one pass through its loop from an arbitrary state (IZ, IR, largest |load| so far, current load L,
    loads L0 / L1 of the two topmost residuals), with the six handlers replaced by event-logging contracts: the handler chosen is the one the guideline's decision
    table allows (a i / Memory 3: IZ = IR and |L| exceeds the largest load; a ii: IZ = IR otherwise; b: IZ < IR; c i: IZ > IR and |L - L1| < |L1 - L0|; c ii: IZ > IR
    otherwise, closing the hysteresis (residual[-2], residual[-1])), after c ii the rule is applied again (Memory 2) only if both points lie strictly inside the largest
    load and the primary branch is resumed (Memory 1) only if not; IR is raised exactly with Memory 3, IZ drops by two exactly with a closed hysteresis; comparisons
    are the guideline's up to the code's absolute tolerance of 1e-12"""
    from pv.interp import Obj
    from pv.sym import SV, RV
    cls = o.cls(FN)
    L, mx, L0, L1 = o.reals('L load_max_seen L0 L1')
    iz0, ir0 = o.int('iz'), o.int('ir')
    o.assume(mx >= 0, ir0 >= 1, iz0 >= 0)
    tol = RV(1e-12)
    P = FN + '._hcm_process_sample'
    G = {}

    def logger(name, ret):
        def apply(I, args, kw):
            I.path.ghost_log.append((name, kw))
            return ret(kw)
        return apply
    o.spec(FN + '._handle_case_a_i', logger('a_i', lambda kw: (Point('point<-a_i'), Ghost('recording<-a_i'))))
    o.spec(FN + '._handle_case_a_ii', logger('a_ii', lambda kw: Point('point<-a_ii')))
    o.spec(FN + '._handle_case_b', logger('b', lambda kw: Point('point<-b')))
    o.spec(FN + '._handle_case_c_i', logger('c_i', lambda kw: Point('point<-c_i')))
    o.spec(FN + '._handle_case_c_ii', logger('c_ii', lambda kw: Ghost('recording<-c_ii')))
    o.spec(FN + '._proceed_on_primary_branch', logger('primary', lambda kw: Point('point<-primary')))
    o.loop(P, 0, lambda v: z3.BoolVal(True))
    o.skip_kinds = {'inv-init', 'inv-preserve', 'variant'}

    def thunk():
        o.I.path.ghost_log = []
        p0, p1 = Point('residual[-2]', L0), Point('residual[-1]', L1)
        det = Obj(cls)
        det.fields.update({'_residuals': Residuals(p0, p1), '_hcm_message': Ghost('message'), '_hcm_point_history': Ghost('history'), '_strain_values': Ghost('strain_values'),
                           '_run_index': SV(o.I.fresh('run_index', 'int')), '_n_strain_values_first_run': SV(o.I.fresh('n_strain', 'int')), '_hysteresis_index': SV(o.I.fresh('hyst', 'int'))})
        G['p0'], G['p1'] = p0, p1
        o.I.path.ghost_pts = (p0, p1)
        return o.I.call(o.method(det, '_hcm_process_sample'), [], dict(current_point=Point('current'), recording_lists=Ghost('recording0'), largest_point=Point('largest'),
                                                                    iz=SV(iz0), ir=SV(ir0), load_max_seen=SV(mx), current_load_representative=SV(L)))
    ps = o.paths(thunk)

    def ab(x):
        return z3.If(x >= 0, x, -x)
    clauses = {}

    def clause(label, pc, goal):
        clauses.setdefault(label, []).append(z3.Implies(z3.And(*pc) if pc else z3.BoolVal(True), goal if z3.is_expr(goal) else z3.BoolVal(bool(goal))))
    def has(kw, obj):
        return any(v is obj for v in kw.values())
    shapes = []
    for p in ps:
        if p.kind not in ('return', 'end'):
            shapes.append(('?', p.kind))
            clause('no exception in the control skeleton', p.pc, False)
            continue
        S = p.loop_start
        iz, ir = S['iz'], S['ir']
        ev = [e[0] for e in p.ghost_log]
        kws = [e[1] for e in p.ghost_log]
        p0, p1 = p.ghost_pts
        cont = p.kind == 'end'
        shapes.append((tuple(ev), 'continue' if cont else 'exit'))
        allowed = {('a_i',): z3.And(iz == ir, ab(L) > mx), ('a_ii',): z3.And(iz == ir, ab(L) <= mx + tol), ('b',): iz < ir,
                   ('c_i',): z3.And(iz > ir, ab(L - L1) < ab(L1 - L0)),
                   ('c_ii',): z3.And(iz > ir, ab(L - L1) >= ab(L1 - L0) - tol, ab(L0) < mx, ab(L1) < mx),
                   ('c_ii', 'primary'): z3.And(iz > ir, ab(L - L1) >= ab(L1 - L0) - tol, z3.Not(z3.And(ab(L0) < mx - tol, ab(L1) < mx - tol)))}
        key = tuple(ev)
        clause('the handlers called form one row of the decision table', p.pc, key in allowed and (cont == (key == ('c_ii',))))
        if key not in allowed:
            continue
        clause('the row taken is one the guideline allows for the state (comparisons up to 1e-12)', p.pc, allowed[key])
        if cont:
            E = p.loop_end
            iz2, ir2 = E['iz'], E['ir']
        else:
            ret = p.result
            iz2, ir2 = ret[1].t, ret[2].t
        clause('IR is raised by one exactly with Memory 3 (a i)', p.pc, ir2 == (ir + 1 if key == ('a_i',) else ir))
        clause('IZ drops by two exactly when a hysteresis is closed (c ii)', p.pc, iz2 == (iz - 2 if key[0] == 'c_ii' else iz))
        if key[0] == 'c_ii':
            # (by object identity, not by keyword name: renaming the handler's parameters must not alarm - found by a harmless-refactoring run)
            clause('c ii closes the hysteresis of the two topmost residuals', p.pc, has(kws[0], p0) and has(kws[0], p1))
        if key[0] in ('a_i', 'a_ii'):
            clause('a i / a ii continue from the topmost residual', p.pc, has(kws[0], p1) and not has(kws[0], p0))
        if key[0] == 'c_i':
            clause('c i hangs the new branch at the topmost residual', p.pc, has(kws[0], p1) and not has(kws[0], p0))
        if not cont:
            want_point = {'a_i': 'point<-a_i', 'a_ii': 'point<-a_ii', 'b': 'point<-b', 'c_i': 'point<-c_i', 'primary': 'point<-primary'}[key[-1]]
            want_rec = 'recording<-a_i' if key == ('a_i',) else ('recording<-c_ii' if key[0] == 'c_ii' else 'recording0')
            clause('the point and the recording lists returned are those of the last handler', p.pc,
                   getattr(ret[0], 'tag', None) == want_point and getattr(ret[3], 'tag', None) == want_rec)
    want_shapes = {(('a_i',), 'exit'), (('a_ii',), 'exit'), (('b',), 'exit'), (('c_i',), 'exit'), (('c_ii',), 'continue'), (('c_ii', 'primary'), 'exit')}
    o.shape('every row of the decision table is reachable and nothing else is', set(shapes) == want_shapes, sorted(map(str, set(shapes) ^ want_shapes)))
    for label, fs in clauses.items():
        o.prove(label, z3.And(*fs), kind='refine')
    o.canary('canary: Memory 2 is never taken', z3.BoolVal(not any(s_[1] == 'continue' for s_ in shapes)))
    o.trusted("contracts of the six handlers (_handle_case_a_i/a_ii/b/c_i/c_ii, _proceed_on_primary_branch): they compute stresses / strains and record, and do not touch IZ, IR or the loop control; checked only by the bounded stand-in")
    o.note(f"{len(ps)} paths through the loop body; residual stack, message strings and point history are ghost values")


META = {
    'level': 'other',
    'explanation': "mixed. Proved: the control skeleton of the HCM step (FKMNonlinearDetector._hcm_process_sample, its real loop body run from an arbitrary state with the six "
                   "handlers replaced by event-logging contracts) takes exactly the row of the guideline's decision table that the state allows - Memory 1 / 2 / 3, which residuals "
                   "form the closed hysteresis, IR raised only with Memory 3, IZ lowered by two only with a closed hysteresis. Bounded stand-in (labelled) for the whole-history "
                   "statement: the recorder output of the real detector is compared column by column with an independent executable implementation of the guideline's HCM "
                   "procedure (primary branch, Masing secondary branches, Memory 1-3, running strain extremes) using the same law object, for every sequence up to the stated "
                   "length; batches of proportional points against single-point runs.",
    'not_decided': ['sequences / batches beyond the bound', 'the handlers themselves (stress / strain values, recording lists): bounded only',
                    'sequences that fall under the C04 junction finding are skipped and counted'],
    'trusted_base': ['independent oracle specs/hcm_spec.HCMNonlinear', 'assumed frame contracts of the six handlers'],
}
