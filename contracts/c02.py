"""C02 - detectors realise the four-point rainflow definition and lose no turning point."""
import z3
from pv.api import obligation
from pv.bounded import bounded
from pv.sym import SV, RV
from pv.interp import SArr
from contracts.rainflow_common import (EXT, FKM, GEN, absz, closes, sel, fourpoint_inputs, fourpoint_invariant, fourpoint_variant)


@obligation('C02', 'fourpoint_loop.kernel', functions=[EXT + 'fourpoint_loop'])
def fourpoint_kernel(o):
    """memory safety of the unchecked memoryview accesses, size_t ranges, termination, and the postcondition:
    2 t + |residual| = n (every turning point used exactly once), residual positions strictly increasing,
    residual stack irreducible under the four-point rule, every reported (value, index) pair consistent"""
    turns, tidx = fourpoint_inputs(o)
    n = turns.n
    signal = z3.Array('signal', z3.IntSort(), z3.RealSort())
    k = z3.Int('k_')
    # value/index consistency of the input (established by the caller, see C01 glue obligations)
    o.assume(z3.ForAll([k], z3.Implies(z3.And(k >= 0, k < n), z3.Select(turns.a, k) == z3.Select(signal, z3.Select(tidx.a, k)))))
    o.loop(EXT + 'fourpoint_loop', 0, fourpoint_invariant(turns, tidx, signal), fourpoint_variant(turns))
    f = o.func(EXT + 'fourpoint_loop')
    ps = o.paths(lambda: o.I.call(f, [turns, tidx]))
    rets = [p for p in ps if p.kind == 'return']
    for p in ps:
        if p.kind == 'raise':
            o.prove(f'no exception path (line {p.exc.lineno})', z3.BoolVal(False), under=p.pc, kind='no-raise')
        o.take_side_obligations(p, 'fourpoint_loop')
    o.shape('the kernel has exactly one returning path', len(rets) == 1, [p.kind for p in ps])
    p = rets[0]
    fv, tv, fi, ti, res = p.result
    j = z3.Int('j_')
    t = fv.n
    ri = res.n
    o.prove('post: 2 * cycles + |residual| == n', 2 * t + ri == n, under=p.pc)
    o.prove('post: all four output arrays have the same length', z3.And(tv.n == t, fi.n == t, ti.n == t), under=p.pc)
    o.prove('post: residual positions strictly increasing and in range',
            z3.ForAll([j], z3.Implies(z3.And(j >= 0, j < ri), z3.And(sel(res, j) >= 0, sel(res, j) < n,
                                                                     z3.Implies(j + 1 < ri, sel(res, j) < sel(res, j + 1))))), under=p.pc)
    o.prove('post: residual is irreducible under the four-point rule',
            z3.ForAll([j], z3.Implies(z3.And(j >= 0, j + 3 < ri),
                                      z3.Not(closes(z3.Select(turns.a, sel(res, j)), z3.Select(turns.a, sel(res, j + 1)),
                                                    z3.Select(turns.a, sel(res, j + 2)), z3.Select(turns.a, sel(res, j + 3)))))), under=p.pc)
    o.prove('post: every reported index addresses a sample whose value is the reported value',
            z3.ForAll([j], z3.Implies(z3.And(j >= 0, j < t), z3.And(sel(fv, j) == z3.Select(signal, sel(fi, j)),
                                                                    sel(tv, j) == z3.Select(signal, sel(ti, j))))), under=p.pc)
    o.prove('post: first two residual entries are positions 0 and 1 or the stack shrank', ri >= 1, under=p.pc)
    o.canary('canary: residual always has at least 3 entries', ri >= 3, under=p.pc)
    o.trusted("C double = real, fabs = |.|, contiguous buffers, array lengths < 2^63 (dropped by the .pyx stripping, DESIGN 2.1)")


def len_(x):
    from pv.interp import PList
    if isinstance(x, PList):
        return z3.IntVal(len(x.items))
    return x.n


@obligation('C02', 'threepoint_loop.kernel', functions=[EXT + 'threepoint_loop', EXT + '_max'])
def threepoint_kernel(o):
    """memory safety of the unchecked accesses, size_t ranges, termination and accounting 2 t + |residual| = n"""
    turns = o.array('turns', 'real', unchecked=True)
    n = turns.n
    tidx = SArr(z3.Array('turns_index', z3.IntSort(), z3.IntSort()), n, 'uint', 'ndarray', True)
    hf, lf, rl = o.ints('highest_front lowest_front residual_length')
    k = z3.Int('k_')
    o.assume(n >= 2, rl >= 1, rl <= n, hf >= 0, hf < rl, lf >= 0, lf < rl)
    o.assume(z3.ForAll([k], z3.Implies(z3.And(k >= 0, k < n), z3.Select(tidx.a, k) >= 0)))
    signal = z3.Array('signal', z3.IntSort(), z3.RealSort())
    o.assume(z3.ForAll([k], z3.Implies(z3.And(k >= 0, k < n), z3.Select(turns.a, k) == z3.Select(signal, z3.Select(tidx.a, k)))))

    def inv(v):
        ri, t, back = v.ri, v.t, v.back
        R = v.residual_index_v
        j = z3.Int('j!inv')
        return z3.And(ri >= 0, ri <= back, back >= 2, back <= n, t >= 0, 2 * t + ri == back, v.len_turns == n,
                      v.highest_front >= 0, v.highest_front < n, v.lowest_front >= 0, v.lowest_front < n,
                      z3.ForAll([j], z3.Implies(z3.And(j >= 0, j < ri), z3.And(sel(R, j) >= 0, sel(R, j) < back))),
                      z3.ForAll([j], z3.Implies(z3.And(j >= 0, j < ri - 1), sel(R, j) < sel(R, j + 1))),
                      z3.ForAll([j], z3.Implies(z3.And(j >= 0, j < t), z3.And(
                          sel(v.from_vals_v, j) == z3.Select(signal, sel(v.from_index_v, j)),
                          sel(v.to_vals_v, j) == z3.Select(signal, sel(v.to_index_v, j))))))
    o.loop(EXT + 'threepoint_loop', 0, inv, lambda v: 2 * (n - v.back) + v.ri)
    f = o.func(EXT + 'threepoint_loop')
    ps = o.paths(lambda: o.I.call(f, [turns, tidx, SV(hf), SV(lf), SV(rl)]))
    rets = [p for p in ps if p.kind == 'return']
    for p in ps:
        if p.kind == 'raise':
            o.prove(f'no exception path ({p.exc.exc_type}, line {p.exc.lineno})', z3.BoolVal(False), under=p.pc, kind='no-raise')
        o.take_side_obligations(p, 'threepoint_loop')
    o.shape('the kernel has exactly one returning path', len(rets) == 1, [(p.kind, getattr(p.exc, 'lineno', None)) for p in ps])
    p = rets[0]
    fv, tv, fi, ti, res = p.result
    j = z3.Int('j_')
    o.prove('post: 2 * cycles + |residual| == n', 2 * fv.n + res.n == n, under=p.pc)
    o.prove('post: residual positions strictly increasing and in range',
            z3.ForAll([j], z3.Implies(z3.And(j >= 0, j < res.n), z3.And(sel(res, j) >= 0, sel(res, j) < n,
                                                                       z3.Implies(j + 1 < res.n, sel(res, j) < sel(res, j + 1))))), under=p.pc)
    o.prove('post: every reported index addresses a sample whose value is the reported value',
            z3.ForAll([j], z3.Implies(z3.And(j >= 0, j < fv.n), z3.And(sel(fv, j) == z3.Select(signal, sel(fi, j)),
                                                                       sel(tv, j) == z3.Select(signal, sel(ti, j))))), under=p.pc)
    o.canary('canary: no cycle is ever closed', fv.n == 0, under=p.pc)
    o.trusted("C double = real, fabs = |.|, contiguous buffers, array lengths < 2^63 (dropped by the .pyx stripping, DESIGN 2.1)")
    o.note("no refinement claim for the three-point rule (front guard): equivalence with the four-point result is bounded only")



@obligation('C02', 'kernels.c-types', functions=[EXT + 'fourpoint_loop', EXT + 'threepoint_loop', EXT + '_max'])
def kernel_ctypes(o):
    """static obligation behind 'C double = real': every floating-point local and memoryview of the compiled kernels is declared `double` (no narrowing to `float`:
    the comparisons of the four-point / three-point rule would be carried out with 24 bit mantissas on 64 bit turning points), every index / counter is declared
    size_t or Py_ssize_t (the range obligations of the kernel generators are stated for those types)"""
    from pv import extract
    mod = extract.load_module('pylife.stress.rainflow.extension')
    table = mod.pyx_meta.get('ctypes', {})
    o.shape('the C type declarations of both kernels were extracted', all(f in table and len(table[f]) >= 5 for f in ('fourpoint_loop', 'threepoint_loop')), sorted(table))
    for fn in ('fourpoint_loop', 'threepoint_loop', '_max'):
        decl = table.get(fn, {})
        floats = {v: t for v, t in decl.items() if any(w in t for w in ('double', 'float'))}
        ints = {v: t for v, t in decl.items() if v not in floats}
        o.prove(f'{fn}: every floating-point variable is declared double ({len(floats)} declarations)', z3.BoolVal(all(t.replace('[]', '').strip() == 'double' for t in floats.values())), kind='ctype')
        o.prove(f'{fn}: every integer variable is declared size_t or Py_ssize_t ({len(ints)} declarations)',
                z3.BoolVal(all(t.replace('[]', '').strip() in ('size_t', 'Py_ssize_t') for t in ints.values())), kind='ctype')
    o.note("declared types: " + "; ".join(f"{fn}: " + ", ".join(f"{v}:{t}" for v, t in sorted(table.get(fn, {}).items())) for fn in ('fourpoint_loop', 'threepoint_loop', '_max')))


@obligation('C02', 'fkm.process.loop', functions=[FKM + '.process'])
def fkm_process(o):
    """FKMDetector.process: no IndexError (pop / [-1] / [-2] only on long enough residual lists), the primary-path counter stays >= 1,
    from/to lists stay equally long, inner loop terminates, and the loop state closure self._ir == ir, self._max_turn == max_turn"""
    from pv.interp import Obj, Opaque, Spec
    cls = o.cls(FKM)
    det = Obj(cls)
    res = o.array('residuals0', 'real', kind='list')
    ir0 = o.int('ir0')
    mt0 = o.real('max_turn0')
    o.assume(ir0 >= 1, mt0 >= 0)
    init = {'_ir': SV(ir0), '_residuals': res, '_max_turn': SV(mt0), '_recorder': Opaque(('external', 'recorder'))}
    det.fields.update(init)
    o.track(det)
    turns = o.array('turns', 'real')
    tix = o.array('turns_index', 'int', n=turns.n)
    # _new_turns is replaced by its contract: returns (indices, values) of equal length (C01 glue obligations)
    o.spec(GEN + 'AbstractDetector._new_turns', lambda I, args, kw: (tix, turns))
    P = FKM + '.process'

    def base(v):
        return z3.And(v.ir >= 1, len_(v.from_vals) == len_(v.to_vals), len_(v.from_vals) >= 0, v.max_turn >= 0, v['self._residuals'].n >= 0)

    def mirrored(v):
        return z3.And(base(v), v['self._ir'] == v.ir, v['self._max_turn'] == v.max_turn)

    def inner(v):
        return z3.And(v.ir >= 1, len_(v.from_vals) == len_(v.to_vals), v.max_turn >= 0, v['self._residuals'].n >= 0)
    o.loop(P, 1, inner, lambda v: z3.If(v.loop_assumed, v['self._residuals'].n + 1, z3.IntVal(0)))
    qual = 'pylife.stress.rainflow.fkm::FKMDetector.process'

    def closure_goals(ps):
        out = []
        for p in ps:
            if p.kind == 'return':
                st = p.return_states.get(qual)
                if st is None or 'ir' not in st or 'self._ir' not in st:
                    raise Unbound('no exit state of FKMDetector.process with ir / self._ir')
                out.append(z3.Implies(z3.And(*p.pc) if p.pc else z3.BoolVal(True), z3.And(st['self._ir'] == st['ir'], st['self._max_turn'] == st['max_turn'])))
        return out

    # Two candidate invariants for the outer loop (the statement to prove is about the EXIT state: the fields hold the final IR and largest |turn|):
    # "fields mirror the locals at every loop head" fits code that writes the fields back in every iteration, the plain one fits code that writes them back once after
    # the loop.  The first candidate under which the write-back obligation holds is used (a first version demanded the mirrored invariant and alarmed on a harmless
    # hoisting of the two assignments out of the loop).
    from pv.api import check_sat
    chosen = None
    for cand in (mirrored, base):
        o.loop(P, 0, cand)
        n_items = len(o.items)
        det.fields.clear()
        det.fields.update(init)          # the receiver as the contract describes it (an exploration leaves the last path's state in it)
        ps = o.paths(lambda: o.I.call(o.method(det, 'process'), [Opaque('samples')]))
        goals = closure_goals(ps)
        ok = bool(goals)
        for g in goals + [z3.Implies(z3.And(*ob.hyps) if ob.hyps else z3.BoolVal(True), ob.goal) for p in ps for ob in p.obs if ob.kind == 'inv-preserve' and '#loop0' in ob.label]:
            st, _, _, _ = check_sat(list(o.hyps) + [z3.Not(g)], timeout_ms=5000, use_cvc5=False)
            if st != 'unsat':
                ok = False
                break
        if ok or cand is base:
            chosen = cand if ok else None
            break
        del o.items[n_items:]
    if chosen is None:
        # neither candidate carries the write-back: report against the mirrored one (the form of the reference tree)
        o.loop(P, 0, mirrored)
        det.fields.clear()
        det.fields.update(init)
        ps = o.paths(lambda: o.I.call(o.method(det, 'process'), [Opaque('samples')]))
        goals = closure_goals(ps)
    for p in ps:
        if p.kind == 'raise':
            o.prove(f'no exception path ({p.exc.exc_type}, line {p.exc.lineno})', z3.BoolVal(False), under=p.pc, kind='no-raise')
        o.take_side_obligations(p, 'process')
    o.prove('write-back: when process returns the fields hold the final IR and the final largest |turn| (state carried to the next chunk)', z3.And(*goals) if goals else z3.BoolVal(False))
    o.note(f"outer-loop invariant used: {'fields mirror the locals at every loop head' if chosen is mirrored else 'plain (fields written back after the loop)' if chosen is base else 'none fits'}")
    rets = [p for p in ps if p.kind == 'return']
    o.prove('process returns', z3.BoolVal(len(rets) >= 1))
    calls = [c for c in o.I.external_calls if c[1] == 'record_values']
    o.prove('record_values is called with the from/to lists', z3.BoolVal(len(calls) >= 1))
    o.note("agreement of the emitted pairs with the Clormann-Seeger machine MH is checked by the bounded stand-in (the loop body *is* the rule)")



@obligation('C02', 'fkm.process.step=HCM-step', functions=[FKM + '.process'])
def fkm_step(o):
    """refinement, step by step: one iteration of the inner loop of FKMDetector.process is one step of the Clormann-Seeger rule on the abstract state
    (residual stack, primary-path counter IR, largest |turn| so far, recorded pairs): with IZ = stack size, J / I the two topmost entries and K the current turn,
    IZ > IR and |K-J| >= |J-I| closes the hysteresis (I, J) (recorded as from = I, to = J, both popped; the rule is applied again iff both lie strictly inside the largest
    |turn|), IZ > IR otherwise changes nothing, IZ = IR raises IR iff |K| exceeds the largest |turn|; nothing else changes.  After the inner loop K is pushed, the largest
    |turn| is updated.  (That the whole run equals the machine MH is the induction over these steps - bounded stand-in.)"""
    from pv.interp import Obj, Opaque
    cls = o.cls(FKM)
    det = Obj(cls)
    res = o.array('residuals0', 'real', kind='list')
    ir0 = o.int('ir0')
    mt0 = o.real('max_turn0')
    o.assume(ir0 >= 1, mt0 >= 0)
    det.fields.update({'_ir': SV(ir0), '_residuals': res, '_max_turn': SV(mt0), '_recorder': Opaque(('external', 'recorder'))})
    o.track(det)
    turns = o.array('turns', 'real')
    tix = o.array('turns_index', 'int', n=turns.n)
    o.spec(GEN + 'AbstractDetector._new_turns', lambda I, args, kw: (tix, turns))
    P = FKM + '.process'
    o.loop(P, 0, lambda v: z3.And(v.ir >= 1, len_(v.from_vals) == len_(v.to_vals), len_(v.from_vals) >= 0, v.max_turn >= 0, v['self._residuals'].n >= 0))
    o.loop(P, 1, lambda v: z3.And(v.ir >= 1, len_(v.from_vals) == len_(v.to_vals), len_(v.from_vals) >= 0, v.max_turn >= 0, v['self._residuals'].n >= 0))
    o.skip_kinds = {'safety', 'inv-init', 'inv-preserve', 'variant'}      # those are the obligations of fkm.process.loop
    ps = o.paths(lambda: o.I.call(o.method(det, 'process'), [Opaque('samples')]))
    inner = [p for p in ps if p.kind == 'end' and p.loop_end_id == 1 and p.loop_start_id == 1]
    outer = [p for p in ps if p.kind == 'end' and p.loop_end_id == 0 and p.loop_start_id == 1]
    o.shape('the inner loop body has completing paths (close, keep, primary) and the outer body completes after the inner loop', len(inner) >= 3 and len(outer) >= 1,
            f'{len(inner)} inner / {len(outer)} outer paths')

    def ab(x):
        return z3.If(x >= 0, x, -x)
    q = z3.Int('q_')
    clauses = {}

    def clause(label, pc, goal):
        clauses.setdefault(label, []).append(z3.Implies(z3.And(*pc) if pc else z3.BoolVal(True), goal))
    for p in inner:
        S, E = p.loop_start, p.loop_end
        R, n = S['self._residuals']
        R2, n2 = E['self._residuals']
        F, fn = S['from_vals']
        T, tn = S['to_vals']
        F2, fn2 = E['from_vals']
        T2, tn2 = E['to_vals']
        k, ir, mx = S['current'], S['ir'], S['max_turn']
        J, I_ = z3.Select(R, n - 1), z3.Select(R, n - 2)
        closing = z3.And(n > ir, ab(k - J) >= ab(J - I_))
        clause('step: the body runs only with IZ >= IR', p.pc, n >= ir)
        clause('step: two stack entries are popped iff the hysteresis closes', p.pc, n2 == z3.If(closing, n - 2, n))
        clause('step: remaining stack entries untouched', p.pc, z3.ForAll([q], z3.Implies(z3.And(q >= 0, q < n2), z3.Select(R2, q) == z3.Select(R, q))))
        clause('step: IR is raised iff IZ == IR and |K| exceeds the largest |turn|', p.pc, E['ir'] == z3.If(z3.And(n == ir, ab(k) > mx), ir + 1, ir))
        clause('step: the largest |turn| and the current turn are not changed', p.pc, z3.And(E['max_turn'] == mx, E['current'] == k))
        clause('step: the rule is applied again iff a hysteresis closed whose points lie strictly inside the largest |turn|', p.pc,
               E['loop_assumed'] == z3.And(closing, ab(J) < mx, ab(I_) < mx))
        clause('step: exactly one pair (from = I, to = J) is recorded iff the hysteresis closes', p.pc,
               z3.And(fn2 == z3.If(closing, fn + 1, fn), tn2 == z3.If(closing, tn + 1, tn), z3.Implies(closing, z3.And(z3.Select(F2, fn) == I_, z3.Select(T2, tn) == J))))
        clause('step: earlier recorded pairs untouched', p.pc + [fn == tn],
               z3.ForAll([q], z3.Implies(z3.And(q >= 0, q < fn), z3.And(z3.Select(F2, q) == z3.Select(F, q), z3.Select(T2, q) == z3.Select(T, q)))))
    for p in outer:
        S, E = p.loop_start, p.loop_end
        R, n = S['self._residuals']
        R2, n2 = E['self._residuals']
        k, ir, mx = S['current'], S['ir'], S['max_turn']
        clause('after the inner loop: it is left only when the rule is not to be applied again or IZ < IR', p.pc, z3.Or(z3.Not(S['loop_assumed']), n < ir))
        clause('after the inner loop: K is pushed on the stack left by the inner loop', p.pc, z3.And(n2 == n + 1, z3.Select(R2, n) == k,
               z3.ForAll([q], z3.Implies(z3.And(q >= 0, q < n), z3.Select(R2, q) == z3.Select(R, q)))))
        clause('after the inner loop: largest |turn| updated with |K|; IR and the recorded pairs as left by the inner loop', p.pc,
               z3.And(E['max_turn'] == z3.If(ab(k) >= mx, ab(k), mx), E['ir'] == ir, E['from_vals'][1] == S['from_vals'][1], E['to_vals'][1] == S['to_vals'][1]))
        # (that the fields self._ir / self._max_turn hold the final values when process returns is the write-back obligation of fkm.process.loop)
    for label, fs in clauses.items():
        o.prove(label + f' (all {len(fs)} paths)' if False else label, z3.And(*fs), kind='refine')
    o.note(f"{len(inner)} paths through the inner loop body, {len(outer)} through the rest of the outer body")
    o.canary('canary: IR is never raised', z3.And(*[p.loop_end['ir'] == p.loop_start['ir'] for p in inner]) if inner else z3.BoolVal(True),
             under=[z3.Or(*[z3.And(*p.pc) for p in inner])] if inner else None)


META = {
    'level': 'other',
    'explanation': "mixed: kernel-level clauses are proved for all inputs and iterations from loop invariants on the stripped text of extension.pyx and on "
                   "fkm.py (P), and each iteration of the FKM detector's loops is proved to be one step of the Clormann-Seeger rule on the abstract state (step refinement; the induction over the steps is not an obligation); agreement of whole runs with the executable four-point / HCM machines and the three-point multiset equivalence are bounded (B).",
    'trusted_base': ['pyx stripping (types dropped)', 'floats = reals'],
}


# ---------------------------------------------------------------------------------------------
# bounded stand-ins (real detectors, extension rebuilt from the current .pyx)
# ---------------------------------------------------------------------------------------------
NEEDS_EXT = True


@bounded('C02', 'find_turns=TP', shards=4)
def b_find_turns(ctx):
    """find_turns equals the turning-point specification TP on every signal over {0,1,2} up to the bound"""
    from contracts.rainflow_bounded import rf, signals
    from specs.rainflow_spec import TP
    import numpy as np
    N = 8 if ctx.tier == 'quick' else 11
    ctx.bound = f"all signals over a three-letter alphabet of length 1..{N}, the letters read as (0,1,2), (0,1e-9,2e-9), (0,1,1+1e-9), (0,1e-9,1)"
    ctx.rule = "non-trivial: the signal has at least one turning point; distinct by signal"
    ctx.exhaustive = True
    ft = rf().find_turns
    # the three letters stand for values: as they are, all three within 2e-9 of each other, and two of them 1e-9 apart next to a third far away (a "plateau" is a
    # run of EQUAL samples, however close unequal ones are - added after seed C02-d / C03-b replaced the equality by np.isclose)
    maps = {'plain': (0.0, 1.0, 2.0), 'tiny': (0.0, 1e-9, 2e-9), 'close-high': (0.0, 1.0, 1.0 + 1e-9), 'close-low': (0.0, 1e-9, 1.0)}
    for s in signals(3, N):
        if not ctx.mine():
            continue
        want = TP(s)
        for mname, mp in maps.items():
            x = np.asarray([mp[v] for v in s], dtype=float)
            idx, vals = ft(x)
            ctx.case(len(want) > 0, key=(mname,) + tuple(s))
            if list(map(int, idx)) != want or [float(v) for v in vals] != [float(x[p]) for p in want]:
                ctx.fail(f'C02:find_turns:{mname}', f'find_turns({x.tolist()}) = {list(map(int, idx))}, spec TP = {want}',
                         f"import numpy as np\nfrom pylife.stress.rainflow import find_turns\nprint(find_turns(np.array({x.tolist()}, dtype=float)))\n# expected turning points at {want}\n"
                         f"assert list(find_turns(np.array({x.tolist()}, dtype=float))[0]) == {want}")
    ctx.sample({'signal': [0, 1, 1, 0, 2, 2, 1], 'TP': TP([0, 1, 1, 0, 2, 2, 1])})


@bounded('C02', 'containers-and-dtypes', shards=4)
def b_containers(ctx):
    """the same integer-valued signal handed to the three detectors as a float64 array, a list of ints, an int64 / float32 / uint16 array and an integer Series, in one
    piece and in chunks, also streamed through ONE re-used buffer: cycles, indices and residuals as for the float64 array (the rainflow definition does not depend on
    how the numbers are stored; added after seed C02-e stopped copying / converting the first chunk)"""
    import numpy as np
    import pandas as pd
    from contracts.rainflow_bounded import make, signals, DETECTORS
    A, N = (4, 7) if ctx.tier == 'quick' else (4, 9)
    ctx.bound = f"every 5th signal over {{0..{A-1}}} of length 3..{N} plus 3 longer ones; containers float64 / list / int64 / float32 / uint16 / int Series; one piece, two chunks, a re-used 3-sample buffer"
    ctx.rule = "non-trivial: the signal has a turning point; distinct by (signal, container)"
    mk = {'list': lambda v: [int(x) for x in v], 'int64': lambda v: np.array(v, dtype=np.int64), 'float32': lambda v: np.array(v, dtype=np.float32),
          'uint16': lambda v: np.array(v, dtype=np.uint16), 'int Series': lambda v: pd.Series([int(x) for x in v])}
    extra = [(2, 5, 3, 6, 2, 3, 1, 6, 1, 4, 2, 2, 3, 1, 4, 2, 5, 3, 4, 2), (0, 3, 1, 2, 0, 3, 3, 1, 2, 2, 0), (1, 0, 2, 0, 3, 1, 3, 0, 2, 1)]
    sigs = [s_ for i_, s_ in enumerate(signals(A, N, 3)) if i_ % 5 == 0] + extra

    def result(det, feed):
        d, rec = make(det)
        for c in feed:
            d.process(c)
        out = (list(map(float, rec.values_from)), list(map(float, rec.values_to)), list(map(float, d.residuals)))
        if det != 'fkm':
            out += (list(map(int, rec.index_from)), list(map(int, rec.index_to)), list(map(int, d.residual_index)))
        return out
    from specs.rainflow_spec import TP
    for s_ in sigs:
        if not ctx.mine():
            continue
        for det in DETECTORS:
            ref = result(det, [np.array(s_, dtype=float)])
            cut = len(s_) // 2
            for cname, f in mk.items():
                for how, feed in (('one piece', lambda: [f(s_)]), ('two chunks', lambda: [f(s_[:cut]), f(s_[cut:])])):
                    ctx.case(len(TP(s_)) > 0, key=(s_, det, cname, how))
                    try:
                        got = result(det, feed())
                    except Exception as e:   # noqa
                        ctx.fail(f'C02:container:{cname}:raises:{type(e).__name__}', f'{det} detector on {list(s_)} given as {cname} ({how}) raises {type(e).__name__}: {str(e)[:120]}', {'signal': list(s_), 'container': cname})
                        continue
                    if got != ref:
                        ctx.fail(f'C02:container:{cname}', f'{det} detector on {list(s_)} given as {cname} ({how}): {got}, as float64 array: {ref}', {'signal': list(s_), 'container': cname})
            # streaming through one buffer that the caller overwrites with the next block
            buf = np.zeros(3)
            d, rec = make(det)
            for p_ in range(0, len(s_), 3):
                blk = s_[p_:p_ + 3]
                buf[:len(blk)] = blk
                d.process(buf[:len(blk)])
            got = (list(map(float, rec.values_from)), list(map(float, rec.values_to)), list(map(float, d.residuals)))
            ctx.case(len(TP(s_)) > 0, key=(s_, det, 'reused buffer'))
            if got != ref[:3]:
                ctx.fail('C02:container:reused-buffer', f'{det} detector on {list(s_)} streamed through a re-used 3-sample buffer: {got}, in one piece: {ref[:3]}', {'signal': list(s_)})
    ctx.sample({'signal': list(extra[0]), 'containers': list(mk)})


@bounded('C02', 'detectors=spec-machines', shards=16)
def b_detectors(ctx):
    """four-point detector = textbook machine M4 (cycles in order with indices, residual); three-point detector reports the same
    multiset of cycles and the same residual; FKM detector = Clormann-Seeger machine MH on the interior reversals; every turning
    point used exactly once; index/value consistency"""
    from contracts.rainflow_bounded import run, signals
    from specs.rainflow_spec import TP, M4, MH
    A, N = (4, 9) if ctx.tier == 'quick' else (5, 9)
    ctx.bound = f"all signals over alphabet {{0..{A-1}}} of length 2..{N} (ties, plateaus, constant stretches included); plus 302 (thorough 3002) seeded signals k*1000 + m*1e-5 with neighbouring ranges closer than single precision and 100 (1000) signals k + m*1e-9"
    ctx.rule = "non-trivial: at least one closed cycle; distinct by signal"
    ctx.exhaustive = True
    for s in signals(A, N, 2):
        if not ctx.mine():
            continue
        cyc, res = M4(s)
        ctx.case(len(cyc) > 0, key=s)
        r4, _, _ = run('four', [s])
        got = list(zip(r4['from'], r4['to'], r4['ifrom'], r4['ito']))
        want = [(float(a), float(b), i, j) for a, b, i, j in cyc]
        wres = [float(v) for v, _ in res]
        wri = [i for _, i in res]
        if got != want or r4['residuals'] != wres or r4['residual_index'] != wri:
            ctx.fail('C02:fourpoint!=M4', f'four-point detector on {list(s)}: cycles {got} residual {r4["residuals"]}/{r4["residual_index"]}; M4: {want} {wres}/{wri}',
                     {'signal': list(s)})
        if 2 * len(got) + len(r4['residuals']) != len(TP(s)) + 2:
            ctx.fail('C02:turning-point-accounting', f'four-point on {list(s)} does not use every turning point once', {'signal': list(s)})
        for v, i in list(zip(r4['from'], r4['ifrom'])) + list(zip(r4['to'], r4['ito'])) + list(zip(r4['residuals'], r4['residual_index'])):
            if float(s[i]) != v:
                ctx.fail('C02:index-value', f'four-point on {list(s)}: index {i} does not address value {v}', {'signal': list(s)})
        r3, _, _ = run('three', [s])
        if sorted(zip(r3['from'], r3['to'])) != sorted(zip(r4['from'], r4['to'])) or r3['residuals'] != r4['residuals'] \
                or r3['residual_index'] != r4['residual_index']:
            ctx.fail('C02:threepoint!=fourpoint', f'three-point on {list(s)}: {list(zip(r3["from"], r3["to"]))} res {r3["residuals"]}; four-point {list(zip(r4["from"], r4["to"]))} res {r4["residuals"]}',
                     {'signal': list(s)})
        for v, i in list(zip(r3['from'], r3['ifrom'])) + list(zip(r3['to'], r3['ito'])):
            if float(s[i]) != v:
                ctx.fail('C02:index-value', f'three-point on {list(s)}: index {i} does not address value {v}', {'signal': list(s)})
        rk, _, _ = run('fkm', [s])
        hc, hres = MH([float(s[p]) for p in TP(s)])
        if list(zip(rk['from'], rk['to'])) != [(float(a), float(b)) for a, b in hc] or rk['residuals'] != [float(v) for v in hres]:
            ctx.fail('C02:fkm!=MH', f'FKM detector on {list(s)}: {list(zip(rk["from"], rk["to"]))} res {rk["residuals"]}; MH: {hc} {hres}', {'signal': list(s)})
    # near-tie ranges: neighbouring ranges that differ by ~1e-8 relative (beyond single precision), added after seed C02-b narrowed the kernel's range
    # variables to C float; the spec machines compare in Python floats (doubles)
    import random
    rng = random.Random(2002)
    near = [[1.0, 16777217.0, 0.0, 16777218.0, 5.0], [0.0, 100.0, -1e-06, 101.0, 50.0]]
    for _ in range(300 if ctx.tier == 'quick' else 3000):
        near.append([rng.randrange(4) * 1000.0 + rng.randrange(4) * 1e-5 for _ in range(rng.randrange(5, 13))])
    for _ in range(100 if ctx.tier == 'quick' else 1000):
        # mixed scales: steps of 1e-9 next to steps of order one (creep before a reversal)
        near.append([float(rng.randrange(3)) + rng.randrange(3) * 1e-9 for _ in range(rng.randrange(5, 13))])
    # extreme units: "every finite real-valued signal" includes magnitudes whose SQUARES leave the double range (1e160, 1e-160); the counting rules compare ranges,
    # never products of ranges (added after seed C02-h compared squared ranges in the three-point kernel - equivalent over the reals, which is all the proof part
    # sees: 'floats = reals' is its stated assumption)
    for _ in range(60 if ctx.tier == 'quick' else 600):
        base_ = [float(rng.randrange(6)) for _ in range(rng.randrange(4, 11))]
        near.append([v * 1e160 for v in base_])
        near.append([v * 1e-160 for v in base_])
    near.append([v * 1e160 for v in (0.0, 5.0, 1.0, 4.0, 2.0, 3.0)])
    for s in near:
        if not ctx.mine():
            continue
        cyc, res = M4(s)
        ctx.case(len(cyc) > 0, key=('near-tie',) + tuple(s))
        r4, _, _ = run('four', [s])
        got = list(zip(r4['from'], r4['to'], r4['ifrom'], r4['ito']))
        want = [(float(a), float(b), i, j) for a, b, i, j in cyc]
        if got != want or r4['residuals'] != [float(v) for v, _ in res]:
            ctx.fail('C02:fourpoint!=M4:near-tie', f'four-point detector on {list(s)}: cycles {got} residual {r4["residuals"]}; M4: {want} {[float(v) for v, _ in res]}', {'signal': list(s)})
        r3, _, _ = run('three', [s])
        if sorted(zip(r3['from'], r3['to'])) != sorted((a, b) for a, b, _, _ in want) or r3['residuals'] != [float(v) for v, _ in res]:
            ctx.fail('C02:threepoint!=M4:near-tie', f'three-point on {list(s)}: {list(zip(r3["from"], r3["to"]))} res {r3["residuals"]}; M4 {want}', {'signal': list(s)})
        rk, _, _ = run('fkm', [s])
        hc, hres = MH([float(s[p]) for p in TP(s)])
        if list(zip(rk['from'], rk['to'])) != [(float(a), float(b)) for a, b in hc] or rk['residuals'] != [float(v) for v in hres]:
            ctx.fail('C02:fkm!=MH:near-tie', f'FKM detector on {list(s)}: {list(zip(rk["from"], rk["to"]))} res {rk["residuals"]}; MH: {hc} {hres}', {'signal': list(s)})
    ctx.sample({'signal': [0, 3, 1, 2, 0, 3], 'M4': M4([0, 3, 1, 2, 0, 3])})
