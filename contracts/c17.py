"""C17 - equivalent stresses are rotation invariant and match the principal stresses.

All functions of stress/equistress.py are put under contract over the assumed eigenvalue contract of
np.linalg.eigvalsh (Vieta: sorted real roots with the tensor's three invariants), DESIGN 4/C17.
"""
import hashlib
import z3
from pv.api import obligation
from pv.bounded import bounded
from pv.sym import SV, RV, sq
from pv import sym, extract
from pv.interp import Rec

EQ = 'pylife/stress/equistress.py::'
NAMES = ('s11', 's22', 's33', 's12', 's13', 's23')
KINDS = ('scalar', 'ndarray')
FUNCS = ['eigenval', '_sign_trace', '_sign_abs_max_principal', 'tresca', 'signed_tresca_trace', 'signed_tresca_abs_max_principal',
         'abs_max_principal', 'principals', 'max_principal', 'min_principal', 'mises', 'signed_mises_trace', 'signed_mises_abs_max_principal']


def tensor(o, prefix=''):
    return o.reals(' '.join(prefix + n for n in NAMES))


def invariants(s):
    s11, s22, s33, s12, s13, s23 = s
    I1 = s11 + s22 + s33
    I2 = s11 * s22 + s22 * s33 + s11 * s33 - s12 * s12 - s13 * s13 - s23 * s23
    I3 = s11 * s22 * s33 + 2 * s12 * s13 * s23 - s11 * s23 * s23 - s22 * s13 * s13 - s33 * s12 * s12
    return I1, I2, I3


def callf(o, name, s, kind):
    return o.I.call(o.func(EQ + name), [SV(x, kind=kind) for x in s])


def absz(x):
    return z3.If(x >= 0, x, -x)


def real_eq(name):
    def f(env, kinds=KINDS):
        import numpy as np
        from pylife.stress import equistress
        out = {}
        for kind in kinds:
            args = [np.array([env[n], env[n]]) if kind == 'ndarray' else env[n] for n in NAMES]
            v = np.asarray(getattr(equistress, name)(*args))
            out[f'{name}_{kind}'] = float(v.ravel()[0])
            w = np.linalg.eigvalsh(np.array([[env['s11'], env['s12'], env['s13']], [env['s12'], env['s22'], env['s23']], [env['s13'], env['s23'], env['s33']]]))
        return out
    return f


def on_tensor(o, recs, s, label):
    """slot obligations: every eigvalsh call of `recs` receives exactly the tensor `s` (component by component).  Only then may the eigenvalues of the calls be
    identified with each other (lemma.sorted-roots-unique) - added after seed C17-a, which fed one call the tensor with s13 / s23 swapped"""
    for k, rec in enumerate(recs):
        for nm, a, b in zip(NAMES, rec[1], s):
            o.prove(f'{label}: eigvalsh call {k} receives {nm} in its slot', a == b)


def with_eigs(o, name, s, kind):
    """run `name`, return (result term, eigenvalue symbols w0<=w1<=w2 of the *first* eigvalsh call)"""
    n0 = len(o.I.eig_records)
    r = o.run1(lambda: callf(o, name, s, kind), label=f'{name}[{kind}]')
    recs = o.I.eig_records[n0:]
    on_tensor(o, recs, s, f'{name}[{kind}]')
    return r, recs


@obligation('C17', 'eigenval.assembly', functions=[EQ + 'eigenval', EQ + 'principals'])
def eigenval_assembly(o):
    """the tensor handed to eigvalsh is symmetric with every component in its slot; principals() returns it ascending"""
    s = tensor(o)
    for kind in KINDS:
        r, recs = with_eigs(o, 'principals', s, kind)
        o.shape(f'principals[{kind}] calls eigvalsh exactly once', len(recs) == 1, len(recs))
        w, comps = recs[0]
        for nm, a, b in zip(NAMES, comps, s):
            o.prove(f'slot {nm}[{kind}]', a == b)
        o.prove(f'principals ascending[{kind}]', z3.And(r.items[0].t <= r.items[1].t, r.items[1].t <= r.items[2].t))
        o.prove(f'principals are the eigenvalues[{kind}]', z3.And(*[r.items[i].t == w[i] for i in range(3)]))


def sos_identity(s):
    s11, s22, s33, s12, s13, s23 = s
    return 2 * X_of(s) == (s11 - s22) * (s11 - s22) + (s22 - s33) * (s22 - s33) + (s11 - s33) * (s11 - s33) + 6 * (s12 * s12 + s13 * s13 + s23 * s23)


@obligation('C17', 'mises.def', functions=[EQ + 'mises', EQ + 'tresca'])
def mises_def(o):
    """mises^2 = I1^2 - 3 I2 = 1/2 sum (w_i - w_j)^2 ; mises >= 0 ; Mises <= Tresca <= 2/sqrt(3) Mises"""
    s = tensor(o)
    I1, I2, I3 = invariants(s)
    w = o.reals('w0 w1 w2')
    i1, d1 = o.define('i1', I1)
    i2, d2 = o.define('i2', I2)
    e1 = w[0] + w[1] + w[2]
    e2 = w[0] * w[1] + w[1] * w[2] + w[0] * w[2]
    v1, v2 = e1 == i1, e2 == i2
    srt = z3.And(w[0] <= w[1], w[1] <= w[2])
    o.assume(srt, v1, v2)
    P = (w[0] - w[1]) * (w[0] - w[1]) + (w[1] - w[2]) * (w[1] - w[2]) + (w[0] - w[2]) * (w[0] - w[2])
    T = w[2] - w[0]
    B = o.prove('lemma: 2 (e1^2 - 3 e2) == sum of squared differences (identity in w)', 2 * (e1 * e1 - 3 * e2) == P, only=[], kind='lemma')
    SOS = o.prove('lemma: 2 X(S) is a sum of squares (identity)', sos_identity(s), only=[], kind='lemma')
    XP = o.prove('lemma: X(S) >= 0', X_of(s) >= 0, only=[SOS], kind='lemma')
    L1 = o.prove('lemma: P <= 2 T^2 for sorted w', P <= 2 * T * T, only=[srt], kind='lemma')
    L2 = o.prove('lemma: 3 T^2 <= 2 P for sorted w', 3 * T * T <= 2 * P, only=[srt], kind='lemma')
    o.hint('sqrt of non-negative', [XP], hide_nonlinear=True)
    o.set_replay(real_mises_w)
    for kind in KINDS:
        m = o.named(f'mises_{kind}', o.run1(lambda: callf(o, 'mises', s, kind), label=f'mises[{kind}]'))
        dm = o.defs[f'mises_{kind}']
        G0 = o.prove(f'mises >= 0 [{kind}]', m >= 0, only=[dm, XP])
        MX = o.prove(f'mises^2 == X(S) [{kind}]', m * m == X_of(s), only=[dm, XP])
        A = o.prove(f'mises^2 == I1^2 - 3 I2 [{kind}]', m * m == i1 * i1 - 3 * i2, only=[MX, d1, d2])
        C = o.prove(f'mises^2 == 1/2 sum of squared principal differences [{kind}]', 2 * m * m == P, only=[A, B, v1, v2])
        o.prove(f'mises <= w2 - w0 [{kind}]', m <= T, only=[C, L1, G0, srt])
        o.prove(f'sqrt(3) (w2 - w0) <= 2 mises [{kind}]', sq(RV(3)) * T <= 2 * m, only=[C, L2, G0, srt])
        t, recs = with_eigs(o, 'tresca', s, kind)
        same = [recs[0][0][i] == w[i] for i in range(3)]
        o.prove(f'tresca == w2 - w0 [{kind}]', t.t == T, under=same, hide_nonlinear=True)
    o.prove('canary: mises^2 == I1^2', z3.Implies(I2 != 0, m * m == I1 * I1), only=[MX], kind='canary', expect='refuted')
    o.note("Mises <= Tresca <= 2/sqrt(3) Mises: mises <= w2-w0 = tresca and sqrt(3)(w2-w0) <= 2 mises, eigenvalues of the second eigvalsh call identified by lemma.sorted-roots-unique")


def real_mises_w(env):
    import numpy as np
    from pylife.stress import equistress
    out = {}
    for kind in KINDS:
        args = [np.array([env[n], env[n]]) if kind == 'ndarray' else env[n] for n in NAMES]
        out[f'mises_{kind}'] = float(np.asarray(equistress.mises(*args)).ravel()[0])
    return out


def eig_replay(names):
    """replay: real outputs plus the real eigenvalues under the names the symbolic run used"""
    def f(env):
        import numpy as np
        from pylife.stress import equistress
        out = {}
        for kind in KINDS:
            args = [np.array([env[n], env[n]]) if kind == 'ndarray' else env[n] for n in NAMES]
            for name in names:
                out[f'{name}_{kind}'] = float(np.asarray(getattr(equistress, name)(*args)).ravel()[0])
        return out
    return f


@obligation('C17', 'principal.functions', functions=[EQ + f for f in ('tresca', 'max_principal', 'min_principal', 'abs_max_principal', '_sign_abs_max_principal', 'eigenval')])
def principal_functions(o):
    """tresca = w2 - w0, max/min principal = w2 / w0, abs_max_principal = eigenvalue of largest magnitude with its sign (ties positive)"""
    s = tensor(o)
    for kind in KINDS:
        t, recs = with_eigs(o, 'tresca', s, kind)
        w = recs[0][0]
        o.prove(f'tresca == w2 - w0 [{kind}]', t.t == w[2] - w[0], hide_nonlinear=True)
        o.prove(f'tresca >= 0 [{kind}]', t.t >= 0, hide_nonlinear=True)
        mx, recs = with_eigs(o, 'max_principal', s, kind)
        o.prove(f'max_principal == w2 [{kind}]', mx.t == recs[0][0][2], hide_nonlinear=True)
        mn, recs = with_eigs(o, 'min_principal', s, kind)
        o.prove(f'min_principal == w0 [{kind}]', mn.t == recs[0][0][0], hide_nonlinear=True)
        a, recs = with_eigs(o, 'abs_max_principal', s, kind)
        # two eigvalsh calls on the same tensor (abs_max_principal and _sign_abs_max_principal): equal by the uniqueness lemma
        # one or more eigvalsh calls on the same tensor (slot obligations above): their sorted eigenvalues are equal by the uniqueness lemma
        wa = recs[0][0]
        same = z3.And(*([z3.BoolVal(True)] + [wa[i] == r_[0][i] for r_ in recs[1:] for i in range(3)]))
        o.prove(f'abs_max_principal == w2 if |w2| >= |w0| else w0 [{kind}]',
                a.t == z3.If(absz(wa[2]) >= absz(wa[0]), wa[2], wa[0]), under=[same], hide_nonlinear=True)
        o.prove(f'|abs_max_principal| == max |w_i| [{kind}]',
                z3.And(*[absz(a.t) >= absz(wa[i]) for i in range(3)]), under=[same], hide_nonlinear=True)
    o.prove('canary: tresca == w2 - w1', z3.Implies(w[0] != w[1], t.t == w[2] - w[1]), hide_nonlinear=True, kind='canary', expect='refuted')


@obligation('C17', 'lemma.sorted-roots-unique')
def roots_unique(o):
    """two ascending triples with the same three elementary symmetric functions are equal (Vieta => eigenvalues are
    determined by the invariants); justifies identifying the results of repeated eigvalsh calls on one tensor"""
    w = o.reals('w0 w1 w2')
    v = o.reals('v0 v1 v2')
    o.assume(w[0] <= w[1], w[1] <= w[2], v[0] <= v[1], v[1] <= v[2])
    o.assume(w[0] + w[1] + w[2] == v[0] + v[1] + v[2])
    o.assume(w[0] * w[1] + w[1] * w[2] + w[0] * w[2] == v[0] * v[1] + v[1] * v[2] + v[0] * v[2])
    o.assume(w[0] * w[1] * w[2] == v[0] * v[1] * v[2])
    # p(x) = (x-w0)(x-w1)(x-w2) = (x-v0)(x-v1)(x-v2): evaluate at v_i
    o.prove('w == v', z3.And(w[0] == v[0], w[1] == v[1], w[2] == v[2]), kind='lemma')


@obligation('C17', 'lemma.scaling')
def scaling_lemma(o):
    """if w are the sorted roots for S then c w are sorted and satisfy Vieta for c S (c > 0)"""
    s = tensor(o)
    c = o.real('c')
    w = o.reals('w0 w1 w2')
    I1, I2, I3 = invariants(s)
    J1, J2, J3 = invariants([c * x for x in s])
    i1, d1 = o.define('i1', I1)
    i2, d2 = o.define('i2', I2)
    i3, d3 = o.define('i3', I3)
    v1, v2, v3 = w[0] + w[1] + w[2] == i1, w[0] * w[1] + w[1] * w[2] + w[0] * w[2] == i2, w[0] * w[1] * w[2] == i3
    srt = z3.And(c > 0, w[0] <= w[1], w[1] <= w[2])
    o.assume(srt, v1, v2, v3)
    cw = [c * x for x in w]
    o.prove('c w sorted', z3.And(cw[0] <= cw[1], cw[1] <= cw[2]), kind='lemma', only=[srt])
    # invariants of c S are c^k times those of S: polynomial identities (no hypotheses)
    h1 = o.prove('J1(cS) == c I1(S)', J1 == c * i1, only=[d1], kind='lemma')
    h2 = o.prove('J2(cS) == c^2 I2(S)', J2 == c * c * i2, only=[d2], kind='lemma')
    h3 = o.prove('J3(cS) == c^3 I3(S)', J3 == c * c * c * i3, only=[d3], kind='lemma')
    o.prove('sum', cw[0] + cw[1] + cw[2] == J1, kind='lemma', only=[h1, v1])
    o.prove('pairs', cw[0] * cw[1] + cw[1] * cw[2] + cw[0] * cw[2] == J2, kind='lemma', only=[h2, v2])
    o.prove('product', cw[0] * cw[1] * cw[2] == J3, kind='lemma', only=[h3, v3])


def X_of(s):
    s11, s22, s33, s12, s13, s23 = s
    return s11 * s11 + s22 * s22 + s33 * s33 - s11 * s22 - s11 * s33 - s22 * s33 + 3 * (s12 * s12 + s13 * s13 + s23 * s23)


def mises_post(s, m):
    """contract of mises(), proved on the body in mises.def/mises.post and assumed at call sites"""
    return z3.And(m >= 0, m * m == X_of(s))


MISES = z3.Function('mises_uf', *([z3.RealSort()] * 7))


def use_mises_spec(o):
    """modular verification: callers see mises() only through its contract (proved on the body in mises.post);
    the result is a function of the arguments, constrained by the postcondition"""
    def apply(I, args, kw):
        vals = list(args) + [kw[k] for k in NAMES[len(args):]]
        ts = [sym.to_real(v.t) for v in vals]
        m = MISES(*ts)
        I.assume(mises_post(ts, m))
        from pv.npmodel import merge_kind
        return SV(m, kind=merge_kind(*vals))
    o.spec(EQ + 'mises', apply)
    o.note("callee mises() replaced by its contract (m >= 0, m^2 = X(S)) proved in mises.post")


@obligation('C17', 'mises.post', functions=[EQ + 'mises'])
def mises_post_ob(o):
    """postcondition of mises() used by its callers: m >= 0 and m^2 = s11^2+s22^2+s33^2-s11 s22-s11 s33-s22 s33+3(s12^2+s13^2+s23^2)"""
    s = tensor(o)
    o.set_replay(real_mises_w)
    for kind in KINDS:
        m = o.named(f'mises_{kind}', o.run1(lambda: callf(o, 'mises', s, kind), label=f'mises[{kind}]'))
        o.prove(f'mises post [{kind}]', mises_post(s, m))


@obligation('C17', 'scaling.functions', functions=[EQ + f for f in FUNCS])
def scaling_functions(o):
    """every equivalent stress is positively homogeneous of degree one: f(c S) = c f(S) for c > 0
    (eigenvalues of c S identified with c w by lemma.scaling + lemma.sorted-roots-unique; mises by its contract)"""
    s = tensor(o)
    c = o.real('c')
    pos = c > 0
    o.assume(pos)
    cs = [c * x for x in s]
    use_mises_spec(o)
    a_, b_, c_ = o.reals('a_ b_ c_')
    T = o.prove('lemma: a,b >= 0, c > 0, a^2 = c^2 b^2  =>  a = c b',
                z3.Implies(z3.And(a_ >= 0, b_ >= 0, c_ > 0, a_ * a_ == c_ * c_ * (b_ * b_)), a_ == c_ * b_), only=[], kind='lemma')
    xs, dxs = o.define('xs', X_of(s))
    xcs, dxcs = o.define('xcs', X_of(cs))
    A = o.prove('lemma: X(cS) == c^2 X(S)', xcs == c * c * xs, only=[dxs, dxcs], kind='lemma')
    m0, m1 = MISES(*s), MISES(*cs)
    p0, p1 = mises_post(s, m0), mises_post(cs, m1)
    o.assume(p0, p1)
    o.note("mises_post(S, mises(S)) and mises_post(cS, mises(cS)) are instances of the contract proved in mises.post")
    F0 = o.prove('mises: m(S)^2 == xs', m0 * m0 == xs, only=[p0, dxs])
    F1 = o.prove('mises: m(cS)^2 == xcs', m1 * m1 == xcs, only=[p1, dxcs])
    S1 = o.prove('mises: m(cS)^2 == c^2 m(S)^2', m1 * m1 == c * c * (m0 * m0), only=[F0, F1, A])
    inst = z3.substitute(z3.Implies(z3.And(a_ >= 0, b_ >= 0, c_ > 0, a_ * a_ == c_ * c_ * (b_ * b_)), a_ == c_ * b_), (a_, m1), (b_, m0), (c_, c))
    S2 = o.prove('mises: instance of lemma T  =>  m(cS) == c m(S)', z3.Implies(inst, m1 == c * m0), only=[S1, pos, p0, p1])
    MS = m1 == c * m0
    o.note("m(cS) == c m(S): lemma T is universally valid, its instance plus the implication above give the equality by modus ponens")
    for name in ('mises', 'tresca', 'max_principal', 'min_principal', 'abs_max_principal', 'signed_mises_trace',
                 'signed_tresca_trace', 'signed_mises_abs_max_principal', 'signed_tresca_abs_max_principal'):
        for kind in KINDS:
            n0 = len(o.I.eig_records)
            a = o.run1(lambda: callf(o, name, s, kind), label=f'{name}(S)[{kind}]')
            n1 = len(o.I.eig_records)
            b = o.run1(lambda: callf(o, name, cs, kind), label=f'{name}(cS)[{kind}]')
            ra, rb = o.I.eig_records[n0:n1], o.I.eig_records[n1:]
            on_tensor(o, ra, s, f'{name}(S)[{kind}]')
            on_tensor(o, rb, cs, f'{name}(cS)[{kind}]')
            under = [pos]
            if ra:
                w = ra[0][0]
                for rec in rb:
                    under += [rec[0][i] == c * w[i] for i in range(3)]
            if 'mises' in name:
                under.append(MS)
            o.prove(f'{name}(cS) == c {name}(S) [{kind}]', b.t == c * a.t, under=under, hide_nonlinear=True)
    o.note("eigenvalues of cS are identified with c times those of S (lemma.scaling + lemma.sorted-roots-unique)")


def _consts(t):
    out, seen, stack = [], set(), [t]
    while stack:
        x = stack.pop()
        if x.get_id() in seen:
            continue
        seen.add(x.get_id())
        if z3.is_const(x) and x.decl().kind() == z3.Z3_OP_UNINTERPRETED:
            out.append(x)
        stack.extend(x.children())
    return out


@obligation('C17', 'signed.variants', functions=[EQ + f for f in ('_sign_trace', '_sign_abs_max_principal', 'signed_mises_trace', 'signed_tresca_trace',
                                                                     'signed_mises_abs_max_principal', 'signed_tresca_abs_max_principal')])
def signed_variants(o):
    """|signed| = unsigned; sign = sign(trace) resp. sign(w2 + w0); +1 when the indicator is zero; 0-d and array branch"""
    s = tensor(o)
    tr = s[0] + s[1] + s[2]
    use_mises_spec(o)
    for kind in KINDS:
        sg = o.run1(lambda: o.I.call(o.func(EQ + '_sign_trace'), [SV(x, kind=kind) for x in s[:3]]), label=f'_sign_trace[{kind}]')
        o.prove(f'_sign_trace == +1 if trace >= 0 else -1 [{kind}]', sg.t == z3.If(tr >= 0, 1, -1))
        sa, recs = with_eigs(o, '_sign_abs_max_principal', s, kind)
        w = recs[0][0]
        o.prove(f'_sign_abs_max_principal == +1 if w2 + w0 >= 0 else -1 [{kind}]', sa.t == z3.If(w[2] + w[0] >= 0, 1, -1), hide_nonlinear=True)
        for base in ('mises', 'tresca'):
            u = o.run1(lambda: callf(o, base, s, kind), label=f'{base}[{kind}]')
            n0 = len(o.I.eig_records)
            a = o.run1(lambda: callf(o, f'signed_{base}_trace', s, kind), label=f'signed_{base}_trace[{kind}]')
            b = o.run1(lambda: callf(o, f'signed_{base}_abs_max_principal', s, kind), label=f'signed_{base}_abs_max_principal[{kind}]')
            recs2 = o.I.eig_records[n0:]
            on_tensor(o, recs2, s, f'signed_{base}_*[{kind}]')
            same = []
            for rec in recs2 + [r for r in o.I.eig_records[:n0]]:
                same += [rec[0][i] == w[i] for i in range(3)]
            o.prove(f'signed_{base}_trace == sign(trace) * {base} [{kind}]', a.t == z3.If(tr >= 0, 1, -1) * u.t, under=same, hide_nonlinear=True)
            o.prove(f'signed_{base}_abs_max_principal == sign(w2+w0) * {base} [{kind}]', b.t == z3.If(w[2] + w[0] >= 0, 1, -1) * u.t, under=same, hide_nonlinear=True)
            o.prove(f'|signed_{base}_*| == {base} [{kind}]', z3.And(absz(a.t) == absz(u.t), absz(b.t) == absz(u.t)), under=same, hide_nonlinear=True)
    o.prove('canary: _sign_trace == 0 for zero trace', z3.Implies(tr == 0, sg.t == 0), hide_nonlinear=True, kind='canary', expect='refuted')


@obligation('C17', 'lemma.rotation-invariants')
def rotation_invariants(o):
    """I1, I2, I3 of R S R^T equal those of S for every rotation R (unit quaternion parametrisation): polynomial identity,
    discharged by sympy expand (back end 'sympy'); with lemma.sorted-roots-unique every function of the eigenvalues is invariant"""
    import sympy as sp
    a, b, c, d = sp.symbols('a b c d')
    s11, s22, s33, s12, s13, s23 = sp.symbols('s11 s22 s33 s12 s13 s23')
    S = sp.Matrix([[s11, s12, s13], [s12, s22, s23], [s13, s23, s33]])
    # rotation matrix of the quaternion (a,b,c,d) times |q|^2 ; R = Q / N with N = a^2+b^2+c^2+d^2
    Q = sp.Matrix([[a*a + b*b - c*c - d*d, 2*(b*c - a*d), 2*(b*d + a*c)],
                   [2*(b*c + a*d), a*a - b*b + c*c - d*d, 2*(c*d - a*b)],
                   [2*(b*d - a*c), 2*(c*d + a*b), a*a - b*b - c*c + d*d]])
    N = a*a + b*b + c*c + d*d
    T = Q * S * Q.T          # = N^2 * R S R^T

    def inv(M):
        I1 = M[0, 0] + M[1, 1] + M[2, 2]
        I2 = M[0, 0]*M[1, 1] + M[1, 1]*M[2, 2] + M[0, 0]*M[2, 2] - M[0, 1]**2 - M[0, 2]**2 - M[1, 2]**2
        I3 = M.det()
        return I1, I2, I3
    i1, i2, i3 = inv(S)
    j1, j2, j3 = inv(T)
    ok_orth = sp.expand(Q * Q.T - N**2 * sp.eye(3)) == sp.zeros(3, 3)
    ok_sym = sp.expand(T - T.T) == sp.zeros(3, 3)
    r1 = sp.expand(j1 - N**2 * i1) == 0
    r2 = sp.expand(j2 - N**4 * i2) == 0
    r3 = sp.expand(j3 - N**6 * i3) == 0
    for nm, ok in (('Q Q^T = N^2 I (R orthogonal)', ok_orth), ('R S R^T symmetric', ok_sym), ('I1 invariant', r1), ('I2 invariant', r2), ('I3 invariant', r3)):
        o.prove(nm + ' [sympy]', z3.BoolVal(bool(ok)), kind='lemma')
    o.trusted("sympy exact polynomial arithmetic (expand) for the rotation-invariance lemma")


ACC = EQ + 'StressTensorEquistress'


@obligation('C17', 'accessor.forwarding', functions=[ACC + '.' + m for m in ('tresca', 'signed_tresca_trace', 'signed_tresca_abs_max_principal', 'principals', 'abs_max_principal',
                                                                             'max_principal', 'min_principal', 'mises', 'signed_mises_trace', 'signed_mises_abs_max_principal')])
def accessor(o):
    """every accessor method passes columns S11..S23 to the same-named argument of the plain function and returns a Series
    with the frame's own index (row by row)"""
    s = tensor(o)
    use_mises_spec(o)
    cols = {n.upper(): SV(x, kind='series', index='frame-index') for n, x in zip(NAMES, s)}
    for name in ('tresca', 'signed_tresca_trace', 'signed_tresca_abs_max_principal', 'abs_max_principal', 'max_principal',
                 'min_principal', 'mises', 'signed_mises_trace', 'signed_mises_abs_max_principal'):
        frame = Rec(dict(cols), 'frame', index='frame-index')
        acc = o.new(ACC, frame)
        n0 = len(o.I.eig_records)
        a = o.run1(lambda: o.I.call(o.method(acc, name), []), label=f'accessor.{name}')
        n1 = len(o.I.eig_records)
        b = o.run1(lambda: callf(o, name, s, 'ndarray'), label=f'plain.{name}')
        ra, rb = o.I.eig_records[n0:n1], o.I.eig_records[n1:]
        under = []
        for x, y in zip(ra, rb):
            under += [x[0][i] == y[0][i] for i in range(3)]
            for p, q in zip(x[1], y[1]):
                o.prove(f'accessor.{name}: tensor component forwarded', p == q)
        o.prove(f'accessor.{name} == plain {name}', a.t == b.t, under=under, hide_nonlinear=True)
        o.prove(f'accessor.{name} returns a Series on the frame index', z3.BoolVal(a.kind == 'series' and a.index == 'frame-index'))
    frame = Rec(dict(cols), 'frame', index='frame-index')
    acc = o.new(ACC, frame)
    r = o.run1(lambda: o.I.call(o.method(acc, 'principals'), []), label='accessor.principals')
    w = o.I.eig_records[-1][0]
    o.prove('accessor.principals columns', z3.And(r.fields['min_principal'].t == w[0], r.fields['med_principal'].t == w[1], r.fields['max_principal'].t == w[2]))
    o.prove('accessor.principals on the frame index', z3.BoolVal(r.index == 'frame-index'))


# ---------------------------------------------------------------------------------------------
# bounded stand-ins
# ---------------------------------------------------------------------------------------------
def _tensors(ctx, n):
    import numpy as np
    rng = np.random.default_rng(ctx.seed + 101 * ctx.shard)
    special = [
        (0, 0, 0, 0, 0, 0), (100, 0, 0, 0, 0, 0), (-100, 0, 0, 0, 0, 0), (0, 0, 0, 50, 0, 0), (0, 0, 0, 0, -50, 0),
        (70, 70, 70, 0, 0, 0), (-70, -70, -70, 0, 0, 0), (100, 100, 0, 0, 0, 0), (100, -100, 0, 0, 0, 0), (1, 1, -2, 0, 0, 0),
        (10, 20, 30, 0, 0, 0), (30, 20, 10, 5, 5, 5), (1e-9, 0, 0, 0, 0, 0), (1e6, -1e6, 3e5, 2e5, -1e5, 4e5), (5, 5, 5, 5, 5, 5),
    ]
    out = [np.array(t, dtype=float) for t in special]
    # every pattern of vanishing components (the 64 subsets of the six), twice: a shortcut for "already diagonal" / "plane" tensors must look at all of them
    for mask in range(64):
        for rep in range(2):
            t = rng.normal(size=6) * 100
            t[[i for i in range(6) if mask >> i & 1]] = 0
            out.append(t)
    while len(out) < n:
        # the unit is the user's: also numbers of the order 1e-9, 1e-12 and 1e9 (added after seed C17-d compared a sign indicator with np.isclose(., 0))
        t = rng.normal(size=6) * rng.choice([1.0, 100.0, 1e-3, 1e-9, 1e-12, 1e9])
        if rng.random() < 0.2:
            t[3:] = 0
        if rng.random() < 0.15:
            t[1] = t[0]
        out.append(t)
    return out


@bounded('C17', 'eigvalsh-contract', shards=1)
def b_eig(ctx):
    """the assumed eigenvalue contract (ascending + Vieta), definitions, inequalities, scaling and rotation invariance on
    the real functions for a finite list of tensors (special cases + seeded random)"""
    import numpy as np
    from pylife.stress import equistress as eqs
    n = 500 if ctx.tier == 'quick' else 20000
    ctx.bound = f"{n} tensors: 15 special (zero, uniaxial, pure shear, hydrostatic, repeated roots, tiny, large) + 128 with each pattern of vanishing components + seeded normal random; 3 rotations, scales 0.5/3"
    ctx.rule = "a tensor is non-trivial if it is non-zero; distinct by value"
    tens = _tensors(ctx, n)
    rng = np.random.default_rng(ctx.seed)
    for t in tens:
        s11, s22, s33, s12, s13, s23 = t
        scale = float(np.abs(t).max()) or 1.0          # all tolerances are relative to the size of the tensor
        w = eqs.eigenval(*t)
        A = np.array([[s11, s12, s13], [s12, s22, s23], [s13, s23, s33]])
        I1 = np.trace(A)
        I2 = s11 * s22 + s22 * s33 + s11 * s33 - s12**2 - s13**2 - s23**2
        I3 = np.linalg.det(A)
        ok = w[0] <= w[1] <= w[2] and abs(w.sum() - I1) <= 1e-9 * scale and abs(w[0]*w[1] + w[1]*w[2] + w[0]*w[2] - I2) <= 1e-9 * scale**2 \
            and abs(w[0]*w[1]*w[2] - I3) <= 1e-8 * scale**3
        ctx.case(bool(np.any(t != 0)), key=tuple(t))
        if not ok:
            ctx.fail('C17:eigvalsh-contract', f'eigvalsh contract violated for {t.tolist()}', {'tensor': t.tolist(), 'w': w.tolist()})
        m, tr = float(eqs.mises(*t)), float(eqs.tresca(*t))
        if np.isnan(m):
            ctx.fail('C17:mises-nan', f'mises is NaN for {t.tolist()}', {'tensor': t.tolist()})
        if not (abs(m - np.sqrt(0.5 * ((w[0]-w[1])**2 + (w[1]-w[2])**2 + (w[0]-w[2])**2))) <= 1e-9 * scale and abs(tr - (w[2] - w[0])) <= 1e-9 * scale):
            ctx.fail('C17:definitions', f'mises/tresca differ from their principal form for {t.tolist()}', {'tensor': t.tolist()})
        if not (m <= tr + 1e-9 * scale and tr <= 2 / np.sqrt(3) * m + 1e-9 * scale):
            ctx.fail('C17:inequality', f'Mises<=Tresca<=2/sqrt3 Mises violated for {t.tolist()}', {'tensor': t.tolist(), 'mises': m, 'tresca': tr})
        am = float(eqs.abs_max_principal(*t))
        want = w[2] if abs(w[2]) >= abs(w[0]) else w[0]
        if abs(am - want) > 1e-9 * scale:
            ctx.fail('C17:abs-max', f'abs_max_principal {am} != {want} for {t.tolist()}', {'tensor': t.tolist()})
        for name in ('mises', 'tresca', 'max_principal', 'min_principal', 'abs_max_principal', 'signed_mises_trace', 'signed_tresca_trace',
                     'signed_mises_abs_max_principal', 'signed_tresca_abs_max_principal'):
            f = getattr(eqs, name)
            v = float(f(*t))
            for c in (0.5, 3.0):
                vc = float(f(*(c * t)))
                if abs(vc - c * v) > 1e-9 * scale * c:
                    # the same tie rule as under rotation: a sign indicator that is zero in real numbers (w2 == -w0, trace == 0) flips under rounding
                    tie = (name.startswith('signed') and (abs(I1) < 1e-9 * scale or abs(w[2] + w[0]) < 1e-9 * scale)) or \
                          (name == 'abs_max_principal' and abs(abs(w[2]) - abs(w[0])) < 1e-9 * scale)
                    if tie and abs(abs(vc) - c * abs(v)) <= 1e-9 * scale * c:
                        ctx.count('sign-indicator-zero-under-rounding')
                        continue
                    ctx.fail('C17:scaling', f'{name} not homogeneous for {t.tolist()}', {'tensor': t.tolist(), 'c': c})
            # scalar vs column
            col = np.asarray(f(*[np.array([x, x]) for x in t]))
            if abs(col[0] - v) > 1e-12 * scale or abs(col[1] - v) > 1e-12 * scale:
                ctx.fail('C17:scalar-vs-column', f'{name} scalar {v} vs column {col.tolist()}', {'tensor': t.tolist()})
        # rotations
        for _ in range(3 if ctx.tier == 'thorough' else 1):
            q = rng.normal(size=4)
            q /= np.linalg.norm(q)
            a, b, c, d = q
            Rm = np.array([[a*a+b*b-c*c-d*d, 2*(b*c-a*d), 2*(b*d+a*c)], [2*(b*c+a*d), a*a-b*b+c*c-d*d, 2*(c*d-a*b)], [2*(b*d-a*c), 2*(c*d+a*b), a*a-b*b-c*c+d*d]])
            B = Rm @ A @ Rm.T
            tb = (B[0, 0], B[1, 1], B[2, 2], B[0, 1], B[0, 2], B[1, 2])
            for name in ('mises', 'tresca', 'max_principal', 'min_principal', 'abs_max_principal', 'signed_mises_trace', 'signed_tresca_abs_max_principal'):
                f = getattr(eqs, name)
                with np.errstate(invalid='ignore'):
                    v0, v1 = float(f(*t)), float(f(*tb))
                if np.isnan(v1) or np.isnan(v0):
                    ctx.fail('C17:mises-nan', f'{name} is NaN for the rotated tensor {list(map(float, tb))} (original {t.tolist()})',
                             f"from pylife.stress import equistress\nv = equistress.{name}(*{list(map(float, tb))!r})\nprint(v)\nassert v == v, 'NaN'")
                    continue
                # mises is the square root of a cancelling radicand: near zero its absolute rounding error is ~ sqrt(eps) * scale,
                # so compare the squares there (a first version demanded 1e-8 * scale of the root itself: false alarm for seed 1)
                differs = abs(v0 * v0 - v1 * v1) > 1e-10 * scale * scale if 'mises' in name else abs(v0 - v1) > 1e-8 * scale
                if differs:
                    # sign indicators exactly at zero flip under rounding: not a violation of the real-number statement
                    if name.startswith('signed') and (abs(I1) < 1e-9 * scale or abs(w[2] + w[0]) < 1e-9 * scale) and abs(abs(v0) - abs(v1)) <= 1e-8 * scale:
                        ctx.count('sign-indicator-zero-under-rounding')
                        continue
                    if name == 'abs_max_principal' and abs(abs(w[2]) - abs(w[0])) < 1e-9 * scale and abs(abs(v0) - abs(v1)) <= 1e-8 * scale:
                        ctx.count('sign-indicator-zero-under-rounding')
                        continue
                    ctx.fail('C17:rotation', f'{name} changes under rotation: {v0} vs {v1} for {t.tolist()}', {'tensor': t.tolist(), 'q': q.tolist()})
    # a trace of -0.0 is a trace of zero (negated trace-free tensors, unit load cases times a negative factor): documented sign +1
    # (added after seed C17-f took the sign with np.copysign)
    for tz in ((0.0, 0.0, 0.0, 1.0, 2.0, 3.0), (0.0, 0.0, 0.0, 40.0, 0.0, 0.0), (0.0, 0.0, 0.0, 10.0, -20.0, 30.0)):
        neg = tuple(-x for x in tz)
        for name, base in (('signed_mises_trace', 'mises'), ('signed_tresca_trace', 'tresca')):
            for form in ('scalar', 'column'):
                args = neg if form == 'scalar' else tuple(np.array([x, x]) for x in neg)
                v = np.asarray(getattr(eqs, name)(*args), dtype=float).ravel()[0]
                w_ = np.asarray(getattr(eqs, base)(*args), dtype=float).ravel()[0]
                ctx.case(True, key=('negative-zero', tz, name, form))
                if not (v == w_ or abs(v - w_) <= 1e-12 * abs(w_)):
                    ctx.fail('C17:sign-of-zero-indicator', f'{name}{neg} ({form}) = {v}: the trace is (minus) zero, the documented sign is +1, {base} = {w_}', {'tensor': list(neg)})
    # components given as python ints / an integer array: the same numbers as for floats
    for ti in ((100, 0, 0, 50, 0, 0), (-300, 50, -50, 40, -20, 10), (0, 0, 0, 0, 0, 7)):
        for name in ('mises', 'tresca', 'max_principal', 'min_principal', 'abs_max_principal', 'signed_mises_trace', 'signed_tresca_abs_max_principal'):
            f = getattr(eqs, name)
            vi, vf = float(f(*ti)), float(f(*[float(x) for x in ti]))
            va = np.asarray(f(*[np.array([x, x]) for x in ti]), dtype=float)
            ctx.case(True, key=('int', ti, name))
            if not (vi == vf or abs(vi - vf) <= 1e-12 * abs(vf)) or not np.allclose(va, vf, rtol=1e-12, atol=0):
                ctx.fail('C17:number-types', f'{name}{ti}: {vi} for ints, {vf} for floats, {va.tolist()} for an integer array', {'tensor': list(ti)})
    ctx.sample({'tensor': tens[11].tolist(), 'mises': float(eqs.mises(*tens[11])), 'tresca': float(eqs.tresca(*tens[11]))})
    ctx.exhaustive = False


@bounded('C17', 'accessor-rows', shards=1)
def b_accessor(ctx):
    """accessor vs plain functions row by row on shuffled frames with non-trivial index"""
    import numpy as np
    import pandas as pd
    import pylife.stress.equistress as eqs   # noqa
    rng = np.random.default_rng(ctx.seed + 7)
    n = 14 if ctx.tier == 'quick' else 42
    ctx.bound = f"{n} frames of 1..7 rows (every row count; added after seed C17-h told a single tensor from a column by len(...) == 3), shuffled, string / integer / multi index, tensor columns listed in 4 orders, with and without further columns"
    ctx.rule = "every frame is one case"
    for k in range(n):
        nr = (7, 3, 1, 2, 6, 4, 5)[k % 7]
        data = rng.normal(size=(nr, 6)) * 100
        idx = [pd.Index(list('gfedcba')[:nr]), pd.Index(rng.permutation(nr) * 3 + 5),
               pd.MultiIndex.from_arrays([list('aabbccd')[:nr], rng.permutation(nr)], names=['x', 'y'])][k % 3]
        df = pd.DataFrame(data, columns=['S11', 'S22', 'S33', 'S12', 'S13', 'S23'], index=idx)
        df = df.iloc[rng.permutation(nr)]
        # the tensor frame is identified by its column NAMES: columns listed in another order (Voigt, ANSYS, row-major triangle) and further columns in between
        # (added after seed C17-e picked the components by position)
        orders = [['S11', 'S22', 'S33', 'S12', 'S13', 'S23'], ['S11', 'S22', 'S33', 'S23', 'S13', 'S12'], ['S11', 'S22', 'S33', 'S12', 'S23', 'S13'], ['S11', 'S12', 'S13', 'S22', 'S23', 'S33']]
        df = df[orders[k % 4]]
        if k % 2:
            df.insert(2, 'x', 1.0)
            df['y'] = 2.0
        ctx.case(True, key=k)
        for name in ('mises', 'tresca', 'max_principal', 'min_principal', 'abs_max_principal', 'signed_mises_trace', 'signed_tresca_trace',
                     'signed_mises_abs_max_principal', 'signed_tresca_abs_max_principal'):
            ser = getattr(df.equistress, name)()
            if not ser.index.equals(df.index):
                ctx.fail('C17:accessor-index', f'{name}: index differs', None)
            for i in range(nr):
                row = df.iloc[i]
                v = float(getattr(eqs, name)(row.S11, row.S22, row.S33, row.S12, row.S13, row.S23))
                if abs(ser.iloc[i] - v) > 1e-9 * 100:
                    ctx.fail('C17:accessor-row', f'{name}: row {i} {ser.iloc[i]} != {v}', {'row': row.tolist()})
        pr = df.equistress.principals()
        if not pr.index.equals(df.index):
            ctx.fail('C17:accessor-index', 'principals: index differs', None)
        for i in range(nr):
            row = df.iloc[i]
            w = np.asarray(eqs.principals(row.S11, row.S22, row.S33, row.S12, row.S13, row.S23), dtype=float).ravel()
            if not np.allclose(pr.iloc[i][['min_principal', 'med_principal', 'max_principal']].to_numpy(dtype=float), w, rtol=1e-9, atol=1e-7):
                ctx.fail('C17:accessor-row', f'principals: row {i} {pr.iloc[i].tolist()} != {w.tolist()} (columns listed as {list(df.columns)})', {'row': row.tolist(), 'columns': list(df.columns)})
                break
    # an accessor object that is kept while the frame behind it is changed in place (scaled, one component overwritten): every method answers for the tensors the
    # frame holds NOW, like the plain functions (added after seed C17-i memoised the eigenvalues on the accessor object)
    data = rng.normal(size=(4, 6)) * 100
    dfk = pd.DataFrame(data, columns=['S11', 'S22', 'S33', 'S12', 'S13', 'S23'], index=pd.Index([7, 3, 9, 1], name='node_id'))
    eq = dfk.equistress
    names = ('mises', 'tresca', 'max_principal', 'min_principal', 'abs_max_principal', 'signed_mises_trace', 'signed_tresca_trace', 'signed_mises_abs_max_principal', 'signed_tresca_abs_max_principal')
    for name in names:
        getattr(eq, name)()
    eq.principals()
    for step, change in (('scaled in place', lambda: dfk.__imul__(3.0)), ('one component overwritten', lambda: dfk.__setitem__('S33', dfk['S33'] + 250.0))):
        change()
        ctx.case(True, key=('held-accessor', step))
        for name in names:
            got = np.asarray(getattr(eq, name)(), dtype=float)
            want = np.array([float(getattr(eqs, name)(*[dfk[c].iloc[i] for c in ('S11', 'S22', 'S33', 'S12', 'S13', 'S23')])) for i in range(len(dfk))])
            if not np.allclose(got, want, rtol=1e-9, atol=1e-7):
                ctx.fail(f'C17:held-accessor:{name}', f'{name}() of an accessor kept while the frame was {step}: {got.tolist()}, the plain function on the current tensors gives {want.tolist()}', {'step': step})
        gp = eq.principals()[['min_principal', 'med_principal', 'max_principal']].to_numpy(dtype=float)
        wp = np.array([np.asarray(eqs.principals(*[dfk[c].iloc[i] for c in ('S11', 'S22', 'S33', 'S12', 'S13', 'S23')]), dtype=float).ravel() for i in range(len(dfk))])
        if not np.allclose(gp, wp, rtol=1e-9, atol=1e-7):
            ctx.fail('C17:held-accessor:principals', f'principals() of an accessor kept while the frame was {step}: {gp.tolist()}, the plain function on the current tensors gives {wp.tolist()}', {'step': step})
    ctx.sample({'frame_rows': 7, 'index_kinds': ['str', 'int', 'multi']})


META = {
    'level': 'proof',
    'explanation': "All equivalent-stress functions and the accessor are verified against their definitions in terms of the eigenvalues, the inequalities, "
                   "positive homogeneity and the documented signs, for every symmetric tensor (generic element and 0-d input), over the ASSUMED contract of "
                   "np.linalg.eigvalsh (ascending real roots with the tensor's invariants). Rotation invariance: the invariants are preserved by every rotation "
                   "(sympy polynomial identity) and sorted roots are determined by the invariants (z3 lemma). The eigvalsh contract itself and row alignment of the "
                   "accessor are only checked by the bounded stand-in.",
    'not_decided': ["that LAPACK's eigvalsh meets the assumed contract (bounded check only)", "floating point: sign indicators that are zero only up to rounding"],
    'trusted_base': ['assumed contract of np.linalg.eigvalsh (Vieta)', 'sympy expand for the rotation lemma', 'sqrt axioms', 'floats = reals',
                     'composition of lemmas (uniqueness of sorted roots + scaling/rotation of invariants => invariance of functions of the eigenvalues) is a meta-step'],
}
