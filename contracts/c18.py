"""C18 - Woehler test-data analysis is equivariant and recovers exact synthetic curves."""
import z3
from pv.api import obligation
from pv.bounded import bounded
from pv.sym import SV, RV
from pv.interp import Rec, Obj

FD = 'pylife/materialdata/woehler/fatigue_data.py::FatigueData'
FN = 'pylife/utils/functions.py::'


@obligation('C18', 'zones.partition', functions=[FD + '._calc_finite_zone_manual', FD + '._calc_finite_zone', FD + '.max_runout_load'])
def zones(o):
    """_calc_finite_zone_manual(limit): the finite zone are the fractures with load > limit, the infinite zone all tests with load <= limit; for limit = the highest
    run-out load every test is in exactly one zone or is ... a run-out above the limit (impossible: max is an upper bound); rossow_cumfreqs in (0,1) increasing"""
    load, limit, mx = o.reals('load limit max_runout_load')
    frac = o.bool('fracture')
    row = Rec({'load': SV(load, kind='series'), 'cycles': SV(o.real('cycles'), kind='series'), 'fracture': SV(frac, kind='series')}, 'frame')
    o.track(row)
    # membership predicates of the two zones as the code computes them: masks of the boolean selections
    fd = Obj(o.cls(FD))
    fd.fields['_obj'] = row
    o.track(fd)
    o.run1(lambda: o.I.call(o.method(fd, '_calc_finite_zone_manual'), [SV(limit)]), label='_calc_finite_zone_manual')
    fz, iz = fd.fields['_finite_zone'], fd.fields['_infinite_zone']
    in_f = fz.fields['load'].guard
    in_i = iz.fields['load'].guard
    o.prove('finite zone == fractures with load > limit', in_f == z3.And(frac, load > limit))
    o.prove('infinite zone == tests with load <= limit', in_i == (load <= limit))
    o.prove('no test is in both zones', z3.Not(z3.And(in_f, in_i)))
    o.prove('a test in neither zone is a run-out above the limit', z3.Implies(z3.Not(z3.Or(in_f, in_i)), z3.And(z3.Not(frac), load > limit)))
    # with limit = max run-out load (an upper bound of the run-out loads) the zones partition the tests
    o.prove('limit = highest run-out load: the zones partition the tests', z3.Implies(z3.And(limit == mx, z3.Implies(z3.Not(frac), load <= mx)), z3.Xor(in_f, in_i)))
    N, i = o.ints('N i')
    o.assume(N >= 1, i >= 1, i <= N)
    r = o.run1(lambda: o.I.call(o.func(FN + 'rossow_cumfreqs'), [SV(N)]), label='rossow_cumfreqs')
    k = z3.Int('k_')
    val = lambda j: z3.Select(r.a, j)    # noqa: E731
    o.prove('rossow_cumfreqs: N values (3i-1)/(3N+1) in (0,1), strictly increasing',
            z3.And(r.n == N, z3.ForAll([k], z3.Implies(z3.And(k >= 0, k < N), z3.And(val(k) == (3 * z3.ToReal(k + 1) - 1) / (3 * z3.ToReal(N) + 1), val(k) > 0, val(k) < 1,
                                                                                     z3.Implies(k + 1 < N, val(k) < val(k + 1)))))))
    o.trusted("max is an upper bound of the run-out loads (sum calculus / reduction rule)")
    o.canary('canary: infinite zone contains only run-outs', z3.Implies(in_i, z3.Not(frac)))


@obligation('C18', 'zones.transition', functions=[FD + '._calc_finite_infinite_transition'])
def transition(o):
    """_calc_finite_infinite_transition: the reported transition is 0 exactly when the series has NO run-out; with one or more run-outs it is the value of
    _half_level_above_highest_runout (between the highest run-out load and the lowest fracture load above it), however many run-outs there are.  The run-out
    selection is a ghost frame with an arbitrary number n >= 0 of rows (len(...), .shape[0]); the zone computation and the half-level helper are under their
    contracts.  Added after seed C18-h turned "has run-outs" into "more than one run-out"."""
    from pv.interp import PList
    n = o.int('number_of_runouts')
    H = o.real('half_level_above_highest_runout')
    o.assume(n >= 0)

    class Runouts:
        """the selection self._obj[~self._obj.fracture]: only its row count is visible"""
        def pv_len(self):
            return SV(n)

        def pv_getattr(self, attr):
            if attr == 'shape':
                return PList([SV(n), 3], 'tuple')
            if attr == 'empty':
                return SV(n == 0)
            raise AttributeError(attr)
    fd = Obj(o.cls(FD))
    fd.fields['runouts'] = Runouts()
    fd.fields['_finite_infinite_transition'] = None
    o.spec(FD + '._calc_finite_zone', lambda I, args, kw: None)
    o.spec(FD + '._half_level_above_highest_runout', lambda I, args, kw: SV(H))
    o.track(fd)

    def thunk():
        o.I.call(o.method(fd, '_calc_finite_infinite_transition'), [])
        return fd.fields['_finite_infinite_transition']       # (the value at the end of THIS path; run1 merges the paths)
    got = o.run1(thunk, label='_calc_finite_infinite_transition')
    gt = got.t if isinstance(got, SV) else z3.RealVal(float(got))
    if z3.is_int(gt):
        gt = z3.ToReal(gt)
    o.prove('no run-out: transition 0', z3.Implies(n == 0, gt == 0))
    o.prove('one or more run-outs (also exactly one): the half level above the highest run-out', z3.Implies(n >= 1, gt == H))


# ---------------------------------------------------------------------------------------------
def _datasets(ctx):
    """synthetic fatigue test series: Basquin line with log-normal scatter, run-outs at the cycle limit on the lower levels (seeded)"""
    import numpy as np
    import pandas as pd
    rng = np.random.default_rng(1234)      # fixed: findings are keyed by data set name
    n = 4 if ctx.tier == 'quick' else 14
    out = []
    for it in range(n):
        k = rng.uniform(4, 9)
        SD, ND = rng.uniform(250, 400), 10 ** rng.uniform(5.8, 6.3)
        levels = SD * np.array([1.6, 1.45, 1.3, 1.15, 1.05, 1.0, 0.95, 0.9])
        rows = []
        limit = 1e7
        for L in levels:
            for _ in range(int(rng.integers(3, 6))):
                N = ND * (L / SD) ** (-k) * 10 ** rng.normal(0, 0.12)
                if L < SD * 1.1 and rng.random() < (0.25 if L > SD else 0.6):
                    N = limit
                rows.append((L, min(N, limit)))
        df = pd.DataFrame(rows, columns=['load', 'cycles'])
        out.append((f'synthetic-{it}', df, limit))
    return out


def _analyze(name, df, limit):
    import warnings
    import pylife.materialdata.woehler as woehler
    fd = woehler.determine_fractures(df, limit)
    with warnings.catch_warnings():
        warnings.simplefilter('ignore')
        return {'Elementary': woehler.Elementary, 'Probit': woehler.Probit, 'MaxLikeInf': woehler.MaxLikeInf, 'MaxLikeFull': woehler.MaxLikeFull}[name](fd).analyze()


def _close(a, b, rtol):
    import numpy as np
    if np.isnan(a) and np.isnan(b):
        return True
    return abs(a - b) <= rtol * max(abs(a), abs(b), 1e-300)


@bounded('C18', 'history-independence', shards=2)
def b_history(ctx):
    """every analyzer is a function of its data: analysing a data set again after other data sets have been analysed in the same process - in particular series
    with fewer than two mixed load levels, series without run-outs, exact Basquin data - returns the same parameters (added after seed C18-b let a fixed scatter
    leak from one MaxLikeFull analysis into the following ones through a shared default argument)"""
    import numpy as np
    import pandas as pd
    ctx.bound = "reference data sets synthetic-0..3 x analyzers {Elementary, Probit, MaxLikeInf, MaxLikeFull}; in between: a series with one mixed level, a series without run-outs, exact Basquin data with one run-out level"
    ctx.rule = "each (data set, analyzer) re-analysis is one case"
    limit = 1e7

    def basquin(load):
        return 1e6 * (load / 300.0) ** -5

    one_mixed = pd.DataFrame([(L, basquin(L)) for L in (500.0, 450.0, 400.0, 350.0) for _ in range(2)] + [(300.0, basquin(300.0)), (300.0, limit), (280.0, limit), (280.0, limit)], columns=['load', 'cycles'])
    no_runout = pd.DataFrame([(L, basquin(L) * f) for L in (500.0, 450.0, 400.0, 350.0) for f in (0.8, 1.25)], columns=['load', 'cycles'])
    exact = pd.DataFrame([(L, basquin(L)) for L in (600.0, 500.0, 420.0, 360.0) for _ in range(2)] + [(290.0, limit)] * 3, columns=['load', 'cycles'])
    analyzers = ['Elementary', 'Probit', 'MaxLikeInf', 'MaxLikeFull']
    data = [d for d in _datasets(ctx)][:4]
    for idx, (name, df, lim) in enumerate(data):
        if idx % ctx.nshards != ctx.shard:
            continue
        first = {}
        for an in analyzers:
            try:
                first[an] = _analyze(an, df, lim)
            except Exception as e:   # noqa
                ctx.count(f'analyzer-raises:{an}:{type(e).__name__}')
        for other in (one_mixed, no_runout, exact):
            for an in analyzers:
                try:
                    _analyze(an, other, limit)
                except Exception:   # noqa
                    ctx.count(f'in-between analysis raises:{an}')
        for an, ref in first.items():
            got = _analyze(an, df, lim)
            ctx.case(True, key=(name, an))
            bad = [k for k in ('SD', 'k_1', 'ND', 'TN', 'TS') if not _close(float(got[k]), float(ref[k]), 1e-12)]
            if bad:
                ctx.fail(f'C18:history:{an}', f'{an} on {name}: analysing the same data again after other analyses changes {bad}: {dict(ref[["SD", "k_1", "ND", "TN", "TS"]])} -> {dict(got[["SD", "k_1", "ND", "TN", "TS"]])}',
                         {'dataset': name, 'analyzer': an})
        # ONE FatigueData object handed to all analyzers in turn (fd = df.fatigue_data; Elementary(fd), MaxLikeInf(fd), ...): an analysis does not change the object it
        # is given - the transition, the zones and every later analysis stay what they are for a fresh object (added after seed C18-f let MaxLikeInf move the
        # object's finite/infinite transition to get a start value)
        import warnings
        import pylife.materialdata.woehler as woehler
        fd = woehler.determine_fractures(df, lim).fatigue_data
        tr0, nf0, ni0 = float(fd.finite_infinite_transition), len(fd.finite_zone), len(fd.infinite_zone)
        cls = {'Elementary': woehler.Elementary, 'Probit': woehler.Probit, 'MaxLikeInf': woehler.MaxLikeInf, 'MaxLikeFull': woehler.MaxLikeFull}
        for order in (['MaxLikeInf', 'Elementary', 'Probit', 'MaxLikeFull'], ['MaxLikeFull', 'Probit', 'MaxLikeInf', 'Elementary']):
            for an in order:
                if an not in first:
                    continue
                with warnings.catch_warnings():
                    warnings.simplefilter('ignore')
                    try:
                        got = cls[an](fd).analyze()
                    except Exception as e:   # noqa
                        ctx.fail(f'C18:shared-fatigue-data:{an}:raises:{type(e).__name__}', f'{an} on {name} with a FatigueData object other analyzers have used raises {type(e).__name__}: {e}', {'dataset': name})
                        continue
                ctx.case(True, key=(name, an, 'shared-fd', order[0]))
                bad = [k for k in ('SD', 'k_1', 'ND', 'TN', 'TS') if not _close(float(got[k]), float(first[an][k]), 1e-9)]
                state = (float(fd.finite_infinite_transition), len(fd.finite_zone), len(fd.infinite_zone))
                if bad or state != (tr0, nf0, ni0):
                    ctx.fail(f'C18:shared-fatigue-data:{an}', f'{an} on {name} through a FatigueData object that other analyzers have used: {bad} differ from the analysis of a fresh object; transition / zone sizes {state}, before {(tr0, nf0, ni0)}',
                             {'dataset': name, 'analyzer': an, 'order': order})
        # the two entry points: an analyzer given the DataFrame (columns load, cycles, fracture - the fracture flags are the user's) and given its
        # `.fatigue_data` accessor analyse the same tests; run-outs suspended at different cycle numbers keep the flag they were given
        # (added after seed C18-g re-classified every test of a DataFrame input as "fracture iff cycles < the largest cycle number")
        dff = woehler.determine_fractures(df, lim).copy()
        ro_rows = [i for i in dff.index if not bool(dff.loc[i, 'fracture'])]
        for j, i in enumerate(ro_rows):
            dff.loc[i, 'cycles'] = lim / (1.0, 2.0, 5.0)[j % 3]
        for an in analyzers:
            res = {}
            for ename, arg in (('DataFrame', lambda: dff.copy()), ('FatigueData', lambda: dff.copy().fatigue_data)):
                with warnings.catch_warnings():
                    warnings.simplefilter('ignore')
                    try:
                        res[ename] = cls[an](arg()).analyze()
                    except Exception as e:   # noqa
                        res[ename] = e
            ctx.case(True, key=(name, an, 'entry-points'))
            a_, b_ = res['DataFrame'], res['FatigueData']
            if isinstance(a_, Exception) or isinstance(b_, Exception):
                if type(a_) is not type(b_):
                    ctx.fail(f'C18:entry-points:{an}:raises', f'{an} on {name} (run-outs suspended at different cycle numbers): DataFrame input gives {a_ if isinstance(a_, Exception) else "a result"}, FatigueData input gives {b_ if isinstance(b_, Exception) else "a result"}', {'dataset': name, 'analyzer': an})
                continue
            bad = [k for k in ('SD', 'k_1', 'ND', 'TN', 'TS') if not _close(float(a_[k]), float(b_[k]), 1e-9)]
            if bad:
                ctx.fail(f'C18:entry-points:{an}', f'{an} on {name} (run-outs suspended at different cycle numbers): {bad} differ between DataFrame input {dict(a_[["SD", "k_1", "ND", "TN", "TS"]])} and FatigueData input {dict(b_[["SD", "k_1", "ND", "TN", "TS"]])}',
                         {'dataset': name, 'analyzer': an})
    ctx.sample({'history': ['analyze(synthetic-0)', 'analyze(series with one mixed level)', 'analyze(series without run-outs)', 'analyze(exact Basquin data)', 'analyze(synthetic-0) again']})


@bounded('C18', 'equivariance-permutation', shards=8)
def b_equiv(ctx):
    """load scale c: SD -> c SD, k_1 / TN / TS / ND unchanged; cycle scale c: ND -> c ND, rest unchanged; row permutations change nothing;
    zones partition the tests at the reported transition; maximum likelihood never below the likelihood of its elementary start"""
    import warnings
    import numpy as np
    import pandas as pd
    import pylife.materialdata.woehler as woehler
    from pylife.materialdata.woehler.likelihood import Likelihood
    warnings.simplefilter('ignore')
    analyzers = ['Elementary', 'Probit', 'MaxLikeInf', 'MaxLikeFull']
    ctx.bound = "seeded synthetic test series (8 load levels, 3-5 tests each, run-outs on the lower levels) x analyzers {Elementary, Probit, MaxLikeInf, MaxLikeFull} x load scales {0.5, 2, 1000, 1e-4, 1e-6} x cycle scales {0.1, 10, 1e-3, 1e-6} x 3 row permutations x row labels {repeating, strings, shuffled}"
    ctx.rule = "non-trivial: data set with run-outs and fractures on mixed levels; distinct by (data set, analyzer, transformation)"
    for name, df, limit in _datasets(ctx):
        for an in analyzers:
            if not ctx.mine():
                continue
            tol = 1e-6 if an in ('Elementary', 'Probit') else 2e-2
            try:
                ref = _analyze(an, df, limit)
            except Exception as e:   # noqa
                ctx.count(f'analyzer-raises:{an}:{type(e).__name__}')
                continue
            ctx.case(True, key=(name, an))

            def dv(*fits):
                # a fit whose scatter TS exceeds 100 (the ratio of the 90 % to the 10 % endurance limit: physical values are below 10) or is not finite is a diverged optimisation: tagged, so that the recorded divergence finding
                # cannot hide a failure of a converged fit
                return ':divergent-fit' if any((not np.isfinite(float(f['TS']))) or float(f['TS']) > 100.0 for f in fits) else ''
            for c in (0.5, 2.0, 1000.0, 1e-4, 1e-6):
                d2 = df.copy()
                d2['load'] = d2['load'] * c
                got = _analyze(an, d2, limit)
                ctx.case(True, key=(name, an, 'load', c))
                bad = [k for k in ('k_1', 'TN', 'TS', 'ND') if not _close(float(got[k]), float(ref[k]), tol)]
                if not _close(float(got['SD']), c * float(ref['SD']), tol):
                    bad.append('SD')
                if bad:
                    ctx.fail(f'C18:load-scale:{an}{dv(ref, got)}:{name}', f'{an} on {name}: load scale {c}: {bad} not equivariant: {dict(got[["SD", "k_1", "ND", "TN", "TS"]])} vs {dict(ref[["SD", "k_1", "ND", "TN", "TS"]])}', {'dataset': name, 'analyzer': an, 'c': c})
            # (1e-6, 1e-3: cycles tabulated in millions / thousands - added after seed C18-e bounded ND from below by one cycle unit)
            for c in (0.1, 10.0, 1e-3, 1e-6):
                d2 = df.copy()
                d2['cycles'] = d2['cycles'] * c
                got = _analyze(an, d2, limit * c)
                ctx.case(True, key=(name, an, 'cycles', c))
                bad = [k for k in ('k_1', 'TN', 'TS', 'SD') if not _close(float(got[k]), float(ref[k]), tol)]
                if not _close(float(got['ND']), c * float(ref['ND']), tol):
                    bad.append('ND')
                if bad:
                    ctx.fail(f'C18:cycle-scale:{an}{dv(ref, got)}:{name}', f'{an} on {name}: cycle scale {c}: {bad} not equivariant', {'dataset': name, 'analyzer': an, 'c': c})
            rng = np.random.default_rng(ctx.seed + 99)
            for _ in range(3):
                d2 = df.iloc[rng.permutation(len(df))].reset_index(drop=True)
                got = _analyze(an, d2, limit)
                ctx.case(True, key=(name, an, 'perm', _))
                bad = [k for k in ('k_1', 'TN', 'TS', 'SD', 'ND') if not _close(float(got[k]), float(ref[k]), tol if an.startswith('MaxLike') else 1e-9)]
                if bad:
                    ctx.fail(f'C18:permutation:{an}{dv(ref, got)}:{name}', f'{an} on {name}: row permutation changes {bad}', {'dataset': name, 'analyzer': an})
            # row labels are bookkeeping: the same rows in the same order with repeating labels (a series assembled with pd.concat from several campaigns), with
            # string labels and with the labels of a shuffled frame (added after seed C18-c selected the finite zone by label)
            relabel = {'repeating': [i % 5 for i in range(len(df))], 'strings': [f't{i:03d}' for i in range(len(df))], 'shuffled-unique': list(np.random.default_rng(5).permutation(len(df)))}
            for lname, labels in relabel.items():
                d2 = df.copy()
                d2.index = pd.Index(labels)
                try:
                    got = _analyze(an, d2, limit)
                except Exception as e:   # noqa
                    ctx.fail(f'C18:row-labels:{an}:raises:{type(e).__name__}', f'{an} on {name} with {lname} row labels raises {type(e).__name__}: {e}', {'dataset': name, 'analyzer': an, 'labels': lname})
                    continue
                ctx.case(True, key=(name, an, 'labels', lname))
                bad = [k for k in ('k_1', 'TN', 'TS', 'SD', 'ND') if not _close(float(got[k]), float(ref[k]), 1e-9)]
                if bad:
                    ctx.fail(f'C18:row-labels:{an}{dv(ref, got)}:{name}', f'{an} on {name}: {lname} row labels change {bad}: {dict(got[["SD", "k_1", "ND", "TN", "TS"]])} vs {dict(ref[["SD", "k_1", "ND", "TN", "TS"]])}',
                             {'dataset': name, 'analyzer': an, 'labels': lname})
        if not ctx.mine():
            continue
        # zones and likelihood
        for lname, labels in (('repeating', [i % 5 for i in range(len(df))]),):
            d2 = df.copy()
            d2.index = pd.Index(labels)
            fd2 = woehler.determine_fractures(d2, limit).fatigue_data
            fd1 = woehler.determine_fractures(df, limit).fatigue_data
            ctx.case(True, key=(name, 'zones', lname))
            if len(fd2.finite_zone) != len(fd1.finite_zone) or len(fd2.infinite_zone) != len(fd1.infinite_zone) or sorted(fd2.finite_zone.load) != sorted(fd1.finite_zone.load):
                ctx.fail('C18:zones:row-labels', f'{name}: with {lname} row labels the zones hold {len(fd2.finite_zone)} + {len(fd2.infinite_zone)} tests instead of {len(fd1.finite_zone)} + {len(fd1.infinite_zone)}', {'dataset': name, 'labels': lname})
        fd = woehler.determine_fractures(df, limit).fatigue_data
        tr = fd.finite_infinite_transition
        fz, iz = fd.finite_zone, fd.infinite_zone
        ctx.case(True, key=(name, 'zones'))
        if len(fz) + len(iz) != len(df) or set(fz.index) & set(iz.index) or not (fz.load > tr).all() or not (iz.load < tr).all() or not fz.fracture.all():
            ctx.fail('C18:zones', f'{name}: finite / infinite zones do not partition the tests at the transition {tr}', {'dataset': name})
        try:
            el = _analyze('Elementary', df, limit)
            ml = _analyze('MaxLikeFull', df, limit)
            lh = Likelihood(fd)
            l_el = lh.likelihood_total(el['SD'], el['TS'], el['k_1'], el['ND'], el['TN'])
            l_ml = lh.likelihood_total(ml['SD'], ml['TS'], ml['k_1'], ml['ND'], ml['TN'])
            ctx.case(True, key=(name, 'likelihood'))
            if l_ml < l_el - 1e-6 * abs(l_el):
                ctx.fail('C18:likelihood', f'{name}: likelihood of the ML estimate {l_ml} below the elementary start {l_el}', {'dataset': name})
        except Exception:   # noqa
            ctx.count('likelihood-comparison-skipped')
    ctx.sample({'dataset': 'synthetic-0', 'analyzers': analyzers, 'transformations': ['load x 0.5/2/1000', 'cycles x 0.1/10', 'permutations']})


@bounded('C18', 'exact-basquin', shards=2)
def b_exact(ctx):
    """data lying exactly on a Basquin line are returned with that slope and no scatter (TN = TS = 1)"""
    import warnings
    import numpy as np
    import pandas as pd
    import pylife.materialdata.woehler as woehler
    warnings.simplefilter('ignore')
    ctx.bound = "Basquin lines k in {3, 5, 8.5}, SD in {100, 350}, ND in {5e5, 2e6}; 5 load levels x 2 tests, with and without run-outs below SD; Elementary"
    ctx.rule = "every line is one non-trivial case"
    cases = [(k, SD, ND, ro) for k in (3.0, 5.0, 8.5) for SD in (100.0, 350.0) for ND in (5e5, 2e6) for ro in (False, True)]
    for idx, (k, SD, ND, ro) in enumerate(cases):
        if idx % ctx.nshards != ctx.shard:
            continue
        rows = []
        for f in (1.1, 1.25, 1.4, 1.6, 1.9):
            for _ in range(2):
                rows.append((SD * f, ND * f ** (-k)))
        limit = ND * 20
        if ro:
            rows += [(SD * 0.9, limit), (SD * 0.9, limit), (SD * 0.8, limit)]
        df = pd.DataFrame(rows, columns=['load', 'cycles'])
        wc = woehler.Elementary(woehler.determine_fractures(df, limit)).analyze()
        ctx.case(True, key=(k, SD, ND, ro))
        if abs(wc['k_1'] - k) > 1e-9 * k:
            ctx.fail(f'C18:exact-basquin-slope:k={k},SD={SD},ND={ND},runouts={ro}', f'exact Basquin data k={k}: estimated k_1={wc["k_1"]}', {'k': k, 'SD': SD, 'ND': ND, 'runouts': ro})
        elif abs(wc['TN'] - 1) > 1e-6 or abs(wc['TS'] - 1) > 1e-6:
            ctx.fail(f'C18:exact-basquin-scatter:k={k},SD={SD},ND={ND},runouts={ro}', f'exact Basquin data k={k}, SD={SD}, ND={ND}, run-outs={ro}: estimated k_1={wc["k_1"]}, TN={wc["TN"]}, TS={wc["TS"]}', {'k': k, 'SD': SD, 'ND': ND, 'runouts': ro})
        # the same through the DataFrame entry point with the user's own fracture flags, one run-out suspended early (at a fifth of the limit)
        if ro:
            dfu = pd.DataFrame(rows[:-3] + [(SD * 0.9, limit), (SD * 0.9, limit / 5), (SD * 0.8, limit)], columns=['load', 'cycles'])
            dfu['fracture'] = [True] * (len(rows) - 3) + [False] * 3
            wcu = woehler.Elementary(dfu).analyze()
            ctx.case(True, key=(k, SD, ND, 'user-flags'))
            # (the slope only: the scatter of exact data is the recorded finding C18 exact-basquin-scatter, keyed per line above)
            if abs(wcu['k_1'] - k) > 1e-9 * k:
                ctx.fail('C18:exact-basquin:user-fracture-flags', f'exact Basquin data k={k}, SD={SD}, ND={ND} given as a DataFrame with its own fracture column (one run-out suspended early): k_1={wcu["k_1"]}, TN={wcu["TN"]}, TS={wcu["TS"]}', {'k': k, 'SD': SD, 'ND': ND})
        # the estimated line passes through the data: N(SD_est) = ND_est on the line
        want_ND = ND * (wc['SD'] / SD) ** (-k) if wc['SD'] > 0 else None
        if want_ND is not None and abs(wc['ND'] - want_ND) > 1e-6 * want_ND:
            ctx.fail('C18:exact-basquin-ND', f'k={k}: ND={wc["ND"]} is not on the line at SD={wc["SD"]} ({want_ND})', {'k': k, 'SD': SD, 'ND': ND})
    # the number of run-outs (0, 1, 2, 3 on the lowest level): the zones partition the tests at the reported transition, and one run-out gives the transition that
    # two run-outs on the same level give (added after seed C18-h reported the transition 0.0 for a series with exactly one run-out)
    if ctx.shard == 0:
        base = [(L, 2e5 * (L / 400.0) ** -5 * f) for L in (480.0, 440.0, 400.0, 360.0) for f in (0.8, 1.25)] + [(330.0, 9e5)]
        trans = {}
        for nro in (0, 1, 2, 3):
            dfr = pd.DataFrame(base + [(330.0, 1e7)] * nro, columns=['load', 'cycles'])
            fdr = woehler.determine_fractures(dfr, 1e7).fatigue_data
            tr = float(fdr.finite_infinite_transition)
            trans[nro] = tr
            ctx.case(True, key=('number-of-runouts', nro))
            fin, inf_ = fdr.finite_zone, fdr.infinite_zone
            if nro == 0:
                if tr != 0.0 or len(inf_) != 0 or len(fin) != len(dfr):
                    ctx.fail('C18:zones:no-runout', f'series without run-outs: transition {tr}, {len(fin)} / {len(inf_)} tests in the finite / infinite zone', {'runouts': nro})
                continue
            if len(fin) + len(inf_) != len(dfr) or (len(inf_) and float(inf_.load.max()) > tr) or (len(fin) and float(fin.load.min()) <= tr):
                ctx.fail(f'C18:zones:partition-at-transition:runouts={nro}', f'series with {nro} run-out(s) at 330: reported transition {tr}, infinite zone loads {sorted(set(inf_.load))}, finite zone loads {sorted(set(fin.load))}', {'runouts': nro})
        if len({trans[1], trans[2], trans[3]}) != 1:
            ctx.fail('C18:zones:transition-depends-on-runout-count', f'transition for 1 / 2 / 3 run-outs on the same level: {trans[1]} / {trans[2]} / {trans[3]}', None)
    ctx.sample({'k': 5.0, 'SD': 350.0, 'ND': 2e6})


META = {
    'level': 'exploration',
    'explanation': "bounded stand-in (labelled) for the estimator clauses: the analyzers rest on scipy regression / Nelder-Mead / probit fits, which have no usable contract; "
                   "equivariance, permutation invariance, exact recovery and the likelihood ordering are evaluated on seeded synthetic test series. Proved (small P part): the "
                   "finite / infinite zone selection of FatigueData partitions the tests at the highest run-out load, the reported transition is 0 exactly when there is no run-out (any number n >= 1 of run-outs gives the half level above the highest one), and rossow_cumfreqs.",
    'not_decided': ["estimators beyond the enumerated data sets", "that Nelder-Mead never returns a point of lower likelihood than its start (checked on the data sets only)"],
    'trusted_base': ['scipy.stats.linregress / optimize.fmin'],
    'rule': "each (data set, analyzer, transformation) is one case",
}
