"""Bounded stand-ins for C01-C03 on the real detectors (rebuilt extension, DESIGN 2.1 / 2.9)."""
import itertools
import numpy as np

from pv import extbuild
from specs.rainflow_spec import TP, M4, MH, four_point, compositions

_rf = None


def rf():
    global _rf
    if _rf is None:
        extbuild.install()
        import pylife.stress.rainflow as m
        _rf = m
    return _rf


DETECTORS = ('three', 'four', 'fkm')


def make(det):
    m = rf()
    rec = m.FullRecorder()
    cls = {'three': m.ThreePointDetector, 'four': m.FourPointDetector, 'fkm': m.FKMDetector}[det]
    return cls(recorder=rec), rec


def run(det, chunks, flush=False):
    d, rec = make(det)
    for i, c in enumerate(chunks):
        d.process(np.asarray(c, dtype=float), flush=(flush and i == len(chunks) - 1)) if flush else d.process(np.asarray(c, dtype=float))
    out = {'from': list(map(float, rec.values_from)), 'to': list(map(float, rec.values_to)),
           'residuals': list(map(float, d.residuals)), 'chunks': list(map(int, rec.chunks))}
    if det != 'fkm':
        out['ifrom'] = list(map(int, rec.index_from))
        out['ito'] = list(map(int, rec.index_to))
        out['residual_index'] = list(map(int, d.residual_index))
    return out, d, rec


def signals(alphabet, maxlen, minlen=1):
    for L in range(minlen, maxlen + 1):
        for s in itertools.product(range(alphabet), repeat=L):
            yield s


def split(sig, sizes):
    out, p = [], 0
    for z in sizes:
        out.append(sig[p:p + z])
        p += z
    return out


def repro_chunks(det, sig, sizes):
    return ("import numpy as np\nimport pylife.stress.rainflow as rf\n"
            f"sig = {list(sig)!r}; sizes = {list(sizes)!r}\n"
            f"cls = {{'three': rf.ThreePointDetector, 'four': rf.FourPointDetector, 'fkm': rf.FKMDetector}}[{det!r}]\n"
            "def run(chunks):\n    rec = rf.FullRecorder(); d = cls(recorder=rec)\n    for c in chunks: d.process(np.asarray(c, dtype=float))\n"
            "    return list(rec.values_from), list(rec.values_to), list(rec.index_from), list(rec.index_to), list(d.residuals), list(d.residual_index)\n"
            "chunks, p = [], 0\nfor z in sizes:\n    chunks.append(sig[p:p+z]); p += z\n"
            "a, b = run([sig]), run(chunks)\nprint(a); print(b)\nassert str(a) == str(b), 'chunked run differs from the one-piece run'\n")
