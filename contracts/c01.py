"""C01 - rainflow counting is independent of how the signal is chunked."""
import z3
from pv.api import obligation
from pv.bounded import bounded
from pv.sym import SV, RV
from pv.interp import SArr, Obj, Opaque
from contracts.rainflow_common import EXT, FKM, GEN, absz, closes, sel, fourpoint_inputs, fourpoint_invariant, fourpoint_variant
from contracts import c02

NEEDS_EXT = True

# kernel safety / accounting / termination and the FKM loop-state closure are the obligations of C02, reused here
obligation('C01', 'fourpoint_loop.kernel', functions=[EXT + 'fourpoint_loop'])(c02.fourpoint_kernel)
obligation('C01', 'threepoint_loop.kernel', functions=[EXT + 'threepoint_loop', EXT + '_max'])(c02.threepoint_kernel)
obligation('C01', 'fkm.process.loop-state-closure', functions=[FKM + '.process'])(c02.fkm_process)


@obligation('C01', 'fourpoint_loop.restart', functions=[EXT + 'fourpoint_loop'])
def restart_lemma(o):
    """Restart lemma: if the first m entries of `turns` form an irreducible stack (the stored residuals), the kernel re-pushes
    them silently: nothing closes while i < m, and when the first new element (position m) is the next one the state is
    ri = m, t = 0, residual_index[j] = j.  Hence restarting from the stored residuals equals continuing."""
    turns, tidx = fourpoint_inputs(o)
    n = turns.n
    m = o.int('m')
    k = z3.Int('k_')
    o.assume(m >= 2, m <= n)
    o.assume(z3.ForAll([k], z3.Implies(z3.And(k >= 0, k + 3 < m),
                                        z3.Not(closes(z3.Select(turns.a, k), z3.Select(turns.a, k + 1), z3.Select(turns.a, k + 2), z3.Select(turns.a, k + 3))))))
    base = fourpoint_invariant(turns, tidx, None, with_irreducible=False, with_values=False)

    def inv(v):
        j = z3.Int('j!r')
        return z3.And(base(v), z3.Implies(v.i < m, v.t == 0),
                      z3.Implies(z3.And(v.i <= m, v.t == 0),
                                 z3.And(v.ri == v.i, z3.ForAll([j], z3.Implies(z3.And(j >= 0, j < v.ri), sel(v.residual_index_v, j) == j)))))
    o.loop(EXT + 'fourpoint_loop', 0, inv)
    f = o.func(EXT + 'fourpoint_loop')
    ps = o.paths(lambda: o.I.call(f, [turns, tidx]))
    o.skip_kinds = {'safety', 'variant'}
    for p in ps:
        o.take_side_obligations(p, 'fourpoint_loop')
    o.note("inv-init / inv-preserve of the strengthened invariant are the lemma; safety obligations are discharged in fourpoint_loop.kernel")


@obligation('C01', 'fourpoint_loop.abstract-state', functions=[EXT + 'fourpoint_loop'])
def abstract_state(o):
    """Relational step lemma: two kernel runs whose residual stacks carry equal (value, global index) sequences and that see
    the same next element take the same branch, emit the same cycle and stay related - the continuation depends only on what
    the detector stores (values and global indices), not on positions inside the concatenated array."""
    # one loop iteration on two states; written over the values the branch reads
    a, b, c, d = o.reals('a b c d')
    a2, b2, c2, d2 = o.reals('a2 b2 c2 d2')
    o.assume(a == a2, b == b2, c == c2, d == d2)
    o.prove('same closing decision', closes(a, b, c, d) == closes(a2, b2, c2, d2), kind='relational')
    # and the real loop body reads exactly the top three stack values and the next element: checked on the body
    turns, tidx = fourpoint_inputs(o, 'L_')
    n = turns.n
    reads = []

    def inv(v):
        return fourpoint_invariant(turns, tidx, None, with_irreducible=False, with_values=False)(v)
    o.loop(EXT + 'fourpoint_loop', 0, inv)
    f = o.func(EXT + 'fourpoint_loop')
    ps = o.paths(lambda: o.I.call(f, [turns, tidx]))
    body = [p for p in ps if p.kind == 'end']
    o.prove('loop body has three paths (push below three, close, push)', z3.BoolVal(len(body) == 3))
    # the closing path's decision is the four point rule on turns[R[ri-3]], turns[R[ri-2]], turns[R[ri-1]], turns[i]
    found = False
    for p in body:
        txt = ' '.join(str(x) for x in p.pc)
        if 'L_turns' in txt:
            found = True
    o.prove('branch conditions only read turns through the stack and the cursor', z3.BoolVal(found))
    o.trusted("meta-rule: step-wise simulation of related states implies equal runs (induction over the run, DESIGN 7.4)")


@obligation('C01', 'lemma.provisional-sample')
def provisional_sample(o):
    """Provisional-sample lemma over the four-point machine (linear arithmetic): on a zig-zag stack ... a, b, c with next sample d
    in the direction away from c, if d lies between c and a later d' (same direction, |c-d| <= |c-d'|) then every closing step taken
    with d is also taken with d'.  So cycles recorded early because of the provisional last sample of a chunk are a prefix of those
    recorded later."""
    a, b, c, d, d2 = o.reals('a b c d d2')
    same_dir = z3.Or(z3.And(d >= c, d2 >= d), z3.And(d <= c, d2 <= d))
    o.assume(same_dir)
    o.prove('closes(a,b,c,d) -> closes(a,b,c,d2)', z3.Implies(closes(a, b, c, d), closes(a, b, c, d2)), kind='lemma')
    # after closing (b,c) the stack top is a: zig-zag property a <= c < b <= d (or mirrored) is preserved
    zig = z3.Or(z3.And(a <= c, c < b, b <= d), z3.And(a >= c, c > b, b >= d))
    o.prove('closing keeps the direction: d continues away from a', z3.Implies(z3.And(closes(a, b, c, d), z3.Or(z3.And(c < b, d >= c), z3.And(c > b, d <= c)),
                                                                              z3.Or(z3.And(a < b, c < b), z3.And(a > b, c > b))),
                                                                       z3.Or(z3.And(d >= a, d >= c), z3.And(d <= a, d <= c))), kind='lemma')
    o.canary('canary: closes(a,b,c,d2) -> closes(a,b,c,d)', z3.Implies(closes(a, b, c, d2), closes(a, b, c, d)))


REC = GEN + 'AbstractRecorder'


@obligation('C01', 'chunk_local_index', functions=[REC + '.chunk_local_index', REC + '.report_chunk'])
def chunk_local_index(o):
    """with chunk sizes c_0..c_{k-1} > 0 and 0 <= g < sum(c): the result (j, l) satisfies  CI[j] <= g < CI[j+1] and l = g - CI[j],
    i.e. sample g is at position l of chunk j (CI = exclusive prefix sums)"""
    chunks = o.array('chunks', 'int')
    k = chunks.n
    g = o.int('g')
    o.assume(k >= 1)
    q = z3.Int('q_')
    o.assume(z3.ForAll([q], z3.Implies(z3.And(q >= 0, q < k), z3.Select(chunks.a, q) > 0)))
    rec = o.new(REC)                        # through the real __init__ (whatever bookkeeping fields it sets up), then the reported chunks
    rec.fields['_chunks'] = chunks
    o.track(rec)
    ps = o.paths(lambda: o.I.call(o.method(rec, 'chunk_local_index'), [SV(g, kind='scalar')]))
    rets = [p for p in ps if p.kind == 'return']
    o.shape('chunk_local_index has exactly one returning path', len(rets) == 1, [(p.kind, getattr(p.exc, 'lineno', None)) for p in ps])
    p = rets[0]
    o.take_side_obligations(p, 'chunk_local_index')
    j, l = p.result
    CS = o.I.cumsum_records[-1]['out']      # inclusive prefix sums of the chunk sizes (model of np.cumsum)
    total = z3.Select(CS, k - 1)
    rng = z3.And(g >= 0, g < total)
    lo = z3.If(j.t == 0, z3.IntVal(0), z3.Select(CS, j.t - 1))
    o.prove('chunk number in range', z3.Implies(rng, z3.And(j.t >= 0, j.t < k)), under=p.pc)
    o.prove('CI[j] <= g < CI[j+1]', z3.Implies(rng, z3.And(lo <= g, g < z3.Select(CS, j.t))), under=p.pc)
    o.prove('local index = g - CI[j] within the chunk', z3.Implies(rng, z3.And(l.t == g - lo, l.t >= 0, l.t < z3.Select(chunks.a, j.t))), under=p.pc)
    o.canary('canary: chunk number is always 0', z3.Implies(rng, j.t == 0), under=p.pc)
    # streaming use: a look-up, then a further chunk is reported, then another look-up on the same recorder - the second answer is about ALL chunks reported so far
    # (added after seed C01-e cached the chunk borders at the first look-up)
    c_new, g2 = o.int('c_new'), o.int('g2')
    o.assume(c_new > 0)
    rec2 = o.new(REC)
    rec2.fields['_chunks'] = chunks
    n_cs = len(o.I.cumsum_records)

    def history():
        n0 = len(o.I.cumsum_records)
        o.I.call(o.method(rec2, 'chunk_local_index'), [SV(g, kind='scalar')])
        o.I.call(o.method(rec2, 'report_chunk'), [SV(c_new)])
        n1 = len(o.I.cumsum_records)
        r = o.I.call(o.method(rec2, 'chunk_local_index'), [SV(g2, kind='scalar')])
        return r, list(o.I.cumsum_records[n1:]), n1 - n0
    o.track(rec2)
    ps2 = o.paths(history)
    rets2 = [p_ for p_ in ps2 if p_.kind == 'return']
    o.shape('look-up / report_chunk / look-up has exactly one returning path', len(rets2) == 1, [(p_.kind, getattr(p_.exc, 'lineno', None)) for p_ in ps2])
    p2 = rets2[0]
    (j2, l2), recs2, _n_first = p2.result
    # the second answer, stated like the first one over the prefix sums the second look-up forms of the chunk list it sees (no induction needed); that list has to be
    # the reported chunks followed by the new one.  An implementation that answers the second look-up without forming prefix sums again is outside this contract
    # (reported as unbound; the streaming look-ups of the bounded contract chunk-independence decide it)
    if len(recs2) < 1:
        o.note("the second look-up forms no prefix sums of its own: history obligations not generated")
        return
    A2, CS2 = recs2[-1]['in'], recs2[-1]['out']
    o.prove('the second look-up works on the reported chunks followed by the new chunk',
            z3.And(A2.n == k + 1, z3.Select(A2.a, k) == c_new, z3.ForAll([q], z3.Implies(z3.And(q >= 0, q < k), z3.Select(A2.a, q) == z3.Select(chunks.a, q)))), under=p2.pc)
    total2 = z3.Select(CS2, k)
    rng2 = z3.And(g2 >= 0, g2 < total2)
    lo2 = z3.If(j2.t == 0, z3.IntVal(0), z3.Select(CS2, j2.t - 1))
    o.prove('second look-up: chunk number in range', z3.Implies(rng2, z3.And(j2.t >= 0, j2.t < k + 1)), under=p2.pc)
    o.prove('second look-up: CI[j] <= g < CI[j+1] and local index = g - CI[j]', z3.Implies(rng2, z3.And(lo2 <= g2, g2 < z3.Select(CS2, j2.t), l2.t == g2 - lo2)), under=p2.pc)

FPD = 'pylife/stress/rainflow/fourpoint.py::FourPointDetector'
TPD = 'pylife/stress/rainflow/threepoint.py::ThreePointDetector'


class KernelNS:
    """pylife.rainflow_ext under contract: the compiled kernels are replaced by 'called with (arguments), returns five arrays' (their own contracts are the
    obligations of fourpoint_loop.* / the C02 kernel generators); the glue obligations below speak about the arguments handed over and the use of the results"""
    def __init__(self, o):
        self.o = o
        self.calls = []

    def get(self, name):
        def kernel(*args):
            o = self.o
            out = (o.array('from_vals_k', 'real'), o.array('to_vals_k', 'real'), o.array('from_index_k', 'int'), o.array('to_index_k', 'int'), o.array('residual_index_k', 'int'))
            # kernel postconditions (obligations of the C02 kernel generators): the residual positions are strictly increasing positions of the input, at least one
            n_in = args[0].n
            qq = z3.Int('qk_')
            o.I.assume(out[4].n >= (2 if name == 'threepoint_loop' else 1))
            o.I.assume(z3.ForAll([qq], z3.Implies(z3.And(qq >= 0, qq < out[4].n), z3.And(z3.Select(out[4].a, qq) >= 0, z3.Select(out[4].a, qq) < n_in))))
            o.I.assume(z3.ForAll([qq], z3.Implies(z3.And(qq >= 0, qq + 1 < out[4].n), z3.Select(out[4].a, qq) < z3.Select(out[4].a, qq + 1))))
            self.calls.append((name, args, out))
            return out
        return kernel


def _glue(o, ref, kernel_name, three):
    q = z3.Int('q_')
    det = Obj(o.cls(ref))
    res = o.array('residuals0', 'real')
    rix = o.array('residual_index0', 'int')
    samples = o.array('samples', 'real')
    # representation invariant of the detector between chunks (established by AbstractDetector.__init__: no residuals, residual index [0]; re-established below)
    o.assume(samples.n >= 1, res.n >= 0, z3.If(res.n == 0, z3.And(rix.n == 1, z3.Select(rix.a, 0) == 0), rix.n == res.n - 1))
    if three:
        # the three-point kernel leaves at least two residuals (its front point and the provisional last sample): with exactly one stored residual np.argmax of the
        # empty front would raise.  Not derived from the kernel's loop invariant here: assumed, with the bounded contract 'threepoint-residuals>=2' as evidence
        o.assume(res.n != 1)
        o.trusted("three-point kernel leaves >= 2 residuals (bounded contract threepoint-residuals>=2; not derived deductively)")
    det.fields.update({'_residuals': res, '_residual_index': rix, '_recorder': Opaque(('external', 'recorder'))})
    o.track(det)
    tix = o.array('new_turns_index', 'int')
    tv = o.array('new_turns_values', 'real', n=tix.n)
    o.spec(GEN + 'AbstractDetector._new_turns', lambda I, args, kw: (tix, tv))
    kns = KernelNS(o)
    o.I.libs['pylife.rainflow_ext'] = kns
    flush = o.bool('flush')

    def thunk():
        kns.calls.clear()
        o.I.external_calls = []
        r = o.I.call(o.method(det, 'process'), [samples, SV(flush)])
        return r, list(kns.calls), list(o.I.external_calls), det.fields['_residuals'], det.fields['_residual_index']
    ps = o.paths(thunk)
    rets = [p for p in ps if p.kind == 'return']
    o.shape(f'process returns on every path', len(rets) == len(ps) and len(rets) >= 1, [(p.kind, getattr(p.exc, 'exc_type', None)) for p in ps])
    cl = {}

    def clause(label, pc, goal):
        cl.setdefault(label, []).append(z3.Implies(z3.And(*pc) if pc else z3.BoolVal(True), goal if z3.is_expr(goal) else z3.BoolVal(bool(goal))))
    for p in rets:
        o.take_side_obligations(p, 'process')
        r, calls, ext, res2, rix2 = p.result
        clause('process returns self', p.pc, r is det)
        clause(f'{kernel_name} is called exactly once', p.pc, len(calls) == 1 and calls[0][0] == kernel_name)
        if len(calls) != 1:
            continue
        _, args, out = calls[0]
        turns, tindex = args[0], args[1]
        nres = z3.If(res.n == 0, z3.IntVal(1), res.n - 1)            # residuals handed on: the first sample, or the stored residuals without the provisional last one

        def resin(k):
            return z3.If(res.n == 0, z3.Select(samples.a, k), z3.Select(res.a, k))
        clause('kernel input = stored residuals (without the provisional one) ++ new turning points ++ last sample of the chunk', p.pc,
               z3.And(turns.n == nres + tv.n + 1,
                      z3.ForAll([q], z3.Implies(z3.And(q >= 0, q < nres), z3.Select(turns.a, q) == resin(q))),
                      z3.ForAll([q], z3.Implies(z3.And(q >= 0, q < tv.n), z3.Select(turns.a, nres + q) == z3.Select(tv.a, q))),
                      z3.Select(turns.a, nres + tv.n) == z3.Select(samples.a, samples.n - 1)))
        clause('kernel index input = stored residual indices ++ indices of the new turning points', p.pc,
               z3.And(tindex.n == rix.n + tix.n,
                      z3.ForAll([q], z3.Implies(z3.And(q >= 0, q < rix.n), z3.Select(tindex.a, q) == z3.Select(rix.a, q))),
                      z3.ForAll([q], z3.Implies(z3.And(q >= 0, q < tix.n), z3.Select(tindex.a, rix.n + q) == z3.Select(tix.a, q)))))
        if three:
            hf, lf, nr = args[2], args[3], args[4]
            clause('three-point front guard: positions of the largest / smallest stored residual and their number', p.pc,
                   z3.And(nr.t == nres, hf.t >= 0, hf.t < nres, lf.t >= 0, lf.t < nres,
                          z3.ForAll([q], z3.Implies(z3.And(q >= 0, q < nres), z3.And(resin(q) <= resin(hf.t), resin(q) >= resin(lf.t))))))
        ridx = out[4]
        clause('new residuals = kernel input at the residual positions the kernel returns', p.pc,
               z3.And(res2.n == ridx.n, z3.ForAll([q], z3.Implies(z3.And(q >= 0, q < ridx.n), z3.Select(res2.a, q) == z3.Select(turns.a, z3.Select(ridx.a, q))))))
        clause('new residual indices = kernel index input at the residual positions except the provisional last one', p.pc,
               z3.And(rix2.n == ridx.n - 1, z3.ForAll([q], z3.Implies(z3.And(q >= 0, q < ridx.n - 1), z3.Select(rix2.a, q) == z3.Select(tindex.a, z3.Select(ridx.a, q))))))
        clause('the representation invariant holds again (at least one residual - two for three-point -, one index fewer than residuals)', p.pc, z3.And(res2.n >= (2 if three else 1), rix2.n == res2.n - 1))
        names = [c[1] for c in ext]
        clause('the recorder receives the kernel results once each and the chunk length', p.pc,
               names == ['record_values', 'record_index', 'report_chunk'] and ext[0][2][0] is out[0] and ext[0][2][1] is out[1] and ext[1][2][0] is out[2] and ext[1][2][1] is out[3])
        if names == ['record_values', 'record_index', 'report_chunk']:
            ln = ext[2][2][0]
            clause('report_chunk receives the number of samples of the chunk', p.pc, (ln.t if hasattr(ln, 't') else z3.IntVal(ln)) == samples.n)
    for label, fs in cl.items():
        o.prove(label, z3.And(*fs), kind='glue')
    o.trusted("contract of _new_turns (returns index / value arrays of equal length): bounded stand-in only (vectorised numpy)")


@obligation('C01', 'fourpoint.process.glue', functions=[FPD + '.process'])
def fourpoint_glue(o):
    """FourPointDetector.process for every stored state, every chunk and every result of _new_turns: what is handed to the kernel, what is stored for the next chunk
    and what the recorder receives (the carry-over that makes the restart lemma applicable)"""
    _glue(o, FPD, 'fourpoint_loop', False)


@obligation('C01', 'threepoint.process.glue', functions=[TPD + '.process'])
def threepoint_glue(o):
    """ThreePointDetector.process: as for the four-point detector, plus the front-guard arguments (argmax / argmin and number of the stored residuals)"""
    _glue(o, TPD, 'threepoint_loop', True)


@bounded('C01', 'threepoint-residuals>=2', shards=4)
def b_three_res(ctx):
    """after every process() call of the three-point detector at least two residuals are stored (evidence for the precondition of threepoint.process.glue)"""
    import itertools
    import warnings
    import numpy as np
    import pylife.stress.rainflow as RF
    warnings.simplefilter('ignore')
    maxlen = 6 if ctx.tier == 'quick' else 8
    ctx.bound = f"all signals over {{0,1,2,3}} of length 1..{maxlen}, one piece and every split into two chunks"
    ctx.rule = "every (signal, split) is one case"
    ctx.exhaustive = True
    for L in range(1, maxlen + 1):
        for s_ in itertools.product([0.0, 1.0, 2.0, 3.0], repeat=L):
            if not ctx.mine():
                continue
            for cut in range(0, L):
                d = RF.ThreePointDetector(recorder=RF.LoopValueRecorder())
                ctx.case(True)
                lens = []
                if cut > 0:
                    d.process(np.array(s_[:cut]))
                    lens.append(len(d._residuals))
                d.process(np.array(s_[cut:]))
                lens.append(len(d._residuals))
                if min(lens) < 2:
                    ctx.fail('C01:threepoint-single-residual', f'three-point detector stores {lens} residuals after processing {s_} split at {cut}', {'signal': s_, 'cut': cut})
    ctx.sample({'signal': [0, 3, 1, 2], 'cut': 2})


# ---------------------------------------------------------------------------------------------
@bounded('C01', 'chunk-independence', shards=16)
def b_chunks(ctx):
    """end-to-end contract of process(): for every signal up to the bound and EVERY partition into non-empty chunks the recorder
    values / indices, residuals and residual_index equal the one-piece run, and chunk_local_index maps every reported index to
    the chunk and position holding that sample; three-point, four-point and FKM detector"""
    from contracts.rainflow_bounded import run, signals, split, repro_chunks, DETECTORS
    from specs.rainflow_spec import compositions, TP
    A, N = (4, 6) if ctx.tier == 'quick' else (4, 8)
    ctx.bound = f"all signals over alphabet {{0..{A-1}}} of length 1..{N} x all 2^(len-1) partitions into consecutive non-empty chunks, 3 detectors; plus seeded alternating integer sequences in [-3, 3] of length 10..16 (quick 4000, thorough 60000) x every split into two chunks and one random partition"
    ctx.rule = "non-trivial: >= 2 chunks and the signal has a turning point; distinct by (detector, signal, partition)"
    ctx.exhaustive = False
    for s in signals(A, N):
        if not ctx.mine():
            continue
        nt = len(TP(s)) > 0
        for det in DETECTORS:
            ref, _, _ = run(det, [s])
            for sizes in compositions(len(s)):
                chunks = split(s, sizes)
                got, d, rec = run(det, chunks)
                ctx.case(nt and len(sizes) > 1)
                # the FKM detector reports no sample indices and does not report chunks to the recorder
                ref2 = dict(ref, chunks=sizes if det != 'fkm' else got['chunks'])
                if got != ref2:
                    diff = [k for k in ref2 if got.get(k) != ref2[k]]
                    ctx.fail(f'C01:chunking:{det}', f'{det} detector, signal {list(s)}, chunks {sizes}: {diff} differ from the one-piece run', repro_chunks(det, s, sizes))
                    continue
                # chunk_local_index for every reported index
                if det != 'fkm':
                    import numpy as np
                    for g in got['ifrom'] + got['ito'] + got['residual_index']:
                        cn, li = rec.chunk_local_index(np.int64(g))
                        if not (0 <= cn < len(chunks) and 0 <= li < len(chunks[cn]) and chunks[cn][li] == s[g]):
                            ctx.fail(f'C01:chunk_local_index', f'global index {g} of {list(s)} with chunks {sizes} mapped to chunk {cn} pos {li}', repro_chunks(det, s, sizes))
    # longer signals with both signs (the FKM rule compares |turn| values: a tie between a positive and a negative extreme needs >= 7 reversals to matter across a
    # chunk border - added after seed C01-d): seeded alternating integer sequences in [-3, 3], every split into two chunks and one random partition
    import random
    nw = 4000 if ctx.tier == 'quick' else 60000
    for w in range(nw):
        if not ctx.mine():
            continue
        rng = random.Random(7919 * ctx.seed + w)
        n, up = rng.randrange(10, 17), rng.random() < 0.5
        s = [float(rng.randrange(-3, 4))]
        while len(s) < n:
            lo, hi = (int(s[-1]) + 1, 3) if up else (-3, int(s[-1]) - 1)
            if lo <= hi:
                s.append(float(rng.randrange(lo, hi + 1)))
            up = not up
        s = tuple(s)
        # streaming use of the recorder's chunk bookkeeping: after EVERY chunk the indices reported so far are looked up (added after seed C01-e cached the chunk
        # borders at the first look-up)
        if w % 8 == 0:
            import numpy as np
            for det in ('three', 'four'):
                from contracts.rainflow_bounded import make
                d_, rec_ = make(det)
                sizes_ = [3, 2, 4, len(s) - 9]
                pos = 0
                for z in sizes_:
                    d_.process(np.asarray(s[pos:pos + z], dtype=float))
                    pos += z
                    chs, borders = split(s, sizes_), np.cumsum([0] + sizes_)
                    for gidx in list(map(int, rec_.index_from)) + list(map(int, rec_.index_to)) + list(map(int, d_.residual_index)):
                        cn, li = rec_.chunk_local_index(np.int64(gidx))
                        ctx.case(True)
                        if not (0 <= cn < len(sizes_) and 0 <= li < sizes_[cn] and borders[cn] + li == gidx and chs[cn][li] == s[gidx]):
                            ctx.fail('C01:chunk_local_index:streaming', f'{det}: after {pos} samples in chunks {sizes_} global index {gidx} of {list(s)} is mapped to chunk {cn} position {li}', repro_chunks(det, s, sizes_))
                            break
        # the chunks delivered through ONE buffer that the caller refills (what a block-wise reader does): the detector must not keep a view of it
        # (added after seed C01-f stopped copying the first chunk)
        if w % 8 == 1:
            import numpy as np
            from contracts.rainflow_bounded import make
            for det in DETECTORS:
                ref1, _, _ = run(det, [s])
                d_, rec_ = make(det)
                buf = np.zeros(4)
                for p_ in range(0, len(s), 4):
                    blk = s[p_:p_ + 4]
                    buf[:len(blk)] = blk
                    d_.process(buf[:len(blk)])
                got1 = (list(map(float, rec_.values_from)), list(map(float, rec_.values_to)), list(map(float, d_.residuals)))
                ctx.case(True)
                if got1 != (ref1['from'], ref1['to'], ref1['residuals']):
                    ctx.fail(f'C01:chunking:reused-buffer:{det}', f'{det} detector, signal {list(s)} streamed in blocks of 4 through one re-used buffer: {got1}, in one piece {(ref1["from"], ref1["to"], ref1["residuals"])}',
                             {'signal': list(s)})
        cuts = sorted(rng.sample(range(1, len(s)), rng.randrange(2, 5)))
        parts = [[c, len(s) - c] for c in range(1, len(s))] + [[b_ - a_ for a_, b_ in zip([0] + cuts, cuts + [len(s)])]]
        for det in DETECTORS:
            ref, _, _ = run(det, [s])
            for sizes in parts:
                got, d, rec = run(det, split(s, sizes))
                ctx.case(True)
                ref2 = dict(ref, chunks=sizes if det != 'fkm' else got['chunks'])
                if got != ref2:
                    diff = [k for k in ref2 if got.get(k) != ref2[k]]
                    ctx.fail(f'C01:chunking:{det}', f'{det} detector, signal {list(s)}, chunks {sizes}: {diff} differ from the one-piece run', repro_chunks(det, s, sizes))
    ctx.sample({'signal': [0, 2, 2, 1, 3, 0], 'partition': [2, 1, 3], 'detectors': list(DETECTORS)})


META = {
    'level': 'other',
    'explanation': "mixed. Proved (all inputs, all iterations): memory safety / accounting / termination of both compiled kernels from loop invariants on the mechanically "
                   "stripped extension.pyx, the restart lemma (re-feeding stored residuals is silent), the provisional-sample lemma, the FKM loop-state closure, and "
                   "chunk_local_index against the prefix-sum specification. The whole-run statement (every partition equals the one-piece run) is an induction over these "
                   "step lemmas that is NOT itself an obligation; it is checked by the bounded stand-in on every signal x every partition up to the stated length.",
    'not_decided': ["chunk independence for signals longer than the bound (rests on step lemmas + meta-rule)", "three-point restart (no step-wise simulation)",
                    "_new_turns / find_turns bookkeeping (pandas/numpy vectorised, bounded only)"],
    'trusted_base': ['pyx stripping', 'numpy sequence operations (cumsum, insert, searchsorted contracts)', 'floats = reals', 'meta-rule: step simulation => equal runs'],
}
