"""Contracts of the rainflow kernels and detectors shared by C01, C02, C03 (DESIGN 3, 4/C01-C03)."""
import z3
from pv.sym import SV, RV
from pv.interp import SArr

EXT = 'pylife/stress/rainflow/extension.pyx::'
FKM = 'pylife/stress/rainflow/fkm.py::FKMDetector'
GEN = 'pylife/stress/rainflow/general.py::'


def absz(x):
    return z3.If(x >= 0, x, -x)


def closes(a, b, c, d):
    """four point closing rule"""
    return z3.And(absz(b - c) <= absz(a - b), absz(b - c) <= absz(c - d))


def sel(arr, i):
    return z3.Select(arr.a, i)


# ---------------------------------------------------------------------------------------------
# fourpoint_loop
# ---------------------------------------------------------------------------------------------
def fourpoint_inputs(o, prefix=''):
    turns = o.array(prefix + 'turns', 'real', unchecked=True)
    n = turns.n
    tidx = SArr(z3.Array(prefix + 'turns_index', z3.IntSort(), z3.IntSort()), n, 'uint', 'ndarray', True)
    o.assume(n >= 2)
    k = z3.Int('k_')
    o.assume(z3.ForAll([k], z3.Implies(z3.And(k >= 0, k < n), z3.Select(tidx.a, k) >= 0)))
    return turns, tidx


def fourpoint_invariant(turns, tidx, signal=None, with_irreducible=True, with_values=True):
    """inductive invariant of the while loop of fourpoint_loop"""
    def inv(v):
        n = turns.n
        i, ri, t = v.i, v.ri, v.t
        R = v.residual_index_v
        k = z3.Int('k!inv')
        parts = [
            ri >= 1, ri <= i, i >= 2, i <= n, t >= 0, 2 * t + ri == i,
            v.len_turns == n,
            # stack entries are positions already seen, strictly increasing
            z3.ForAll([k], z3.Implies(z3.And(k >= 0, k < ri), z3.And(sel(R, k) >= 0, sel(R, k) < i))),
            z3.ForAll([k], z3.Implies(z3.And(k >= 0, k < ri - 1), sel(R, k) < sel(R, k + 1))),
        ]
        if with_irreducible:
            # every 4-window of the residual stack is irreducible (does not satisfy the closing rule)
            parts.append(z3.ForAll([k], z3.Implies(z3.And(k >= 0, k + 3 < ri),
                                                    z3.Not(closes(z3.Select(turns.a, sel(R, k)), z3.Select(turns.a, sel(R, k + 1)),
                                                                  z3.Select(turns.a, sel(R, k + 2)), z3.Select(turns.a, sel(R, k + 3)))))))
        if with_values and signal is not None:
            j = z3.Int('j!inv')
            parts.append(z3.ForAll([j], z3.Implies(z3.And(j >= 0, j < t), z3.And(
                sel(v.from_vals_v, j) == z3.Select(signal, sel(v.from_index_v, j)),
                sel(v.to_vals_v, j) == z3.Select(signal, sel(v.to_index_v, j)),
                sel(v.from_index_v, j) < sel(v.to_index_v, j) if False else z3.BoolVal(True)))))
        return z3.And(*parts)
    return inv


def fourpoint_variant(turns):
    def var(v):
        return 2 * (turns.n - v.i) + v.ri
    return var
