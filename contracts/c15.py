"""C15 - failure probability equals the analytic load/strength distribution overlap."""
import z3
from pv.api import obligation
from pv.bounded import bounded
from pv.sym import SV, RV, lg, Phi, phi_

FP = 'pylife/strength/failure_probability.py::FailureProbability'
KINDS = ('scalar', 'ndarray')


def call(o, obj, name, *args, **kw):
    return o.I.call(o.method(obj, name), list(args), kw)


def fp(o):
    sm, ss = o.reals('strength_median strength_std')
    o.assume(sm > 0, ss > 0)
    return o.new(FP, SV(sm), SV(ss)), sm, ss


@obligation('C15', 'pf_simple_load', functions=[FP + '.__init__', FP + '.pf_simple_load'])
def simple(o):
    """pf_simple_load(L) = Phi((log10 L - log10 strength median)/strength std): in (0,1), increasing in the load, decreasing in the strength median"""
    f, sm, ss = fp(o)
    L, L2 = o.reals('L L2')
    o.assume(L > 0, L2 > L)

    def real(env):
        import numpy as np
        from pylife.strength.failure_probability import FailureProbability
        f_ = FailureProbability(env['strength_median'], env['strength_std'])
        return {f'pf_{k}': float(np.asarray(f_.pf_simple_load(np.array([env['L'], env['L']]) if k == 'ndarray' else env['L'])).ravel()[0]) for k in KINDS}
    o.set_replay(real)
    for kind in KINDS:
        p = o.named(f'pf_{kind}', o.run1(lambda: call(o, f, 'pf_simple_load', SV(L, kind=kind)), label=f'pf_simple_load[{kind}]'))
        o.prove(f'closed form [{kind}]', p == Phi((lg(L) - lg(sm)) / ss))
        o.prove(f'0 < pf < 1 [{kind}]', z3.And(p > 0, p < 1))
    p2 = o.run1(lambda: call(o, f, 'pf_simple_load', SV(L2, kind='scalar')), label='pf_simple_load(L2)')
    o.prove('increasing in the load', p2.t > p)
    sm2 = o.real('strength_median_2')
    o.assume(sm2 > sm)
    f2 = o.new(FP, SV(sm2), SV(ss))
    p3 = o.run1(lambda: call(o, f2, 'pf_simple_load', SV(L, kind='scalar')), label='pf_simple_load(stronger)')
    o.prove('decreasing in the strength median', p3.t < p)
    o.canary('canary: pf decreasing in the load', p2.t < p)


@obligation('C15', 'pf_norm_load.integrand', functions=[FP + '.pf_norm_load'])
def norm_load(o):
    """every quadrature call integrates phi(x/s_L)/s_L * Phi((x - (s_50 - l_m))/s_S) (load density centred at 0 times strength cdf shifted by the median
    distance); the pieces are consecutive and cover exactly [-16 s_L, +16 s_L] (user limits: shifted by l_m); the result is the sum of the pieces;
    integrand in [0, load pdf], increasing in l_m"""
    f, sm, ss = fp(o)
    lmed, lstd = o.reals('load_median load_std')
    o.assume(lmed > 0, lstd > 0)
    s50, lm = lg(sm), lg(lmed)

    def check(label, args, lo_want, hi_want):
        n0 = len(o.I.quad_records)
        ps = o.paths(lambda: call(o, f, 'pf_norm_load', *args))
        rets = [p for p in ps if p.kind == 'return']
        o.prove(f'{label}: every path returns', z3.BoolVal(len(rets) == len(ps) and len(rets) >= 1))
        # the quad records of all paths were appended in order; re-run path by path to associate them
        recs_all = o.I.quad_records[n0:]
        for i, p in enumerate(rets):
            o.take_side_obligations(p, f'pf_norm_load[{label},{i}]')
            recs = p.quad_records            # the quad calls made on this path
            x0 = recs[0]['x']
            for j, rec in enumerate(recs):
                integ = z3.substitute(rec['integrand'], (rec['x'], x0))
                o.prove(f'{label}[path {i}] piece {j}: integrand == phi(x/s_L)/s_L * Phi((x - (s_50 - l_m))/s_S)',
                        integ == phi_(x0 / lstd) / lstd * Phi((x0 - (s50 - lm)) / ss), under=p.pc)
                if j + 1 < len(recs):
                    o.prove(f'{label}[path {i}] piece {j} ends where piece {j + 1} starts', rec['upper'] == recs[j + 1]['lower'], under=p.pc)
                o.prove(f'{label}[path {i}] piece {j} is not reversed', rec['lower'] <= rec['upper'], under=p.pc + [lo_want <= hi_want])
            o.prove(f'{label}[path {i}] pieces cover exactly the integration range', z3.And(recs[0]['lower'] == lo_want, recs[-1]['upper'] == hi_want), under=p.pc)
            o.prove(f'{label}[path {i}] returns the sum of the pieces', p.result.t == z3.Sum([r['value'] for r in recs]), under=p.pc)
        return recs_all

    recs = check('default limits', [SV(lmed), SV(lstd)], -16 * lstd, 16 * lstd)
    x = recs[0]['x']
    integ = recs[0]['integrand']
    o.prove('0 <= integrand <= load pdf', z3.And(integ >= 0, integ <= phi_(x / lstd) / lstd))
    lo, hi = o.reals('lower_limit upper_limit')
    check('user limits', [SV(lmed), SV(lstd), SV(lo), SV(hi)], lo - lm, hi - lm)
    lmed2 = o.real('load_median_2')
    o.assume(lmed2 > lmed)
    n0 = len(o.I.quad_records)
    o.paths(lambda: call(o, f, 'pf_norm_load', SV(lmed2), SV(lstd)))
    rec3 = o.I.quad_records[n0]
    o.prove('integrand increases point-wise with the load median', z3.substitute(rec3['integrand'], (rec3['x'], x)) >= integ)
    o.canary('canary: integrand uses the strength pdf', integ == phi_(x / lstd) / lstd * phi_((x - (s50 - lm)) / ss))
    o.trusted("scipy.integrate.quad has no accuracy contract: that the integral equals Phi(delta/sqrt(s_L^2+s_S^2)) is decided by the bounded stand-in only")


@obligation('C15', 'pf_arbitrary_load', functions=[FP + '.pf_arbitrary_load'])
def arbitrary(o):
    """shape guard; the integrated array is pdf * Phi((x - s_50)/s_S) element-wise over the given load values"""
    f, sm, ss = fp(o)
    xv, pdf = o.reals('load_value load_pdf')
    a_x, a_pdf = SV(xv, kind='ndarray'), SV(pdf, kind='ndarray')
    n_mut = len(o.I.mutated)
    r = o.run1(lambda: call(o, f, 'pf_arbitrary_load', a_x, a_pdf), label='pf_arbitrary_load')
    rec = o.I.quad_records[-1]
    o.prove('frame: the arrays handed in are not written (no in-place operation on load_values / load_pdf)',
            z3.BoolVal(not any(m is a_x or m is a_pdf for m in o.I.mutated[n_mut:])), kind='frame')
    o.prove('integrand == pdf * Phi((x - s_50)/s_S)', rec['integrand'] == pdf * Phi((xv - lg(sm)) / ss))
    o.prove('integration variable is the array of load values', rec['x'] == xv)
    ps = o.paths(lambda: call(o, f, 'pf_arbitrary_load', SV(xv, kind='ndarray'), SV(pdf, kind='scalar')))
    o.prove('mismatching shapes raise ValueError', z3.BoolVal(all(p.kind == 'raise' and p.exc.exc_type == 'ValueError' for p in ps)))
    o.note("load_values enter the strength cdf directly: callers pass log10 loads (as the repository's tests do)")


@bounded('C15', 'quadrature-vs-closed-form', shards=4)
def b_quad(ctx):
    """pf_norm_load vs Phi((log10 load median - log10 strength median)/sqrt(s_L^2 + s_S^2)) on a parameter grid; limit s_L -> 0 equals pf_simple_load;
    monotone along grid lines; within [0,1]; pf_arbitrary_load on a sampled log-normal density"""
    import itertools
    import warnings
    import numpy as np
    from scipy.stats import norm
    from pylife.strength.failure_probability import FailureProbability
    warnings.simplefilter('ignore')
    stds = [1e-4, 1e-3, 0.01, 0.05, 0.2, 1.0]
    deltas = [-7.0, -3.0, -1.0, -0.3, 0.0, 0.3, 1.0, 3.0, 7.0]       # (log10 load median - log10 strength median) in units of sqrt(s_L^2+s_S^2)
    n_samp = 2001 if ctx.tier == 'quick' else 20001
    n_rand = 240 if ctx.tier == 'quick' else 2000
    ctx.bound = f"s_S, s_L in {stds}^2, median distance {deltas} combined standard deviations (closed form from 1e-12 to 1-1e-12), strength median 300; plus {n_rand} seeded points with s_S in 1e-5..1e-2, s_L in 0.03..1, distance in +-7 compared relative to min(p_f, 1-p_f) at 1e-3"
    ctx.rule = "non-trivial: s_L != s_S or delta != 0; distinct by (s_S, s_L, delta)"
    ctx.exhaustive = True
    # seeded points in the regime 'strength scatter much smaller than load scatter, medians apart' (added after seed C15-a: the break points of the piecewise
    # quadrature matter only there), compared relative to the smaller of p_f and 1 - p_f
    rng = np.random.default_rng(15)
    for _ in range(n_rand):
        sS, sL, d = 10 ** rng.uniform(-5, -2), 10 ** rng.uniform(-1.5, 0), rng.uniform(-7, 7)
        if not ctx.mine():
            continue
        lm = np.log10(300.0) + d * np.hypot(sS, sL)
        want = float(norm.cdf(d))
        got = float(FailureProbability(300.0, sS).pf_norm_load(10 ** lm, sL))
        ctx.case(True, key=('narrow', round(sS, 12), round(sL, 12), round(d, 9)))
        if not (0.0 <= got <= 1.0) or abs(got - want) > 1e-3 * min(want, 1.0 - want):
            ctx.fail('C15:quadrature:narrow-strength:tail-relative', f'pf_norm_load = {got:.9e}, closed form Phi({d:.4f}) = {want:.9e} (s_S={sS:.4e}, s_L={sL:.4e}): relative to the tail {abs(got - want) / min(want, 1 - want):.2e}',
                     f"import numpy as np\nfrom scipy.stats import norm\nfrom pylife.strength.failure_probability import FailureProbability\n"
                     f"got = FailureProbability(300.0, {sS!r}).pf_norm_load(10**(np.log10(300.0) + {d!r} * np.hypot({sS!r}, {sL!r})), {sL!r})\nw = norm.cdf({d!r})\nprint(got, w)\n"
                     f"assert abs(got - w) <= 1e-3 * min(w, 1 - w)\n")
    for sS, sL in itertools.product(stds, stds):
        if not ctx.mine():
            continue
        comb = np.hypot(sS, sL)
        prev = None
        for d in deltas:
            s50 = np.log10(300.0)
            lm = s50 + d * comb
            f = FailureProbability(300.0, sS)
            want = float(norm.cdf(d))
            got = float(f.pf_norm_load(10 ** lm, sL))
            ctx.case(sS != sL or d != 0, key=(sS, sL, d))
            if not (0.0 <= got <= 1.0 + 1e-12):
                ctx.fail('C15:range', f'pf_norm_load = {got} outside [0,1] (s_S={sS}, s_L={sL}, delta={d})', {'s_S': sS, 's_L': sL, 'delta': d})
            if abs(got - want) > 1e-8 + 1e-6 * want:
                ratio = 'narrow-strength' if sS < sL / 4 else ('narrow-load' if sL < sS / 4 else 'comparable')
                ctx.fail(f'C15:quadrature:{ratio}', f'pf_norm_load = {got:.6e}, closed form Phi({d}) = {want:.6e} (s_S={sS}, s_L={sL})',
                         f"import numpy as np\nfrom scipy.stats import norm\nfrom pylife.strength.failure_probability import FailureProbability\n"
                         f"got = FailureProbability(300.0, {sS}).pf_norm_load(10**(np.log10(300.0) + {d} * np.hypot({sS}, {sL})), {sL})\nprint(got, norm.cdf({d}))\n"
                         f"assert abs(got - norm.cdf({d})) <= 1e-8 + 1e-6 * norm.cdf({d})\n")
            if prev is not None and got < prev - 1e-9:
                ctx.fail('C15:monotone', f'pf_norm_load decreases with the load median ({prev} -> {got}) s_S={sS}, s_L={sL}', {'s_S': sS, 's_L': sL, 'delta': d})
            prev = got
            # arbitrary load: sampled normal density of log10 load
            if abs(d) <= 3:
                xs = np.linspace(lm - 12 * sL, lm + 12 * sL, n_samp)
                pa = float(f.pf_arbitrary_load(xs, norm.pdf(xs, loc=lm, scale=sL)))
                h = xs[1] - xs[0]
                tol = 1e-6 + 5 * (h / min(sS, sL)) ** 2
                if abs(pa - want) > tol:
                    ctx.fail('C15:arbitrary', f'pf_arbitrary_load = {pa}, closed form {want} (s_S={sS}, s_L={sL}, delta={d}, tol {tol:.2e})', {'s_S': sS, 's_L': sL, 'delta': d})
        # optional integration limits (absolute, log10 scale): a limit at least 16 load standard deviations from the load median cuts nothing off, whichever of the two
        # is given - medians above and below 1 (added after seed C15-f shifted the lower limit only when the upper one is given)
        for s_med, l_med in ((300.0, 240.0), (0.004, 0.003), (1.3, 1.0)):
            f2 = FailureProbability(s_med, sS)
            lm2 = np.log10(l_med)
            ref2 = float(f2.pf_norm_load(l_med, sL))
            lo2, up2 = lm2 - 16.0 * sL, lm2 + 16.0 * sL          # exactly where the default limits are (much wider explicit limits around a needle-like load density are a matter of the adaptive quadrature, not of this clause)
            for lname, kw in (('both', dict(lower_limit=lo2, upper_limit=up2)), ('lower only', dict(lower_limit=lo2)), ('upper only', dict(upper_limit=up2))):
                ctx.case(True, key=(sS, sL, s_med, lname))
                g2 = float(f2.pf_norm_load(l_med, sL, **kw))
                if abs(g2 - ref2) > 1e-9 + 1e-6 * ref2:
                    ctx.fail(f'C15:explicit-limits:{lname}', f'pf_norm_load({l_med}, {sL}, {kw}) = {g2}, with the default limits {ref2} (strength median {s_med}, s_S={sS})', {'s_S': sS, 's_L': sL, 'limits': lname})
        # vanishing load scatter -> deterministic load
        f = FailureProbability(300.0, sS)
        for L in (150.0, 300.0, 420.0):
            simple = float(f.pf_simple_load(L))
            lim = float(f.pf_norm_load(L, sS * 1e-4))
            ctx.case(True, key=(sS, 'limit', L))
            if abs(lim - simple) > 1e-6 + 1e-5 * simple:
                ctx.fail('C15:limit', f'pf_norm_load with load scatter {sS * 1e-4} = {lim}, pf_simple_load = {simple} (s_S={sS}, L={L})', {'s_S': sS, 'L': L})
    ctx.sample({'s_S': 0.05, 's_L': 0.2, 'delta': -1.0, 'closed_form': 0.158655})


META = {
    'level': 'other',
    'explanation': "mixed. Proved: the deterministic-load probability in closed form (range, monotonicity), the integrand and the integration limits handed to quad equal the "
                   "specification (load density centred at zero times shifted strength cdf, -+16 s_L or user limits shifted by the load median), integrand bounds and point-wise "
                   "monotonicity, the arbitrary-load integrand. That the integral equals Phi(delta/sqrt(s_L^2+s_S^2)) and that QUADPACK resolves it is outside any contract: "
                   "decided by the bounded stand-in on a parameter grid spanning failure probabilities 1e-12 .. 1-1e-12.",
    'not_decided': ["accuracy of adaptive quadrature outside the grid", "the analytic identity int phi Phi = Phi(delta/sqrt(s_L^2+s_S^2)) (not an SMT statement)"],
    'trusted_base': ['scipy.stats.norm = Phi / phi (assumed)', 'scipy.integrate.quad uninterpreted', 'axioms of Phi, log10', 'floats = reals'],
}
