"""C11 - Miner damage is linear and agrees with the predicted Gassner lifetime."""
import z3
from pv.api import obligation
from pv.bounded import bounded
from pv.sym import SV, RV, ex, lg
from pv.interp import Rec, Obj
from pv import sym
from contracts.c08 import broadcast_spec, transform_identity_spec, WC, sv_t

MI = 'pylife/strength/miner.py::'
SOL = 'pylife/strength/solidity.py::'
FAT = 'pylife/strength/fatigue.py::Fatigue'


def pw(x, a):
    return ex(a * lg(x))


def call(o, obj, name, *args, **kw):
    return o.I.call(o.method(obj, name), list(args), kw)


def wcurve(o, ref, k2=None):
    """Miner/Fatigue accessor object over a symbolic curve (k_1 > 1, SD, ND > 0; k_2 as given or extended real)"""
    k1, ND, SD = o.reals('k_1 ND SD')
    o.assume(k1 > 1, ND > 0, SD > 0)
    fields = {'k_1': SV(k1), 'ND': SV(ND), 'SD': SV(SD)}
    if k2 is None:
        x = o.xreal('k_2')
        o.assume(z3.Or(x.P(), x.t >= k1))
        fields['k_2'] = x
    elif k2 == 'k_1':
        fields['k_2'] = SV(k1)
    rec = o.rec('series', **fields)
    return o.new(ref, rec), (k1, ND, SD)


def collective(o, suffix=''):
    """generic class of a load collective: amplitude S > 0, cycle count h >= 0"""
    S, h = o.reals(f'S{suffix} h{suffix}')
    o.assume(S > 0, h >= 0)
    c = Rec({'amplitude': SV(S, kind='series', index='coll'), 'cycles': SV(h, kind='series', index='coll')}, 'frame', index='coll')
    o.track(c)
    return c, S, h


class Sums:
    """finite-sum calculus over the uninterpreted reductions the engine recorded (DESIGN 2.4): every rule instance is added as a hypothesis and
    listed; side conditions (row independence of factors, generic-element identities) are checked syntactically resp. discharged as obligations"""
    def __init__(self, o, rowvars):
        self.o = o
        self.rowvars = {v.get_id() for v in rowvars}
        o.trusted("finite-sum calculus rules: linearity  sum(c*t) = c*sum(t)  for row-independent c, congruence under a proved generic-element identity, "
                  "sums of non-negative terms are non-negative, max over a mask is attained and bounds the masked rows")

    def mark(self):
        """only reductions formed by the code from now on are considered by find()"""
        self.since = len(self.o.I.reduction_uses)

    def find(self, kind, mask_pred=None, term_pred=None):
        out = []
        live = self.o.I.reduction_uses[getattr(self, 'since', 0):]
        for key, r in self.o.I.reductions.items():
            if key not in live and not (len(key) == 4):
                continue
            if r['kind'] != kind:
                continue
            if mask_pred is not None and not mask_pred(r['mask']):
                continue
            if term_pred is not None and not term_pred(r['term']):
                continue
            out.append(r)
        return out

    def row_free(self, t):
        seen, stack = set(), [t]
        while stack:
            x = stack.pop()
            if x.get_id() in seen:
                continue
            seen.add(x.get_id())
            if x.get_id() in self.rowvars:
                return False
            stack.extend(x.children())
        return True

    def new_sum(self, name, term, mask=None):
        """sum over the rows of `term` (restricted to mask) as a fresh number"""
        v = z3.Real(name)
        self.o.I.reductions[('sum', term.get_id(), mask.get_id() if mask is not None else None, name)] = {'kind': 'sum', 'term': term, 'mask': mask, 'value': v}
        return v

    def linear(self, label, sum_t, t, c, sum_g, g, under=None, log=False):
        """sum_t = c * sum_g from the generic-element identity t == c * g (obligation) and row independence of c (syntactic)"""
        if not self.row_free(c):
            raise ValueError(f"{label}: factor depends on the row")
        if log is not False:
            # t and c*g are h times a positive term: compare the positive cofactors after log-normalisation
            h = log
            tp, gp = strip_factor(t, h), strip_factor(c * g, h)
            if tp is None or gp is None:
                raise ValueError(f"{label}: member is not of the form h * positive term")
            self.o.prove_pos_identity(f'{label}: generic-element identity (cofactor of the count)', tp, gp, under=under)
        else:
            self.o.prove(f'{label}: generic-element identity', t == c * g, under=under, pairs=False)
        fact = sum_t == c * sum_g
        self.o.hyps.append(fact)
        return fact


def discover(o, sums, thunk, positive=lambda r: True):
    """run the code until no new reduction symbol appears, assuming every sum / maximum met so far positive (collective with an occupied class);
    side obligations of these runs are dropped - the real run follows"""
    known = set()
    for _ in range(4):
        saved_items, saved_hyps = list(o.items), list(o.hyps)
        o.run1(thunk, label='discovery')
        o.items, o.hyps = saved_items, saved_hyps
        o._seen_side.clear()
        o._names.clear()
        new = [r for r in sums.find('sum') + sums.find('max') if str(r['value']) not in known]
        if not new:
            break
        for r in new:
            known.add(str(r['value']))
            o.assume(r['value'] > 0 if positive(r) else r['value'] >= 0)
    # only the reductions of the final run are live
    live = set()
    return known


def strip_factor(t, h):
    """t as h * rest (h occurring once as a factor of a product / numerator): returns rest or None"""
    if t.eq(h):
        return RV(1)
    if z3.is_app_of(t, z3.Z3_OP_TO_REAL):
        return strip_factor(t.arg(0), h)
    if z3.is_mul(t):
        ch = t.children()
        for i, c in enumerate(ch):
            r = strip_factor(c, h)
            if r is not None:
                rest = ch[:i] + [r] + ch[i + 1:]
                out = rest[0]
                for x in rest[1:]:
                    out = out * x
                return out
        return None
    if z3.is_div(t):
        r = strip_factor(t.arg(0), h)
        return None if r is None else r / t.arg(1)
    return None


def equiv(a, b, hyps=()):
    s = z3.Solver()
    s.set('timeout', 2000)
    for h in hyps:
        s.add(h)
    s.add(a != b)
    return s.check() == z3.unsat


@obligation('C11', 'damage.linear', functions=[FAT + '.damage'])
def damage_linear(o):
    """damage of a member = h / N(S); proportional to the cycle count, additive over members' counts (per element); with the sum calculus the collective's
    damage is additive, proportional and order independent"""
    broadcast_spec(o)
    transform_identity_spec(o)
    fat, (k1, ND, SD) = wcurve(o, FAT)
    c1, S, h = collective(o)
    h2, cc = o.reals('h2 c')
    o.assume(h2 >= 0, cc >= 0)
    d1 = o.run1(lambda: call(o, fat, 'damage', c1), label='damage')
    n = o.run1(lambda: call(o, fat, 'cycles', SV(S, kind='series')), label='cycles')
    o.prove('damage_i == h_i / N(S_i) (0 where N is infinite)', d1.t == z3.If(n.P(), RV(0), h / n.t))
    o.prove('damage_i >= 0', d1.t >= 0)
    c2 = Rec({'amplitude': SV(S, kind='series'), 'cycles': SV(h2, kind='series')}, 'frame')
    d2 = o.run1(lambda: call(o, fat, 'damage', c2), label='damage(h2)')
    c3 = Rec({'amplitude': SV(S, kind='series'), 'cycles': SV(h + h2, kind='series')}, 'frame')
    d3 = o.run1(lambda: call(o, fat, 'damage', c3), label='damage(h+h2)')
    o.prove('additive in the counts: damage(h + h2) == damage(h) + damage(h2)', d3.t == d1.t + d2.t)
    c4 = Rec({'amplitude': SV(S, kind='series'), 'cycles': SV(cc * h, kind='series')}, 'frame')
    d4 = o.run1(lambda: call(o, fat, 'damage', c4), label='damage(c h)')
    o.prove('proportional to the counts: damage(c h) == c damage(h)', d4.t == cc * d1.t)
    o.prove('damage returns a Series named damage aligned with the collective', z3.BoolVal(d1.kind == 'series'))
    o.canary('canary: damage independent of the count', z3.Implies(z3.And(h > 0, h2 > 0, z3.Not(n.P())), d3.t == d1.t))
    o.trusted("meta-rule: a finite sum is additive over its members and independent of their order")


@obligation('C11', 'damage.ordering', functions=[WC + '.miner_original', WC + '.miner_elementary', WC + '.miner_haibach', FAT + '.damage'])
def damage_ordering(o):
    """for the same curve and collective, per member: N_original >= N_haibach >= N_elementary, hence damage original <= Haibach <= elementary"""
    broadcast_spec(o)
    transform_identity_spec(o)
    fat, (k1, ND, SD) = wcurve(o, FAT)
    c1, S, h = collective(o)
    ns = {}
    for name in ('miner_original', 'miner_haibach', 'miner_elementary'):
        w = o.run1(lambda: call(o, fat, name), label=name)
        ns[name] = o.run1(lambda: call(o, w, 'cycles', SV(S, kind='series')), label=f'{name}.cycles')
        d = o.run1(lambda: call(o, w, 'damage', c1), label=f'{name}.damage')
        ns[name + '.d'] = d
    no, nh, ne = ns['miner_original'], ns['miner_haibach'], ns['miner_elementary']
    o.prove('elementary life is finite', z3.Not(ne.P()))
    o.prove('Haibach life is finite', z3.Not(nh.P()))
    o.prove('N_haibach >= N_elementary', nh.t >= ne.t)
    o.prove('N_original >= N_haibach (or infinite)', z3.Or(no.P(), no.t >= nh.t))
    o.prove('above the endurance limit all three agree', z3.Implies(S >= SD, z3.And(z3.Not(no.P()), no.t == nh.t, nh.t == ne.t)))
    o.prove('damage: original <= Haibach <= elementary (per member)',
            z3.And(ns['miner_original.d'].t <= ns['miner_haibach.d'].t, ns['miner_haibach.d'].t <= ns['miner_elementary.d'].t))
    o.canary('canary: Haibach damage >= elementary damage strictly', z3.Implies(h > 0, ns['miner_haibach.d'].t > ns['miner_elementary.d'].t))
    o.trusted("meta-rule: sums are monotone (member-wise <= implies <= of the sums)")


ELEM = MI + 'MinerElementary'
HAIB = MI + 'MinerHaibach'


@obligation('C11', 'gassner.elementary', functions=[MI + 'MinerBase.gassner_cycles', ELEM + '.lifetime_multiple', ELEM + '.gassner', SOL + 'haibach', FAT + '.damage'])
def gassner_elementary(o):
    """applying the collective for the Gassner cycles predicted by the Miner-elementary lifetime multiple gives damage sum 1 under the elementary rule,
    whichever classes are empty (the reference amplitude of gassner_cycles must be the normalising amplitude of solidity.haibach)"""
    broadcast_spec(o)
    transform_identity_spec(o)
    me, (k1, ND, SD) = wcurve(o, ELEM, k2='k_1')
    coll, S, h = collective(o)
    sums = Sums(o, [S, h])
    # discovery run: which sums / maxima does the real code form?  (the reductions are functions of their term and mask, so the second run
    # below meets the same symbols; facts about them - positivity for a collective with an occupied class - can then be stated first)
    discover(o, sums, lambda: call(o, me, 'gassner_cycles', coll))
    sums.mark()
    o.trusted("collective has at least one occupied class: the sum of counts, the solidity sum and the reference amplitudes are > 0")
    NG = o.run1(lambda: call(o, me, 'gassner_cycles', coll), label='gassner_cycles')
    # reductions the real code used
    H = sums.find('sum', term_pred=lambda t: t.eq(h))
    mx_all = sums.find('max', mask_pred=lambda m: m is None, term_pred=lambda t: t.eq(S))
    mx_occ = sums.find('max', mask_pred=lambda m: m is not None and equiv(m, h > 0), term_pred=lambda t: t.eq(S))
    vs = [r for r in sums.find('sum') if not r['term'].eq(h)]
    o.prove('gassner_cycles uses: sum of counts, one maximum amplitude as reference, the solidity sum',
            z3.BoolVal(len(H) == 1 and len(vs) == 1 and len(mx_all) + len(mx_occ) >= 1))
    Hs, V = H[0]['value'], vs[0]['value']
    Sref = (mx_all or mx_occ)[0]['value']                  # amplitude at which gassner_cycles evaluates the Woehler curve
    Shat = (mx_occ or mx_all)[0]['value']                  # amplitude solidity.haibach normalises with
    # the predicted Gassner cycles, as the code computed them
    o.prove('N_G == N(S_ref) / V with N the own curve of the receiver (k_2 = k_1)', NG.t == ND * pw(Sref / SD, -k1) * (1 / V))
    # apply the collective N_G cycles: n_i = h_i N_G / H, damage under the elementary rule
    scaled = Rec({'amplitude': SV(S, kind='series'), 'cycles': SV(h * NG.t / Hs, kind='series')}, 'frame')
    elem = o.run1(lambda: call(o, me, 'miner_elementary'), label='miner_elementary')
    fat = Obj(o.cls(FAT))
    fat.fields = dict(elem.fields)
    d = o.run1(lambda: call(o, fat, 'damage', scaled), label='damage(scaled)')
    g = h * pw(S / Shat, k1)                    # generic member of the solidity sum (times H)
    G = sums.new_sum('SUM_g', g)
    o.assume(G > 0)
    F1 = sums.linear('solidity V = (1/H) sum h (S/S_hat)^k', V, vs[0]['term'], 1 / Hs, G, g, log=h)
    D = sums.new_sum('DAMAGE', d.t)
    c = (NG.t / Hs) * (1 / ND) * pw(Shat / SD, k1)
    cc, dcc = o.define('c_row_independent', c)
    F2 = sums.linear('damage_i = c h_i (S_i/S_hat)^k with row-independent c', D, d.t, c, G, g, log=h)
    F2c = o.prove('damage sum == c * SUM_g (named factor)', D == cc * G, only=[F2, dcc])
    hpos = Hs > 0
    S1 = o.prove('damage sum == c * H * V', D == cc * Hs * V, only=[F1, F2c, hpos])
    ratio = pw(Shat / Sref, k1)
    ID = o.prove_pos_identity('c * H * V == (S_hat / S_ref)^k', c * Hs * V, ratio)
    o.hyps.append(ID)
    S2 = o.prove('damage sum == (S_hat / S_ref)^k', D == ratio, only=[S1, ID, dcc])
    same = Shat == Sref
    one = o.prove_pos_identity('(S/S)^k == 1', pw(Shat / Shat, k1), RV(1))
    o.hyps.append(one)
    o.prove('damage sum == 1 when the reference amplitude equals the normalising amplitude', z3.Implies(same, D == 1), only=[S2, one])
    if mx_all and mx_occ:
        # two different maxima are in play: the property demands damage 1 for every pattern of empty classes, i.e. also when they differ
        o.prove('damage sum == 1 whichever classes are empty (top class empty: max over occupied < max over all)', D == 1,
                under=[Shat <= Sref], replay=replay_gassner_elementary)
    o.canary('canary: damage sum == 2', D == 2, under=[same])


def replay_gassner_elementary(item, model):
    """real-code replay of the empty-top-class collective"""
    import numpy as np
    import pandas as pd
    import pylife.strength.miner   # noqa
    import pylife.strength.fatigue   # noqa
    import pylife.stress.collective   # noqa
    idx = pd.IntervalIndex.from_breaks([0., 200., 400., 600., 800.], name='range')
    hist = pd.Series([100., 50., 10., 0.], index=idx)
    wc = pd.Series({'k_1': 5.0, 'ND': 1e6, 'SD': 100.0})
    ng = wc.gassner_miner_elementary.gassner_cycles(hist.load_collective)
    scaled = hist * ng / hist.sum()
    dmg = float(wc.fatigue.miner_elementary().damage(scaled.load_collective).sum())
    return {'reproduced': abs(dmg - 1) > 1e-9, 'inputs': {'class limits': [0, 200, 400, 600, 800], 'counts': [100, 50, 10, 0], 'k_1': 5, 'ND': 1e6, 'SD': 100},
            'outputs': {'gassner_cycles': float(ng), 'damage_sum': dmg}}


@obligation('C11', 'gassner.haibach', functions=[MI + 'MinerBase.gassner_cycles', HAIB + '.lifetime_multiple', FAT + '.damage', WC + '.miner_haibach'])
def gassner_haibach(o):
    """Miner-Haibach: applying the collective for the predicted Gassner cycles gives damage sum 1 under the Haibach rule (empty classes anywhere),
    provided the collective reaches the endurance limit (largest occurring amplitude >= SD) - below it the prediction uses the receiver's own k_2"""
    broadcast_spec(o)
    transform_identity_spec(o)
    mh, (k1, ND, SD) = wcurve(o, HAIB)
    coll, S, h = collective(o)
    sums = Sums(o, [S, h])
    o.safety_exempt = ['divisor != 0']      # x / (sum_1 + q sum_2), x / H: positivity of these sums is stated below
    posf = lambda r: r['kind'] == 'max' or r['term'].eq(h)   # noqa: E731
    discover(o, sums, lambda: call(o, mh, 'gassner_cycles', coll), positive=posf)
    for r in sums.find('max', term_pred=lambda t: t.eq(S)):
        o.assume(r['value'] >= SD)        # the collective reaches the endurance limit (stated precondition)
    discover(o, sums, lambda: call(o, mh, 'gassner_cycles', coll), positive=posf)
    sums.mark()
    NG = o.run1(lambda: call(o, mh, 'gassner_cycles', coll), label='gassner_cycles')
    mx = sums.find('max', term_pred=lambda t: t.eq(S))
    H = sums.find('sum', term_pred=lambda t: t.eq(h))
    others = [r for r in sums.find('sum') if not r['term'].eq(h)]
    o.prove('gassner_cycles / lifetime_multiple use one reference amplitude (largest occupied), the sum of counts and two partial sums',
            z3.BoolVal(len(mx) == 1 and len(H) == 1 and len(others) == 2 and mx[0]['mask'] is not None and equiv(mx[0]['mask'], h > 0)))
    Smax, Hs = mx[0]['value'], H[0]['value']
    xD = SD / Smax
    full = [r for r in others if equiv(r['mask'], S / Smax >= xD)]
    red = [r for r in others if equiv(r['mask'], S / Smax < xD)]
    o.prove('partial sums are split at the endurance limit', z3.BoolVal(len(full) == 1 and len(red) == 1))
    s1, s2 = full[0]['value'], red[0]['value']
    q = pw(xD, 1 - k1)
    W, dW = o.define('W', s1 + q * s2)
    o.assume(s1 >= 0, s2 >= 0, W > 0)
    o.trusted("collective reaches the endurance limit (largest occupied amplitude >= SD); partial sums >= 0 and sum_1 + x_D^(1-k_1) sum_2 > 0")
    o.prove_pos_identity('N_G == N(S_max) * H / (sum_1 + x_D^(1-k_1) sum_2)', NG.t, ND * pw(Smax / SD, -k1) * Hs / (s1 + q * s2))
    scaled = Rec({'amplitude': SV(S, kind='series'), 'cycles': SV(h * NG.t / Hs, kind='series')}, 'frame')
    hb = o.run1(lambda: call(o, mh, 'miner_haibach'), label='miner_haibach')
    fat = Obj(o.cls(FAT))
    fat.fields = dict(hb.fields)
    base = list(o.hyps)
    # members at / above SD
    o.hyps = base + [S >= SD]
    d_hi = o.run1(lambda: call(o, fat, 'damage', scaled), label='damage(scaled) above SD')
    t1, t2 = full[0]['term'], red[0]['term']
    c1 = (NG.t / Hs) * (1 / ND) * pw(Smax / SD, k1)
    c1n, dc1 = o.define('c_1', c1)
    D1 = sums.new_sum('DAMAGE_full', d_hi.t, S >= SD)
    F1 = sums.linear('damage above SD: d_i = c_1 * sum_1 member', D1, d_hi.t, c1, s1, t1, log=h)
    F1n = o.prove('DAMAGE_full == c_1 sum_1 (named)', D1 == c1n * s1, only=[F1, dc1])
    hy_hi = [x for x in o.hyps if x.get_id() not in {b.get_id() for b in base}]
    # members below SD
    o.hyps = base + [S < SD, dc1]
    d_lo = o.run1(lambda: call(o, fat, 'damage', scaled), label='damage(scaled) below SD')
    c2 = (NG.t / Hs) * (1 / ND) * pw(Smax / SD, 2 * k1 - 1)
    c2n, dc2 = o.define('c_2', c2)
    D2 = sums.new_sum('DAMAGE_reduced', d_lo.t, S < SD)
    F2 = sums.linear('damage below SD: d_i = c_2 * sum_2 member', D2, d_lo.t, c2, s2, t2, log=h)
    F2n = o.prove('DAMAGE_reduced == c_2 sum_2 (named)', D2 == c2n * s2, only=[F2, dc2])
    o.hyps = base + [dc1, dc2, F1, F2]
    qn, dq = o.define('q', q)
    I1 = o.prove_pos_identity('c_1 * (sum_1 + q sum_2) == 1', c1 * (s1 + q * s2), RV(1))
    I2 = o.prove_pos_identity('c_2 == c_1 * x_D^(1-k_1)', c2, c1 * q)
    o.hyps += [I1, I2]
    J1 = o.prove('c_1 W == 1 (named)', c1n * W == 1, only=[I1, dc1, dW])
    J2 = o.prove('c_2 == c_1 q (named)', c2n == c1n * qn, only=[I2, dc1, dc2, dq])
    Wq = o.prove('W == sum_1 + q sum_2 (named)', W == s1 + qn * s2, only=[dW, dq])
    o.prove('damage sum == 1', D1 + D2 == 1, only=[F1n, F2n, J1, J2, Wq])
    o.canary('canary: damage sum == 2', D1 + D2 == 2, under=[F1n, F2n, J1, J2, Wq])


@obligation('C11', 'effective_damage_sum', functions=[MI + 'effective_damage_sum', MI + 'MinerBase.effective_damage_sum', MI + 'MinerBase.finite_life_factor'])
def eff_damage(o):
    """effective damage sum = min(max(0.3, 2 / A^(1/4)), 1) in [0.3, 1]; finite_life_factor = (ND/N)^(1/k_1)"""
    A = o.real('A')
    o.assume(A > 0)
    d = o.run1(lambda: o.I.call(o.func(MI + 'effective_damage_sum'), [SV(A)]), label='effective_damage_sum')
    dt = d.t if isinstance(d, SV) else RV(float(d))
    o.prove('0.3 <= D_m <= 1', z3.And(dt >= RV(0.3), dt <= 1))
    raw = 2 / pw(A, RV(0.25))
    o.prove('D_m == clamp(2 / A^(1/4), 0.3, 1)', dt == z3.If(raw < RV(0.3), RV(0.3), z3.If(raw > 1, RV(1), raw)))
    o.canary('canary: D_m == 2 / A^(1/4) always', dt == raw)


# ---------------------------------------------------------------------------------------------
def _hist(limits, counts):
    import pandas as pd
    idx = pd.IntervalIndex.from_breaks(limits, name='range')
    return pd.Series([float(c) for c in counts], index=idx)


@bounded('C11', 'gassner-accessors', shards=4)
def b_gassner(ctx):
    """through the Series accessors: for every histogram with <= 4 classes, counts from {0, 1, 10}, every pattern of empty classes, regular and irregular
    class limits, three load levels: damage of the collective scaled to the predicted Gassner cycles is 1 (elementary and Haibach rule);
    original <= Haibach <= elementary; damage linear in the counts; effective damage sum in [0.3, 1]"""
    import itertools
    import numpy as np
    import pandas as pd
    import pylife.strength.miner   # noqa
    import pylife.strength.fatigue   # noqa
    import pylife.strength.solidity   # noqa
    import pylife.stress.collective   # noqa
    limits_pool = [[0., 200., 400., 600., 800.], [0., 100., 150., 400., 1000.], [50., 60., 300.], [0., 500.], [10., 20., 40., 80.]]
    # (the last two: design curves given at a failure probability other than 50 % with a scatter - added after seed C11-e evaluated the damage at the curve's own
    # failure probability while the Gassner cycles are read from the 50 % curve)
    curves = [pd.Series({'k_1': 5.0, 'ND': 1e6, 'SD': 100.0}), pd.Series({'k_1': 3.0, 'ND': 2e6, 'SD': 300.0, 'k_2': 8.0}),
              pd.Series({'k_1': 5.0, 'ND': 1e6, 'SD': 200.0, 'TN': 4.0, 'TS': 1.0, 'failure_probability': 0.1}),
              pd.Series({'k_1': 4.0, 'ND': 2e6, 'SD': 180.0, 'TN': 3.0, 'failure_probability': 0.025})]
    ctx.bound = "class limits from a pool of 5 (regular / irregular, 1-4 classes; members listed ascending, descending and rotated) x all count patterns over {0,1,10} with >= 1 occupied class x 2 curves x load factors {0.5, 1, 2.5}"
    ctx.rule = "non-trivial: at least one empty class; distinct by (limits, counts, curve, factor)"
    ctx.exhaustive = True
    for limits in limits_pool:
        ncls = len(limits) - 1
        for counts in itertools.product((0, 1, 10), repeat=ncls):
            if sum(counts) == 0:
                continue
            for ci, wc in enumerate(curves):
                for fac in (0.5, 1.0, 2.5):
                    if not ctx.mine():
                        continue
                    hist0 = _hist([x * fac for x in limits], counts)
                    # the members of a collective have no order: ascending (as every fixture of the suite), descending and rotated listing
                    for order in ('ascending', 'descending', 'rotated'):
                        perm = list(range(ncls))
                        perm = perm[::-1] if order == 'descending' else (perm[1:] + perm[:1] if order == 'rotated' else perm)
                        if order != 'ascending' and perm == list(range(ncls)):
                            continue
                        _one_histogram(ctx, hist0.iloc[perm], limits, counts, ci, wc, fac, order, perm)
    ctx.sample({'limits': [0, 200, 400, 600, 800], 'counts': [10, 0, 1, 10], 'curve': curves[0].to_dict(), 'orders': ['ascending', 'descending', 'rotated']})


def _one_histogram(ctx, hist, limits, counts, ci, wc, fac, order, perm):
                    import pandas as pd   # noqa
                    lc = hist.load_collective
                    ctx.case(0 in counts or order != 'ascending', key=(tuple(limits), counts, ci, fac, order))
                    otag = '' if order == 'ascending' else f':members-{order}'
                    # a curve stated at a failure probability other than 50 % whose scatter in load direction is not 1 (here: derived from TN): tagged, the known
                    # finding about Miner-Haibach on such curves must not hide a failure on any other curve
                    if float(wc.get('failure_probability', 0.5)) != 0.5 and float(wc.get('TS', 0.0)) != 1.0 and 'TN' in wc:
                        otag = ':design-curve-with-load-scatter' + otag
                    for rule, acc, modifier in (('elementary', 'gassner_miner_elementary', 'miner_elementary'), ('haibach', 'gassner_miner_haibach', 'miner_haibach')):
                        amp_max_occ = float(lc.amplitude[hist.values > 0].max())
                        key = ('below-endurance-limit' if amp_max_occ < wc.SD else 'reaches-endurance-limit') + ':' + \
                              ('top-class-empty' if counts[-1] == 0 else 'top-class-occupied')
                        ng = float(getattr(wc, acc).gassner_cycles(lc))
                        scaled = hist * ng / hist.sum()
                        dmg = float(getattr(wc.fatigue, modifier)().damage(scaled.load_collective).sum())
                        if abs(dmg - 1) > 1e-9:
                            ctx.fail(f'C11:gassner:{rule}:{key}{otag}', f'{rule}: damage of the collective applied for its Gassner cycles is {dmg}, limits {[x * fac for x in limits]}, counts {list(counts)}, members listed {order}',
                                     "import pandas as pd\nimport pylife.strength.miner, pylife.strength.fatigue, pylife.stress.collective\n"
                                     f"hist = pd.Series({[float(c) for c in counts]!r}, index=pd.IntervalIndex.from_breaks({[x * fac for x in limits]!r}, name='range')).iloc[{perm!r}]\n"
                                     f"wc = pd.Series({wc.to_dict()!r})\nng = wc.{acc}.gassner_cycles(hist.load_collective)\n"
                                     f"dmg = wc.fatigue.{modifier}().damage((hist * ng / hist.sum()).load_collective).sum()\nprint(ng, dmg)\nassert abs(dmg - 1) < 1e-9, dmg\n")
                        # the other public entry points of the same object, then the Gassner cycles once more: evaluations do not change the object they are made on
                        # (added after seed C11-d let gassner() write the shifted ND into the receiver's own curve)
                        m = getattr(wc, acc)
                        lm = float(m.lifetime_multiple(lc))
                        if hasattr(m, 'gassner'):
                            shifted = m.gassner(lc).to_pandas()
                            if abs(float(shifted['ND']) - float(wc.ND) * lm) > 1e-9 * float(wc.ND) * lm:
                                ctx.fail(f'C11:gassner-curve:{rule}{otag}', f'{rule}: gassner() returns ND = {float(shifted["ND"])}, ND * lifetime multiple = {float(wc.ND) * lm}', {'limits': limits, 'counts': counts})
                        m.finite_life_factor(1e4)
                        ng2 = float(getattr(wc, acc).gassner_cycles(lc))
                        if ng2 != ng:
                            ctx.fail(f'C11:not-repeatable:{rule}{otag}', f'{rule}: gassner_cycles returns {ng}, and {ng2} after lifetime_multiple / gassner / finite_life_factor were evaluated on the same object',
                                     {'limits': limits, 'counts': counts, 'order': order})
                    do = float(wc.fatigue.miner_original().damage(lc).sum())
                    dh = float(wc.fatigue.miner_haibach().damage(lc).sum())
                    de = float(wc.fatigue.miner_elementary().damage(lc).sum())
                    if not (do <= dh * (1 + 1e-12) and dh <= de * (1 + 1e-12)):
                        ctx.fail('C11:ordering', f'damage ordering violated: original {do}, haibach {dh}, elementary {de}', {'limits': limits, 'counts': counts})
                    d2 = float(wc.fatigue.damage((hist * 3).load_collective).sum())
                    d1 = float(wc.fatigue.damage(lc).sum())
                    if abs(d2 - 3 * d1) > 1e-9 * max(d1, 1e-30):
                        ctx.fail('C11:linearity', f'damage(3 h) = {d2} != 3 damage(h) = {3 * d1}', {'limits': limits, 'counts': counts})
                    eff = wc.gassner_miner_elementary.effective_damage_sum(lc)
                    if not (0.3 <= eff <= 1.0):
                        ctx.fail(f'C11:effective-damage-sum{otag}', f'effective damage sum {eff} outside [0.3, 1] (members listed {order})', {'limits': limits, 'counts': counts, 'order': order})
                    sol = float(hist.solidity.haibach(wc.k_1))
                    if not (0 < sol <= 1 + 1e-12):
                        ctx.fail(f'C11:solidity-range{otag}', f'solidity {sol} outside (0, 1] (members listed {order})', {'limits': limits, 'counts': counts, 'order': order})


META = {
    'level': 'other',
    'explanation': "mixed. Proved for every curve and every collective shape (generic class with amplitude S > 0 and count h >= 0, sums as uninterpreted numbers with explicitly "
                   "listed sum-calculus rule instances): per-member damage h/N(S), its linearity, the ordering original <= Haibach <= elementary, 'Gassner cycles => damage 1' "
                   "for both rules, effective damage sum in [0.3, 1]. The accessor plumbing (interval mids, pandas sums, empty-class patterns) is enumerated by the bounded "
                   "stand-in on all small histograms.",
    'not_decided': ["Haibach prediction for collectives entirely below the endurance limit (depends on the receiver's own k_2: outside the stated precondition)"],
    'trusted_base': ['finite-sum calculus rules (linearity, congruence, monotonicity) as meta-rules', 'axioms of 10**u / log10', 'assumed contract of broadcast', 'floats = reals'],
}
