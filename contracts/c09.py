"""C09 - FKM-nonlinear damage curves, parameter and accumulation are self-consistent."""
import z3
from pv.api import obligation
from pv.bounded import bounded
from pv.sym import SV, RV, ex, lg, Pinv, Phi, sq
from pv.interp import Rec, Obj
from pv import sym

WF = 'pylife/strength/woehler_fkm_nonlinear.py::'
DP = 'pylife/strength/damage_parameter.py::P_RAM'
DC = 'pylife/strength/fkm_nonlinear/damage_calculator.py::DamageCalculatorPRAM'
PC = 'pylife/strength/fkm_nonlinear/parameter_calculations.py::'
LD = 'pylife/strength/fkm_load_distribution.py::'
CONST = 'pylife/strength/fkm_nonlinear/constants.py::'
KINDS = ('scalar', 'ndarray')


def call(o, obj, name, *args, **kw):
    return o.I.call(o.method(obj, name), list(args), kw)


def pw(x, a):
    return ex(a * lg(x))


def pram_curve(o):
    PZ, PD, d1, d2 = o.reals('P_RAM_Z P_RAM_D d_1 d_2')
    o.assume(PZ > PD, PD > 0, d1 < 0, d2 < 0)
    rec = o.rec('series', P_RAM_Z=SV(PZ), P_RAM_D=SV(PD), d_1=SV(d1), d_2=SV(d2))
    wc = o.new(WF + 'WoehlerCurvePRAM', rec)
    return wc, (PZ, PD, d1, d2)


def pram_real(env):
    import pandas as pd
    import pylife.strength.woehler_fkm_nonlinear   # noqa
    return pd.Series({'P_RAM_Z': env['P_RAM_Z'], 'P_RAM_D': env['P_RAM_D'], 'd_1': env['d_1'], 'd_2': env['d_2']}).woehler_P_RAM


PRAMF = [WF + 'WoehlerCurvePRAM.' + m for m in ('__init__', '_validate', 'calc_N', 'calc_P_RAM', 'fatigue_strength_limit', 'fatigue_life_limit')]


@obligation('C09', 'pram.validate', functions=[WF + 'WoehlerCurvePRAM._validate', WF + 'WoehlerCurvePRAJ._validate'])
def pram_validate(o):
    """the constructors raise unless P_Z > P_D, d_1 < 0, d_2 < 0 (P_RAJ: P_Z > P_D_0, d < 0)"""
    PZ, PD, d1, d2 = o.reals('P_RAM_Z P_RAM_D d_1 d_2')
    c = o.cls(WF + 'WoehlerCurvePRAM')
    ps = o.paths(lambda: o.I.instantiate(c, [Rec({'P_RAM_Z': SV(PZ), 'P_RAM_D': SV(PD), 'd_1': SV(d1), 'd_2': SV(d2)}, 'series')], {}))
    ok = z3.Or(*[z3.And(*p.pc) if p.pc else z3.BoolVal(True) for p in ps if p.kind == 'return'])
    o.prove('PRAM constructor returns iff P_Z > P_D and d_1 < 0 and d_2 < 0', ok == z3.And(PZ > PD, d1 < 0, d2 < 0))
    o.prove('every other path raises ValueError', z3.BoolVal(all(p.exc.exc_type == 'ValueError' for p in ps if p.kind == 'raise')))
    JZ, JD, d = o.reals('P_RAJ_Z P_RAJ_D_0 d_RAJ')
    c2 = o.cls(WF + 'WoehlerCurvePRAJ')
    ps = o.paths(lambda: o.I.instantiate(c2, [Rec({'P_RAJ_Z': SV(JZ), 'P_RAJ_D_0': SV(JD), 'd_RAJ': SV(d)}, 'series')], {}))
    ok = z3.Or(*[z3.And(*p.pc) if p.pc else z3.BoolVal(True) for p in ps if p.kind == 'return'])
    o.prove('PRAJ constructor returns iff P_Z > P_D_0 and d < 0', ok == z3.And(JZ > JD, d < 0))


@obligation('C09', 'pram.curve', functions=PRAMF)
def pram_curve_ob(o):
    """P_RAM Woehler curve: calc_N = inf iff P <= P_D; 1e3 (P/P_Z)^(1/d_1) for P >= P_Z, 1e3 (P/P_Z)^(1/d_2) between; knee continuity at 1e3;
    calc_P_RAM(N_D) = P_D; strictly decreasing on the finite range; mutual inverses"""
    wc, (PZ, PD, d1, d2) = pram_curve(o)
    P, N = o.reals('P N')
    o.assume(P > 0, N > 0)

    def real(env):
        import numpy as np
        w = pram_real(env)
        out = {}
        for kind in KINDS:
            v = np.asarray(w.calc_N(np.array([env['P'], env['P']]) if kind == 'ndarray' else env['P'])).ravel()[0]
            out[f'N_{kind}_inf'] = bool(np.isinf(v))
            out[f'N_{kind}'] = 0.0 if np.isinf(v) else float(v)
            out[f'PR_{kind}'] = float(np.asarray(w.calc_P_RAM(np.array([env['N'], env['N']]) if kind == 'ndarray' else env['N'])).ravel()[0])
        out['ND'] = float(w.fatigue_life_limit)
        return out
    o.set_replay(real)
    ND = o.named('ND', o.run1(prop_(o, wc, 'fatigue_life_limit'), label='fatigue_life_limit'))
    o.prove('N_D = 1e3 (P_D/P_Z)^(1/d_2) > 1e3', z3.And(ND == 1000 * pw(PD / PZ, 1 / d2), ND > 1000))
    for kind in KINDS:
        n = o.run1(lambda: call(o, wc, 'calc_N', SV(P, kind=kind)), label=f'calc_N[{kind}]')
        ninf = o.named(f'N_{kind}_inf', n.P())
        nv = o.named(f'N_{kind}', SV(z3.If(n.P(), RV(0), n.t)))
        o.prove(f'calc_N infinite iff P <= P_D [{kind}]', ninf == (P <= PD))
        o.prove(f'calc_N: P >= P_Z -> 1e3 (P/P_Z)^(1/d_1) [{kind}]', z3.Implies(P >= PZ, nv == 1000 * pw(P / PZ, 1 / d1)))
        o.prove(f'calc_N: P_D < P < P_Z -> 1e3 (P/P_Z)^(1/d_2) [{kind}]', z3.Implies(z3.And(P > PD, P < PZ), nv == 1000 * pw(P / PZ, 1 / d2)))
        o.prove(f'calc_N continuous at the knee: P = P_Z -> 1e3 by both expressions [{kind}]',
                z3.Implies(P == PZ, z3.And(nv == 1000, 1000 * pw(P / PZ, 1 / d2) == 1000)))
        o.prove(f'calc_N: N <= 1e3 iff P >= P_Z on the finite range [{kind}]', z3.Implies(P > PD, (nv <= 1000) == (P >= PZ)))
        o.prove(f'calc_N below N_D on the finite range [{kind}]', z3.Implies(P > PD, nv < ND))
        pr = o.named(f'PR_{kind}', o.run1(lambda: call(o, wc, 'calc_P_RAM', SV(N, kind=kind)), label=f'calc_P_RAM[{kind}]'))
        o.prove(f'calc_P_RAM: N < 1e3 -> P_Z (N/1e3)^d_1 [{kind}]', z3.Implies(N < 1000, pr == PZ * pw(N * RV(1e-3), d1)))
        o.prove(f'calc_P_RAM: 1e3 <= N < N_D -> P_Z (N/1e3)^d_2 [{kind}]', z3.Implies(z3.And(N >= 1000, N < ND), pr == PZ * pw(N * RV(1e-3), d2)))
        o.prove(f'calc_P_RAM: N >= N_D -> P_D [{kind}]', z3.Implies(N >= ND, pr == PD))
        o.prove(f'calc_P_RAM continuous at N = 1e3 and N = N_D [{kind}]',
                z3.And(z3.Implies(N == 1000, z3.And(pr == PZ, PZ * pw(N * RV(1e-3), d1) == PZ)), z3.Implies(N == ND, PZ * pw(N * RV(1e-3), d2) == PD)))
    o.canary('canary: calc_N finite at the endurance value', z3.Implies(P == PD, z3.Not(ninf)))


def prop_(o, obj, name):
    return lambda: __import__('pv.npmodel', fromlist=['getattr_']).getattr_(o.I, obj, name, None)


@obligation('C09', 'pram.inverse-monotone', functions=PRAMF)
def pram_inverse(o):
    """calc_P_RAM o calc_N = id on P > P_D, calc_N o calc_P_RAM = id on N < N_D; strictly decreasing on the finite range"""
    wc, (PZ, PD, d1, d2) = pram_curve(o)
    P, P2, N = o.reals('P P2 N')
    o.assume(P > PD, P2 > PD, N > 0)
    kind = 'ndarray'
    n = o.run1(lambda: call(o, wc, 'calc_N', SV(P, kind=kind)), label='calc_N')
    back = o.run1(lambda: call(o, wc, 'calc_P_RAM', SV(n.t, kind=kind)), label='calc_P_RAM(calc_N)')
    o.prove('calc_P_RAM(calc_N(P)) == P for P > P_D', z3.And(z3.Not(n.P()), back.t == P))
    n2 = o.run1(lambda: call(o, wc, 'calc_N', SV(P2, kind=kind)), label='calc_N(P2)')
    o.prove('calc_N strictly decreasing on the finite range', z3.Implies(P < P2, n2.t < n.t))
    ND = o.run1(prop_(o, wc, 'fatigue_life_limit'), label='fatigue_life_limit')
    h0 = len(o.hyps)
    o.hyps.append(N < ND.t)
    pr = o.run1(lambda: call(o, wc, 'calc_P_RAM', SV(N, kind=kind)), label='calc_P_RAM')
    o.prove('calc_P_RAM(N) > P_D for N < N_D', pr.t > PD)
    nn = o.run1(lambda: call(o, wc, 'calc_N', pr), label='calc_N(calc_P_RAM)')
    o.prove('calc_N(calc_P_RAM(N)) == N for N < N_D', z3.And(z3.Not(nn.P()), nn.t == N))
    o.canary('canary: calc_N increasing', z3.Implies(P < P2, n2.t > n.t))


PRAJF = [WF + 'WoehlerCurvePRAJ.' + m for m in ('__init__', '_validate', 'calc_N', 'calc_P_RAJ', 'fatigue_strength_limit', 'fatigue_life_limit')]


@obligation('C09', 'praj.curve', functions=PRAJF)
def praj_curve(o):
    """P_RAJ curve: one slope, P_Z at N = 1; calc_N = inf iff P <= P_D; inverse; strictly decreasing; continuity at N_D"""
    JZ, JD, d = o.reals('P_RAJ_Z P_RAJ_D_0 d_RAJ')
    o.assume(JZ > JD, JD > 0, d < 0)
    wc = o.new(WF + 'WoehlerCurvePRAJ', o.rec('series', P_RAJ_Z=SV(JZ), P_RAJ_D_0=SV(JD), d_RAJ=SV(d)))
    P, P2, N = o.reals('P P2 N')
    o.assume(P > 0, P2 > 0, N > 0)
    ND = o.run1(prop_(o, wc, 'fatigue_life_limit'), label='fatigue_life_limit')
    o.prove('N_D = (P_D/P_Z)^(1/d) > 1', z3.And(ND.t == pw(JD / JZ, 1 / d), ND.t > 1))
    for kind in KINDS:
        n = o.run1(lambda: call(o, wc, 'calc_N', SV(P, kind=kind)), label=f'calc_N[{kind}]')
        o.prove(f'calc_N infinite iff P <= P_D [{kind}]', n.P() == (P <= JD))
        o.prove(f'calc_N == (P/P_Z)^(1/d) for P > P_D [{kind}]', z3.Implies(P > JD, n.t == pw(P / JZ, 1 / d)))
        o.prove(f'calc_N(P_Z) == 1 [{kind}]', z3.Implies(P == JZ, n.t == 1))
        pr = o.run1(lambda: call(o, wc, 'calc_P_RAJ', SV(N, kind=kind)), label=f'calc_P_RAJ[{kind}]')
        o.prove(f'calc_P_RAJ == P_Z N^d below N_D, P_D at and above [{kind}]', z3.And(z3.Implies(N < ND.t, pr.t == JZ * pw(N, d)), z3.Implies(N >= ND.t, pr.t == JD)))
        o.prove(f'calc_P_RAJ continuous at N_D [{kind}]', z3.Implies(N == ND.t, JZ * pw(N, d) == JD))
    # the optional endurance value (the damage calculator evaluates the curve against the endurance value reduced by the damage so far) and the stored, updated one
    # (added after seed C09-d made calc_N ignore the argument)
    PDx, PDu = o.reals('P_RAJ_D_given P_RAJ_D_updated')
    o.assume(PDx > 0, PDu > 0)
    for kind in KINDS:
        n = o.run1(lambda: call(o, wc, 'calc_N', SV(P, kind=kind), P_RAJ_D=SV(PDx)), label=f'calc_N(P, P_RAJ_D)[{kind}]')
        o.prove(f'calc_N(P, P_RAJ_D=x) infinite iff P <= x, the curve value above [{kind}]', z3.And(n.P() == (P <= PDx), z3.Implies(P > PDx, n.t == pw(P / JZ, 1 / d))))
    wc2 = o.new(WF + 'WoehlerCurvePRAJ', o.rec('series', P_RAJ_Z=SV(JZ), P_RAJ_D_0=SV(JD), d_RAJ=SV(d)))
    o.run1(lambda: call(o, wc2, 'update_P_RAJ_D', SV(PDu)), label='update_P_RAJ_D')
    n = o.run1(lambda: call(o, wc2, 'calc_N', SV(P, kind='ndarray')), label='calc_N after update')
    o.prove('after update_P_RAJ_D(u): calc_N(P) infinite iff P <= u', n.P() == (P <= PDu))
    n = o.run1(lambda: call(o, wc2, 'calc_N', SV(P, kind='ndarray'), P_RAJ_D=SV(PDx)), label='calc_N(P, P_RAJ_D) after update')
    o.prove('after update_P_RAJ_D(u): calc_N(P, P_RAJ_D=x) still decides by x', n.P() == (P <= PDx))
    n = o.run1(lambda: call(o, wc, 'calc_N', SV(P, kind='ndarray')), label='calc_N')
    n2 = o.run1(lambda: call(o, wc, 'calc_N', SV(P2, kind='ndarray')), label='calc_N(P2)')
    o.prove('calc_N strictly decreasing on the finite range', z3.Implies(z3.And(P > JD, P < P2), n2.t < n.t))
    h0 = len(o.hyps)
    o.hyps.append(P > JD)
    back = o.run1(lambda: call(o, wc, 'calc_P_RAJ', SV(n.t, kind='ndarray')), label='calc_P_RAJ(calc_N)')
    o.prove('calc_P_RAJ(calc_N(P)) == P for P > P_D', back.t == P)
    del o.hyps[h0:]
    o.hyps.append(N < ND.t)
    pr = o.run1(lambda: call(o, wc, 'calc_P_RAJ', SV(N, kind='ndarray')), label='calc_P_RAJ')
    nn = o.run1(lambda: call(o, wc, 'calc_N', pr), label='calc_N(calc_P_RAJ)')
    o.prove('calc_N(calc_P_RAJ(N)) == N for N < N_D', z3.And(z3.Not(nn.P()), nn.t == N))


GUIDELINE_M = {   # FKM nonlinear guideline table 2.14 (2.22): a_M, b_M per material group
    'Steel': (0.35, -0.1), 'SteelCast': (0.35, 0.05), 'Al_wrought': (1.0, -0.04),
}


@obligation('C09', 'p_ram.compute_values', functions=[DP + '.__init__', DP + '._compute_values', CONST + 'for_material_group'])
def p_ram_values(o):
    """P_RAM = sqrt((S_a + k S_m) eps_a E) with k = M(M+2) for S_m >= 0, (M/3)(M/3+2) for S_m < 0, M = a_M 1e-3 R_m + b_M (guideline table values),
    0 when S_a + k S_m < 0; helper columns dropped, other columns untouched"""
    Sa, Sm, ea, Rm, E = o.reals('S_a S_m epsilon_a R_m E')
    o.assume(Sa >= 0, ea >= 0, E > 0, Rm > 0)
    o.safety_exempt = ['sqrt of non-negative']
    o.note("np.where evaluates np.sqrt also on rows with a negative product (numpy warns, the value is discarded): that safety obligation is exempt, "
           "the selected branch is covered by the postcondition")
    for group, (aM, bM) in GUIDELINE_M.items():
        coll = Rec({'S_a': SV(Sa, kind='series'), 'S_m': SV(Sm, kind='series'), 'epsilon_a': SV(ea, kind='series'), 'other': SV(o.real('other_' + group), kind='series')}, 'frame')
        o.track(coll)
        params = Rec({'R_m': SV(Rm), 'E': SV(E), 'MatGroupFKM': group}, 'series')
        o.track(params)
        # constants.for_material_group reads a pandas table: replaced by its contract = the guideline's table row
        const = Rec({'a_M': SV(RV(aM)), 'b_M': SV(RV(bM))}, 'series')
        o.spec(CONST + 'for_material_group', lambda I, args, kw, c=const: c)
        pr = o.new(DP, coll, params)
        res = pr.fields['_collective']
        M = RV(aM) * RV(1e-3) * Rm + RV(bM)
        k = z3.If(Sm >= 0, M * (M + 2), (M / 3) * (M / 3 + 2))
        disc = Sa + k * Sm
        val = res.fields['P_RAM'].t
        o.prove(f'{group}: P_RAM^2 == (S_a + k S_m) eps_a E when that product is >= 0, value >= 0', z3.Implies(disc >= 0, z3.And(val >= 0, val * val == disc * ea * E)))
        o.prove(f'{group}: P_RAM == 0 when S_a + k S_m < 0', z3.Implies(disc < 0, val == 0))
        o.prove(f'{group}: helper columns dropped, other columns untouched, input collective not modified',
                z3.BoolVal(sorted(res.fields) == ['P_RAM', 'S_a', 'S_m', 'epsilon_a', 'other'] and res is not coll and coll.writes == []
                           and all(res.fields[c] is coll.fields[c] for c in ('S_a', 'S_m', 'epsilon_a', 'other'))))
    o.note("constants.for_material_group (a pandas table lookup) is replaced by the guideline row written in this contract; the table in constants.py is "
           "compared with it by the bounded stand-in")


@obligation('C09', 'damage_calculator.pram', functions=[DC + '.__init__', DC + '.lifetime_n_times_load_sequence', DC + '.lifetime_n_cycles', DC + '.is_life_infinite'])
def damage_calc(o):
    """per hysteresis N_i from the un-truncated two slope law, D_i = 1/N_i (closed) or 0.5/N_i (half); with D1, D2 the damage sums of pass 1 / pass 2 and no
    failure inside the recorded rows: lifetime_n_times_load_sequence = x + 1 with D1 + x D2 = 1 (accumulate pass 1 once, pass 2 repeatedly until the sum
    reaches one); lifetime_n_cycles = that times the number of pass-2 hystereses"""
    PZ, PD, d1, d2 = o.reals('P_RAM_Z P_RAM_D d_1 d_2')
    o.assume(PZ > PD, PD > 0, d1 < 0, d2 < 0)
    wrec = o.rec('series', P_RAM_Z=SV(PZ), P_RAM_D=SV(PD), d_1=SV(d1), d_2=SV(d2))
    wc = o.new(WF + 'WoehlerCurvePRAM', wrec)
    P = o.real('P_RAM')
    closed = o.bool('is_closed')
    run = o.int('run_index')
    o.assume(P > 0, z3.Or(run == 1, run == 2))
    coll = Rec({'P_RAM': SV(P, kind='series'), 'is_closed_hysteresis': SV(closed, kind='series'), 'run_index': SV(run, kind='series'),
                'S_min': SV(o.real('S_min'), kind='series')}, 'frame')
    o.track(coll)
    nh, nh2, nuntil = o.ints('n_hystereses n_hystereses_run_2 n_cycles_until_damage')
    o.assume(nh >= 1, nh2 >= 1, nh2 <= nh, nuntil >= 0)
    cls = o.cls(DC)

    def init_index(I, args, kw):
        self_ = args[0]
        self_.fields['_n_hystereses'] = SV(nh)
        self_.fields['_n_hystereses_run_2'] = SV(nh2)
    o.spec(DC + '._initialize_collective_index', init_index)
    o.spec(DC + '._initialize_P_RAM_Z_index', lambda I, args, kw: None)
    o.spec(DC + '._fill_with_default_for_missing_assessment_points', lambda I, args, kw: args[1])
    from pv.npmodel import GroupBy, Builtin

    calc = o.run1(lambda: build_calc(o, cls, coll, wc, nuntil), label='DamageCalculatorPRAM.__init__')
    c = calc.fields['_collective'].fields
    Ni, Di = c['N'].t, c['D'].t
    o.prove('N_i = 1e3 (P/P_Z)^(1/d_1) for P >= P_Z else 1e3 (P/P_Z)^(1/d_2)', Ni == z3.If(P >= PZ, 1000 * pw(P / PZ, 1 / d1), 1000 * pw(P / PZ, 1 / d2)))
    o.prove('N_i > 0', Ni > 0)
    o.prove('D_i = 1/N_i for closed, 0.5/N_i for half hystereses', Di == z3.If(closed, 1 / Ni, RV(0.5) / Ni))
    n0 = len(o.I.reductions)
    # 1/D2: D2 > 0 is a sum-calculus fact (assumed below), not visible to the engine while it runs the property
    o.safety_exempt = ['divisor != 0']
    x1 = o.run1(prop_(o, calc, 'lifetime_n_times_load_sequence'), label='lifetime_n_times_load_sequence')
    reds = list(o.I.reductions.values())[n0:]
    if not reds:
        from pv.api import Unbound
        raise Unbound('no group-by sums recorded: ' + str(list(o.I.reductions.values())))
    def equiv(a, b):
        sv_ = z3.Solver()
        sv_.add(a != b)
        return sv_.check() == z3.unsat
    s1 = [r for r in reds if r['kind'] == 'sum' and r['mask'] is not None and equiv(r['mask'], run == 1)]
    s2 = [r for r in reds if r['kind'] == 'sum' and r['mask'] is not None and equiv(r['mask'], run == 2)]
    o.prove('the two damage sums are taken over the D column restricted to pass 1 resp. pass 2',
            z3.BoolVal(len(s1) == 1 and len(s2) == 1 and s1[0]['term'].eq(Di) and s2[0]['term'].eq(Di)))
    D1, D2 = s1[0]['value'], s2[0]['value']
    # sum calculus: a sum of positive terms is >= 0, > 0 when the pass is not empty (pass 2 always has rows)
    o.assume(D1 >= 0, D2 > 0)
    o.trusted("sum calculus: sums of the positive per-row damages are >= 0 (pass 1) and > 0 (pass 2 is never empty)")
    early = nuntil < nh
    o.prove('early failure inside the recorded rows -> 0 repetitions', z3.Implies(early, x1.t == 0))
    o.prove('otherwise D1 + (result - 1) D2 == 1', z3.Implies(z3.Not(early), D1 + (x1.t - 1) * D2 == 1))
    o.prove('otherwise result = 1 + (1 - D1)/D2', z3.Implies(z3.Not(early), x1.t == 1 + (1 - D1) / D2))
    lc = o.run1(prop_(o, calc, 'lifetime_n_cycles'), label='lifetime_n_cycles')
    o.prove('lifetime_n_cycles = repetitions * number of pass-2 hystereses, or the row of first failure',
            z3.And(z3.Implies(z3.Not(early), lc.t == x1.t * nh2), z3.Implies(early, lc.t == nuntil)))
    o.canary('canary: result = (1 - D1)/D2 without the first pass', z3.Implies(z3.Not(early), x1.t == (1 - D1) / D2))
    o.note("n_cycles_until_damage (np.searchsorted on the running damage sum per point) is an input of this contract; bounded stand-in compares with explicit accumulation")


def build_calc(o, cls, coll, wc, nuntil):
    """run the real __init__ with the pandas group-by/cumsum/apply(searchsorted) tail replaced by its contract"""
    from pv.npmodel import Builtin, GroupBy
    I = o.I
    obj = Obj(cls)
    c, init = cls.lookup('__init__')
    from pv.interp import Func

    # the last two statements of __init__ are pandas group-wise cumsum / searchsorted: modelled as producing the symbolic n_cycles_until_damage
    import ast
    import copy
    node = copy.deepcopy(init)
    kept = []
    for st in node.body:
        src = ast.unparse(st)
        if 'cumulative_damage' in src and 'cumsum' in src:
            continue
        if '_n_cycles_until_damage' in src:
            continue
        kept.append(st)
    dropped = len(node.body) - len(kept)
    o.shape('the extraction drops exactly the two bookkeeping statements of __init__', dropped == 2, dropped)
    node.body = kept
    f = Func(node, c.mod, None, f"{c.mod.name}::{c.name}.__init__", obj, c)
    I.call_func(f, [coll, wc], {})
    obj.fields['_n_cycles_until_damage'] = SV(nuntil, kind='scalar')
    return obj


@obligation('C09', 'compute_beta', functions=[PC + 'compute_beta'])
def compute_beta(o):
    """if the root search reports success the result is -Phi^-1(P_A) (= the negative standard normal quantile); otherwise RuntimeError, never a silent value"""
    PA = o.real('P_A')
    o.assume(PA > 0, PA <= RV(0.5))
    ps = o.paths(lambda: o.I.call(o.func(PC + 'compute_beta'), [SV(PA)]))
    rets = [p for p in ps if p.kind == 'return']
    raises = [p for p in ps if p.kind == 'raise']
    o.shape('one returning and one raising path', len(rets) == 1 and len(raises) == 1 and raises[0].exc.exc_type == 'RuntimeError', [(p.kind, getattr(p.exc, 'exc_type', None)) for p in ps])
    rec = o.I.root_records[-1]
    p = rets[0]
    o.take_side_obligations(p, 'compute_beta')
    o.prove('returns only on success', z3.And(*p.pc) == rec['success'] if False else z3.Implies(z3.And(*p.pc), rec['success']))
    o.prove('raises when not successful', z3.Implies(z3.And(*raises[0].pc), z3.Not(rec['success'])))
    o.prove('the function handed to root is |Phi(x) - P_A|', rec['f'] == z3.If(Phi(rec['x']) - PA >= 0, Phi(rec['x']) - PA, -(Phi(rec['x']) - PA)), under=p.pc)
    o.prove('beta == -Phi^-1(P_A)', p.result.t == -Pinv(PA), under=p.pc)
    o.prove('beta >= 0 for P_A <= 0.5', p.result.t >= 0, under=p.pc)
    o.canary('canary: beta == Phi^-1(P_A)', z3.Implies(PA < RV(0.5), p.result.t == Pinv(PA)), under=p.pc)


TABLE = [(1e-7, 5.20), (1e-6, 4.75), (1e-5, 4.27), (7.2e-5, 3.8), (1e-3, 3.09), (2.3e-1, 0.739), (0.5, 0)]


@obligation('C09', 'gamma_L', functions=[LD + 'FKMLoadSequence._get_beta', LD + 'FKMLoadDistributionNormal.gamma_L', LD + 'FKMLoadDistributionLognormal.gamma_L',
                                         LD + 'FKMLoadDistributionBlanket.gamma_L', LD + 'FKMLoadSequence._validate_parameters'])
def gamma_L(o):
    """load safety factors: normal (L_max + alpha)/L_max with alpha = 0.7 beta s_L resp. (0.7 beta - 2) s_L for P_L = 2.5 %; log-normal max(1, 10^alpha);
    blanket 1.1 / 1.0; beta from the guideline table or ValueError"""
    s, Lmax = o.reals('s L_max')
    o.assume(s >= 0, Lmax > 0)
    seq = Opaque_obj()
    for clsname, key in (('FKMLoadDistributionNormal', 's_L'), ('FKMLoadDistributionLognormal', 'LSD_s')):
        cls = o.cls(LD + clsname)
        o.spec(LD + 'FKMLoadSequence.maximum_absolute_load', lambda I, args, kw: SV(Lmax))
        for PA, beta in TABLE:
            for PL in (2.5, 50.0):
                acc = Obj(cls)
                acc.fields['_obj'] = seq
                prm = Rec({'P_A': PA, 'P_L': PL, key: SV(s)}, 'series')
                g = o.run1(lambda: o.I.call(o.method(acc, 'gamma_L'), [prm]), label=f'{clsname}.gamma_L[P_A={PA},P_L={PL}]')
                # the code evaluates 0.7 * beta (- 2) in floating point on literals; the same float expression is used here
                alpha = RV(0.7 * beta - 2) * s if PL == 2.5 else RV(0.7 * beta) * s
                if key == 's_L':
                    o.prove(f'normal: gamma_L == (L_max + alpha)/L_max [P_A={PA}, P_L={PL}]', g.t == (Lmax + alpha) / Lmax)
                else:
                    gt = g.t if isinstance(g, SV) else RV(float(g))
                    o.prove(f'log-normal: gamma_L == max(1, 10^alpha) [P_A={PA}, P_L={PL}]', gt == z3.If(ex(alpha) > 1, ex(alpha), RV(1)))
        acc = Obj(cls)
        acc.fields['_obj'] = seq
        prm = Rec({'P_A': 0.3, 'P_L': 2.5, key: SV(s)}, 'series')
        ps = o.paths(lambda: o.I.call(o.method(acc, 'gamma_L'), [prm]))
        o.prove(f'{clsname}: a failure probability outside the table raises ValueError', z3.BoolVal(all(p.kind == 'raise' and p.exc.exc_type == 'ValueError' for p in ps)))
    cls = o.cls(LD + 'FKMLoadDistributionBlanket')
    for PL, want in ((2.5, 1.1), (50.0, 1.0)):
        acc = Obj(cls)
        acc.fields['_obj'] = seq
        g = o.run1(lambda: o.I.call(o.method(acc, 'gamma_L'), [Rec({'P_L': PL}, 'series')]), label=f'blanket[{PL}]')
        o.prove(f'blanket: gamma_L({PL}) == {want}', z3.BoolVal(float(g) == want))
    acc = Obj(cls)
    acc.fields['_obj'] = seq
    ps = o.paths(lambda: o.I.call(o.method(acc, 'gamma_L'), [Rec({'P_L': 10.0}, 'series')]))
    o.prove('blanket: other P_L raise ValueError', z3.BoolVal(all(p.kind == 'raise' and p.exc.exc_type == 'ValueError' for p in ps)))


def Opaque_obj():
    from pv.interp import Opaque
    return Opaque('load-sequence')


# ---------------------------------------------------------------------------------------------
# frame-guard exemption (pv/guards.py): gamma_L fills the default `max_load_independently_for_nodes` into the parameter Series it is handed when the entry is missing;
# the entries the caller passed are still compared
GUARD_EXEMPT = {'FKMLoadDistributionNormal.gamma_L:input_parameters': ('may-add-entries', "gamma_L adds the default entry 'max_load_independently_for_nodes' to the caller's parameter Series"),
                'FKMLoadDistributionLognormal.gamma_L:input_parameters': ('may-add-entries', "as for the normal distribution")}


@bounded('C09', 'load-maximum-and-gamma_L', shards=1)
def b_lmax(ctx):
    """FKMLoadSequence.maximum_absolute_load - which the gamma_L proof takes under contract - on the real accessor: the maximum of |load| over the LOAD column only
    (per node, or over all nodes), for a Series, a one-column frame and a frame with further columns (stress gradient G) whose numbers exceed the loads; and the
    normal-distribution gamma_L of each container against (L_max + alpha_L)/L_max with alpha_L from the guideline (added after seed C09-e took the maximum over all
    columns)"""
    import warnings
    import numpy as np
    import pandas as pd
    from scipy.stats import norm
    import pylife.strength.fkm_load_distribution   # noqa
    warnings.simplefilter('ignore')
    seq = np.array([0.1, -0.2, 0.1, -0.25, 0.2, 0.0, 0.2, -0.2])
    ctx.bound = "one sequence in relative units (max |L| = 0.25 and x 400) on 1 and 2 nodes; containers Series / frame [S_v] / frame [S_v, G] with G = 2.0, 1.5; per-node and overall maximum; P_A in {1e-5, 7.2e-5, 1e-3}, P_L in {2.5, 50}, s_L = 0.04 L_max"
    ctx.rule = "every (scale, container, parameter set) is one case; non-trivial: more than one column or node"
    for scale in (1.0, 400.0):
        idx = pd.MultiIndex.from_product([range(len(seq)), [7, 3]], names=['load_step', 'node_id'])
        loads2 = np.array([v * f for v in seq * scale for f in (1.0, 0.5)])
        conts = {'series': pd.Series(seq * scale, index=pd.Index(range(len(seq)), name='load_step')),
                 'series-2-nodes': pd.Series(loads2, index=idx),
                 'frame[S_v]': pd.DataFrame({'S_v': loads2}, index=idx),
                 'frame[S_v,G]': pd.DataFrame({'S_v': loads2, 'G': [2.0, 1.5] * len(seq)}, index=idx)}
        for cname, obj in conts.items():
            ctx.case(cname != 'series', key=(scale, cname, 'lmax'))
            want_all = 0.25 * scale
            got_all = obj.fkm_load_sequence.maximum_absolute_load()
            if not np.isclose(got_all, want_all, rtol=1e-12):
                ctx.fail(f'C09:maximum_absolute_load:{cname}', f'maximum_absolute_load of {cname} (loads x {scale}) = {got_all}, max |load| = {want_all}', {'container': cname, 'scale': scale})
            if cname != 'series':
                per = obj.fkm_load_sequence.maximum_absolute_load(max_load_independently_for_nodes=True)
                per = per.iloc[:, 0] if isinstance(per, pd.DataFrame) else per       # a one-column frame stays a one-column frame
                wantp = {7: 0.25 * scale, 3: 0.125 * scale}
                if not all(np.isclose(float(per[k_]), v_, rtol=1e-12) for k_, v_ in wantp.items()):
                    ctx.fail(f'C09:maximum_absolute_load:per-node:{cname}', f'per-node maximum of {cname} = {dict(per)}, expected {wantp}', {'container': cname, 'scale': scale})
            for PA, PL in ((1e-5, 50), (1e-5, 2.5), (7.2e-5, 50), (7.2e-5, 2.5), (1e-3, 50), (1e-3, 2.5)):
                sL = 0.04 * want_all
                prm = pd.Series({'P_A': PA, 'P_L': PL, 's_L': sL})
                beta = -norm.ppf(PA)
                alpha = (0.7 * beta if PL == 50 else 0.7 * beta - 2) * sL
                want = (want_all + alpha) / want_all
                ctx.case(cname != 'series', key=(scale, cname, PA, PL))
                try:
                    got = obj.fkm_safety_normal_from_stddev.gamma_L(prm)
                except Exception as e:   # noqa
                    ctx.fail(f'C09:gamma_L:{cname}:raises:{type(e).__name__}', f'gamma_L on {cname} raises {type(e).__name__}: {str(e)[:120]}', None)
                    continue
                # the library takes beta from the guideline's table (4.27 for P_A = 1e-5, exact 4.2649): the two agree to 2e-4 in gamma_L
                if not np.isclose(float(got), want, rtol=5e-4):
                    ctx.fail(f'C09:gamma_L:{cname}', f'gamma_L of {cname} (loads x {scale}, P_A={PA}, P_L={PL}) = {float(got)}, guideline formula {want}', {'container': cname, 'scale': scale, 'P_A': PA, 'P_L': PL})
    ctx.sample({'container': 'frame[S_v,G]', 'G': [2.0, 1.5], 'max |S_v|': 0.25})


@bounded('C09', 'compute_beta-grid', shards=2)
def b_beta(ctx):
    """compute_beta converges and equals -norm.ppf on a log grid of (0, 0.5]"""
    import numpy as np
    from scipy.stats import norm
    from pylife.strength.fkm_nonlinear.parameter_calculations import compute_beta
    n = 400 if ctx.tier == 'quick' else 4000
    ctx.bound = f"{n} points log-spaced in [1e-12, 0.5] plus 0.5, 0.25, 0.1 and the guideline table values"
    ctx.rule = "every grid point is non-trivial; distinct by value"
    grid = list(np.logspace(-12, np.log10(0.5), n)) + [0.5, 0.25, 0.1, 1e-7, 1e-6, 1e-5, 7.2e-5, 1e-3, 2.3e-1]
    for i, pa in enumerate(grid):
        if i % ctx.nshards != ctx.shard:
            continue
        ctx.case(True, key=float(pa))
        try:
            b = compute_beta(float(pa))
        except RuntimeError:
            ctx.count('root-search-failed')
            ctx.fail('C09:compute_beta-no-convergence', f'compute_beta({pa}) did not converge',
                     f"from pylife.strength.fkm_nonlinear.parameter_calculations import compute_beta\nprint(compute_beta({float(pa)!r}))")
            continue
        want = -norm.ppf(pa)
        if abs(b - want) > 1e-6 * max(1, abs(want)):
            ctx.fail('C09:compute_beta-value', f'compute_beta({pa}) = {b}, -ppf = {want}', {'P_A': float(pa)})
    ctx.sample({'P_A': 1e-5, 'beta': float(compute_beta(1e-5))})


@bounded('C09', 'accumulation', shards=4)
def b_accum(ctx):
    """closed-form P_RAM lifetime vs literally accumulating pass-1 damage once and pass-2 damage row by row until >= 1 (agreement within one pass of the
    sequence: the closed form is the continuous interpolation); half hystereses count half; P_RAM formula and constants table vs the guideline values"""
    import itertools
    import numpy as np
    import pandas as pd
    import pylife.strength.woehler_fkm_nonlinear   # noqa
    from pylife.strength.fkm_nonlinear.damage_calculator import DamageCalculatorPRAM
    from pylife.strength import damage_parameter
    import pylife.strength.fkm_nonlinear.constants as constants
    wc = pd.Series({'P_RAM_Z': 400.0, 'P_RAM_D': 150.0, 'd_1': -0.3, 'd_2': -0.2})
    w = wc.woehler_P_RAM
    pvals = [160.0, 250.0, 400.0, 700.0] if ctx.tier == 'quick' else [151.0, 160.0, 250.0, 399.0, 400.0, 700.0]
    maxrows = 2      # (three rows per pass over six P_RAM values would be 3.5 million tables: the thorough tier widens the value set instead)
    ctx.bound = f"all hysteresis tables with 0..{maxrows} rows in pass 1 and 1..{maxrows} rows in pass 2, P_RAM from {pvals}, closed/half flags; 3 material groups x R_m grid for P_RAM"
    ctx.rule = "non-trivial: table with both passes or a half hysteresis"
    ctx.exhaustive = True
    rows = [(p, c) for p in pvals for c in (True, False)]
    for n1 in range(0, maxrows + 1):
        for n2 in range(1, maxrows + 1):
            for t1 in itertools.product(rows, repeat=n1):
                for t2 in itertools.product(rows, repeat=n2):
                    if not ctx.mine():
                        continue
                    tab = list(t1) + list(t2)
                    df = pd.DataFrame({'P_RAM': [r[0] for r in tab], 'is_closed_hysteresis': [r[1] for r in tab],
                                       'run_index': [1] * n1 + [2] * n2, 'S_min': 0.0, 'S_max': 1.0})
                    calc = DamageCalculatorPRAM(df, w)
                    reps = float(calc.lifetime_n_times_load_sequence)
                    cyc = float(calc.lifetime_n_cycles)
                    ctx.case(n1 > 0 or any(not r[1] for r in tab), key=(tuple(t1), tuple(t2)))
                    # explicit accumulation with the same (un-truncated) law
                    def dmg(p, closed):
                        N = 1e3 * (p / 400.0) ** (1 / -0.3 if p >= 400.0 else 1 / -0.2)
                        return (1.0 if closed else 0.5) / N
                    acc = sum(dmg(*r) for r in t1)
                    d2 = sum(dmg(*r) for r in t2)
                    if acc + d2 >= 1:
                        continue    # failure inside the recorded rows: early-failure branch, not the closed form
                    want = 1 + (1 - acc) / d2
                    if abs(reps - want) > 1e-9 * want:
                        ctx.fail('C09:lifetime-formula', f'lifetime_n_times_load_sequence {reps} != 1 + (1-D1)/D2 = {want}', {'pass1': t1, 'pass2': t2})
                    # literal accumulation, pass 2 repeated: number of full passes until the sum reaches 1
                    total, passes = acc, 0
                    while total < 1 and passes < 10**7:
                        if d2 * 1000 < 1 - total:   # fast forward
                            k = int((1 - total) / d2) - 1
                            total += k * d2
                            passes += k
                        total += d2
                        passes += 1
                    if not (passes - 1 <= reps - 1 + 1e-9 and reps - 1 <= passes + 1e-9):
                        ctx.fail('C09:accumulation', f'closed form {reps} repetitions vs literal accumulation {passes} passes of pass 2 (+ pass 1)', {'pass1': t1, 'pass2': t2})
                    if abs(cyc - reps * n2) > 1e-9 * cyc:
                        ctx.fail('C09:lifetime-cycles', f'lifetime_n_cycles {cyc} != {reps} * {n2}', {'pass1': t1, 'pass2': t2})
                    # the same table for three assessment points (index levels hysteresis_index / assessment_point_index, loads x1, x0.8, x0.6), rows listed
                    # hysteresis by hysteresis (the recorder's order) and point by point: every point gets the lifetime it gets alone
                    # (added after seed C09-g summed the damages by row POSITION instead of by assessment point)
                    if ctx._i % 5 == 0 and len(tab) >= 2:
                        facs = [1.0, 0.8, 0.6]
                        alone = []
                        for f_ in facs:
                            c1 = DamageCalculatorPRAM(pd.DataFrame({'P_RAM': [r[0] * f_ for r in tab], 'is_closed_hysteresis': [r[1] for r in tab],
                                                                    'run_index': [1] * n1 + [2] * n2, 'S_min': 0.0, 'S_max': 1.0}), w)
                            alone.append((float(c1.lifetime_n_times_load_sequence), float(c1.lifetime_n_cycles)))
                        ix = pd.MultiIndex.from_product([range(len(tab)), range(len(facs))], names=['hysteresis_index', 'assessment_point_index'])
                        multi = pd.DataFrame({'P_RAM': [r[0] * f_ for r in tab for f_ in facs], 'is_closed_hysteresis': [r[1] for r in tab for _ in facs],
                                              'run_index': [ri for ri in [1] * n1 + [2] * n2 for _ in facs], 'S_min': 0.0, 'S_max': 1.0}, index=ix)
                        for oname, tabm in (('hysteresis-by-hysteresis', multi), ('point-by-point', multi.sort_index(level=['assessment_point_index', 'hysteresis_index']))):
                            ctx.case(True, key=(tuple(t1), tuple(t2), oname))
                            try:
                                cm = DamageCalculatorPRAM(tabm.copy(), w)
                                gt = np.atleast_1d(np.asarray(cm.lifetime_n_times_load_sequence, dtype=float))
                                gc = np.atleast_1d(np.asarray(cm.lifetime_n_cycles, dtype=float))
                            except Exception as e:   # noqa
                                ctx.fail(f'C09:multi-point-table:{oname}:raises:{type(e).__name__}', f'DamageCalculatorPRAM on a three-point table ({oname}) raises {type(e).__name__}: {str(e)[:150]}', {'pass1': t1, 'pass2': t2})
                                continue
                            if len(gt) != 3 or any(abs(gt[k_] - alone[k_][0]) > 1e-9 * abs(alone[k_][0]) or abs(gc[k_] - alone[k_][1]) > 1e-9 * max(1.0, abs(alone[k_][1])) for k_ in range(3)):
                                ctx.fail(f'C09:multi-point-table:{oname}', f'three-point table ({oname}): repetitions/cycles per point {gt.tolist()}/{gc.tolist()}, each point alone {alone}', {'pass1': t1, 'pass2': t2, 'factors': facs})
    # P_RAM values and the constants table
    if ctx.shard == 0:
        guideline = {'Steel': (0.35, -0.1), 'SteelCast': (0.35, 0.05), 'Al_wrought': (1.0, -0.04)}
        for grp, (aM, bM) in guideline.items():
            for Rm in (300.0, 600.0, 1200.0):
                prm = pd.Series({'MatGroupFKM': grp, 'R_m': Rm, 'E': 206e3, 'FinishingFKM': 'none'})
                c = constants.for_material_group(prm)
                if abs(c.a_M - aM) > 1e-12 or abs(c.b_M - bM) > 1e-12:
                    ctx.fail('C09:constants', f'{grp}: a_M, b_M = {c.a_M}, {c.b_M} differ from the guideline {aM}, {bM}', {'group': grp})
                M = aM * 1e-3 * Rm + bM
                for Sa, Sm, ea in ((100.0, 50.0, 1e-3), (100.0, -50.0, 1e-3), (10.0, -400.0, 1e-3), (100.0, 0.0, 2e-3)):
                    coll = pd.DataFrame({'S_a': [Sa], 'S_m': [Sm], 'epsilon_a': [ea]})
                    got = float(damage_parameter.P_RAM(coll, prm).collective.P_RAM.iloc[0])
                    k = M * (M + 2) if Sm >= 0 else M / 3 * (M / 3 + 2)
                    d = Sa + k * Sm
                    want = np.sqrt(d * ea * 206e3) if d >= 0 else 0.0
                    ctx.case(True, key=(grp, Rm, Sa, Sm))
                    if abs(got - want) > 1e-9 * max(1, want):
                        ctx.fail('C09:P_RAM-value', f'P_RAM {got} != {want}', {'group': grp, 'R_m': Rm, 'S_a': Sa, 'S_m': Sm})
    ctx.sample({'pass1': [(250.0, True)], 'pass2': [(700.0, False), (160.0, True)]})


META = {
    'level': 'other',
    'explanation': "mixed. Proved for all parameters: the P_RAM / P_RAJ component curves (threshold, both slopes, knee continuity, strict monotonicity, mutual inverses), "
                   "the constructor guards, P_RAM of a hysteresis, the per-row damage and the closed-form lifetime as the solution of D1 + x D2 = 1 plus the first pass, "
                   "compute_beta = -Phi^-1(P_A) whenever the root search reports success, the gamma_L formulas. Bounded: convergence of the root search on a grid of "
                   "(0, 0.5], closed form vs literal accumulation on all small hysteresis tables, the constants table vs the guideline values.",
    'not_decided': ["convergence of scipy.optimize.root from x0 = -0.6 for every P_A (grid only)", "pandas group-by / cumsum / searchsorted plumbing of DamageCalculatorPRAM.__init__ (bounded only)"],
    'trusted_base': ['axioms of 10**u / log10 / sqrt / Phi / Phi^-1', 'assumed contract of scipy.optimize.root (success => residual 0)', 'sum calculus (sums as uninterpreted numbers)',
                     'floats = reals', 'element-wise lifting'],
}
