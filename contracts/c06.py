"""C06 - notch approximation laws return the root of their equation, and its inverse."""
import z3
from pv.api import obligation
from pv.bounded import bounded
from pv.sym import SV, RV, ex, lg
from pv import npmodel

NA = 'pylife/materiallaws/notch_approximation_law.py::ExtendedNeuber'
RO = 'pylife/materiallaws/rambgood.py::RambergOsgood'
SB = 'pylife/materiallaws/notch_approximation_law_seegerbeste.py::SeegerBeste'
ENF = [NA + '.' + m for m in ('stress', 'strain', 'load', 'stress_secondary_branch', 'strain_secondary_branch', 'load_secondary_branch', '_e_star', '_d_e_star',
                              '_neuber_strain', '_stress_implicit', '_d_stress_implicit', '_delta_e_star', '_d_delta_e_star', '_neuber_strain_secondary',
                              '_stress_secondary_implicit', '_d_stress_secondary_implicit', '_load_implicit', '_d_load_implicit', '_load_secondary_implicit',
                              '_d_load_secondary_implicit')]


def absz(s):
    return z3.If(s >= 0, s, -s)


def signz(s):
    return z3.If(s > 0, RV(1), z3.If(s < 0, RV(-1), RV(0)))


def eps(E, K, n, s):
    """Ramberg-Osgood strain"""
    return s / E + signz(s) * z3.If(absz(s) / K == 0, RV(0), ex((1 / n) * lg(absz(s) / K)))


def params(o, kp_min_strict=False):
    E, K, n, Kp = o.reals('E K n K_p')
    o.assume(E > 0, K > 0, n > 0, n < 1, Kp > 1 if kp_min_strict else Kp >= 1)
    law = o.new(NA, E, K, n, Kp)
    return law, (E, K, n, Kp)


def call(o, obj, name, *args, **kw):
    return o.I.call(o.method(obj, name), list(args), kw)


KINDS = ('scalar', 'series')


SIGNS = (('++', 1, 1), ('+-', 1, -1), ('-+', -1, 1), ('--', -1, -1))


def sign_cases(o, s, L):
    """iterate over the four sign combinations of (sigma, L) with the hypotheses restored in between"""
    base = list(o.hyps)
    for tag, a, b in SIGNS:
        o.hyps = base + [s > 0 if a > 0 else s < 0, L > 0 if b > 0 else L < 0]
        yield tag
    o.hyps = base


@obligation('C06', 'neuber.equation', functions=ENF)
def neuber_equation(o):
    """_stress_implicit(sigma, L) = eps_RO(sigma) - (L/sigma) K_p eps_RO(L/K_p): zero iff sigma eps_RO(sigma) = L K_p eps_RO(L/K_p) (the Neuber hyperbola with
    the e* correction); secondary branch with the Masing-doubled curve; _load_implicit is the same term with swapped arguments; odd.
    (case split over the signs of sigma and L; sigma != 0, L != 0; L = 0 gives e* = 0 and is covered by the '+'/'-' cases' limit in the bounded check)"""
    law, (E, K, n, Kp) = params(o)
    s, L = o.reals('sigma L')
    for tag in sign_cases(o, s, L):
        for kind in KINDS:
            f = o.run1(lambda: call(o, law, '_stress_implicit', SV(s, kind=kind), SV(L, kind=kind)), label=f'_stress_implicit[{kind},{tag}]')
            o.prove(f'primary equation [{kind},{tag}]', f.t == eps(E, K, n, s) - (L / s) * Kp * eps(E, K, n, L / Kp), pairs=False)
            g = o.run1(lambda: call(o, law, '_load_implicit', SV(L, kind=kind), SV(s, kind=kind)), label=f'_load_implicit[{kind},{tag}]')
            o.prove(f'_load_implicit(L, sigma) == _stress_implicit(sigma, L) [{kind},{tag}]', g.t == f.t, pairs=False)
            fm = o.run1(lambda: call(o, law, '_stress_implicit', SV(-s, kind=kind), SV(-L, kind=kind)), label=f'_stress_implicit(-,-)[{kind},{tag}]')
            o.prove(f'odd: f(-sigma, -L) == -f(sigma, L) [{kind},{tag}]', fm.t == -f.t, pairs=False)
            f2 = o.run1(lambda: call(o, law, '_stress_secondary_implicit', SV(s, kind=kind), SV(L, kind=kind)), label=f'_stress_secondary_implicit[{kind},{tag}]')
            o.prove(f'secondary equation (Masing doubling) [{kind},{tag}]', f2.t == 2 * eps(E, K, n, s / 2) - (L / s) * Kp * (2 * eps(E, K, n, L / Kp / 2)), pairs=False)
            g2 = o.run1(lambda: call(o, law, '_load_secondary_implicit', SV(L, kind=kind), SV(s, kind=kind)), label=f'_load_secondary_implicit[{kind},{tag}]')
            o.prove(f'_load_secondary_implicit == _stress_secondary_implicit with swapped arguments [{kind},{tag}]', g2.t == f2.t, pairs=False)
            st = o.run1(lambda: call(o, law, 'strain', SV(s, kind=kind), SV(L, kind=kind)), label=f'strain[{kind},{tag}]')
            o.prove(f'strain(sigma, L) is the Ramberg-Osgood strain [{kind},{tag}]', st.t == eps(E, K, n, s), pairs=False)
            st2 = o.run1(lambda: call(o, law, 'strain_secondary_branch', SV(s, kind=kind), SV(L, kind=kind)), label=f'strain_secondary_branch[{kind},{tag}]')
            o.prove(f'strain_secondary_branch is the doubled curve [{kind},{tag}]', st2.t == 2 * eps(E, K, n, s / 2), pairs=False)
        if tag == '++':
            o.canary('canary: K_p dropped from the equation', z3.Implies(Kp > 1, f.t == eps(E, K, n, s) - (L / s) * eps(E, K, n, L / Kp)))


def _newton_site(name):
    def gen(o):
        law, (E, K, n, Kp) = params(o)
        L = o.real('L')
        o.I.newton_split_sign = True
        o.safety_exempt = ['divisor != 0', 'power']
        o.note("the derivative identity is proved at every iterate != 0 (case split on its sign); at the single point 0 the where=stress!=0 guards of the code "
               "make func non-differentiable - newton never needs the derivative there for a non-zero load")
        base = list(o.hyps)
        for tag, sgn in (('+', 1), ('-', -1)):
            o.hyps = base + [L > 0 if sgn > 0 else L < 0]
            for kind in KINDS:
                n0 = len(o.I.newton_records)
                o.run1(lambda: call(o, law, name, SV(L, kind=kind)), label=f'{name}[{kind},L{tag}]')
                o.prove(f'{name}[{kind},L{tag}] returns the newton iterate', z3.BoolVal(len(o.I.newton_records) > n0))
        o.hyps = base
        pairs = {'stress': ('_stress_implicit', '_d_stress_implicit'), 'stress_secondary_branch': ('_stress_secondary_implicit', '_d_stress_secondary_implicit'),
                 'load': ('_load_implicit', '_d_load_implicit'), 'load_secondary_branch': ('_load_secondary_implicit', '_d_load_secondary_implicit')}[name]

        def replay(item, model):
            """real-code replay of a derivative obligation: central-difference derivative of the real func vs the real fprime"""
            import numpy as np
            from pylife.materiallaws.notch_approximation_law import ExtendedNeuber
            from contracts.c16 import num_deriv
            for (E_, K_, n_, Kp_) in ((206e3, 1184.0, 0.187, 3.5), (70e3, 400.0, 0.3, 1.5)):
                law_ = ExtendedNeuber(E_, K_, n_, Kp_)
                f, df = getattr(law_, pairs[0]), getattr(law_, pairs[1])
                for x in (150.0, 600.0, -300.0):
                    for other in (400.0, -250.0):
                        num = num_deriv(lambda v: float(f(np.float64(v), np.float64(other))), x, abs(x) * 1e-2)
                        ana = float(df(np.float64(x), np.float64(other)))
                        if abs(num - ana) > 1e-5 * max(abs(num), abs(ana)):
                            return {'reproduced': True, 'inputs': {'E': E_, 'K': K_, 'n': n_, 'K_p': Kp_, 'unknown': x, 'given': other},
                                    'outputs': {f'{pairs[1]}': ana, f'numeric derivative of {pairs[0]}': num}}
            return {'reproduced': False}
        for it in o.items:
            if it.kind == 'deriv':
                it.replay = replay
    gen.__doc__ = (f"Newton call site of ExtendedNeuber.{name}: fprime handed to scipy.optimize.newton is the partial derivative of func with respect to the "
                   "unknown at every non-zero iterate, for both signs of the iterate and of the given load / stress (back end: sympy)")
    return gen


for _nm in ('stress', 'stress_secondary_branch', 'load', 'load_secondary_branch'):
    obligation('C06', f'neuber.newton-call-site.{_nm}', functions=ENF)(_newton_site(_nm))


def g_of(E, K, n, x):
    return x * eps(E, K, n, x)


def T_of(E, K, n, Kp, x):
    return x * Kp * eps(E, K, n, x / Kp)


@obligation('C06', 'neuber.bracket-monotone', functions=ENF)
def neuber_bracket(o):
    """for L > 0: f(L/K_p) <= 0 <= f(L), so (intermediate value theorem) a root lies in [L/K_p, L]; sigma eps(sigma) strictly increasing on sigma > 0 and
    L K_p eps(L/K_p) strictly increasing in L > 0, hence the root is unique in magnitude, strictly increasing in L and the inverse is unique;
    under the assumed newton contract the returned stress has L/K_p <= |stress| <= L and |load(stress(L))| = L"""
    law, (E, K, n, Kp) = params(o)
    L, s1, s2 = o.reals('L s1 s2')
    pre = [E > 0, K > 0, n > 0, n < 1, Kp >= 1]
    o.assume(L > 0)
    kind = 'series'
    fL = o.run1(lambda: call(o, law, '_stress_implicit', SV(L, kind=kind), SV(L, kind=kind)), label='f(L)')
    pL = ex((1 / n) * lg(L / K))
    pK = ex((1 / n) * lg(L / Kp / K))
    o.prove('f(L) == (L/K)^(1/n) - K_p (L/(K_p K))^(1/n)', fL.t == pL - Kp * pK, pairs=False)
    ID = o.prove_pos_identity('K_p (L/(K_p K))^(1/n) == (L/K)^(1/n) K_p^(1 - 1/n)', Kp * pK, pL * ex((1 - 1 / n) * lg(Kp)))
    o.hyps.append(ID)
    o.prove('K_p^(1 - 1/n) <= 1', ex((1 - 1 / n) * lg(Kp)) <= 1)
    B1 = o.prove('f(L) >= 0', fL.t >= 0)
    flo = o.run1(lambda: call(o, law, '_stress_implicit', SV(L / Kp, kind=kind), SV(L, kind=kind)), label='f(L/K_p)')
    o.prove('f(L/K_p) == (1 - K_p^2) eps(L/K_p)', flo.t == (1 - Kp * Kp) * eps(E, K, n, L / Kp), pairs=False)
    B2 = o.prove('f(L/K_p) <= 0', flo.t <= 0)
    # monotonicity lemmas as closed implications (instantiated below)
    mono_g = z3.Implies(z3.And(*pre, s1 > 0, s2 > s1), g_of(E, K, n, s1) < g_of(E, K, n, s2))
    MG = o.prove('lemma: sigma eps_RO(sigma) strictly increasing on sigma > 0', mono_g, only=[], kind='lemma')
    # T(x) = K_p^2 g(x/K_p): monotonicity of T is an instance of the lemma for g
    inst = o.instance(MG, (s1, s1 / Kp), (s2, s2 / Kp))
    I1 = o.prove('T(s1) == K_p^2 g(s1/K_p)', z3.Implies(z3.And(*pre), T_of(E, K, n, Kp, s1) == Kp * Kp * g_of(E, K, n, s1 / Kp)), only=[], kind='lemma', pairs=False)
    I2 = o.prove('T(s2) == K_p^2 g(s2/K_p)', z3.Implies(z3.And(*pre), T_of(E, K, n, Kp, s2) == Kp * Kp * g_of(E, K, n, s2 / Kp)), only=[], kind='lemma', pairs=False)
    ga, da = o.define('g_a', g_of(E, K, n, s1 / Kp))
    gb, db = o.define('g_b', g_of(E, K, n, s2 / Kp))
    Ta, dTa = o.define('T_a', T_of(E, K, n, Kp, s1))
    Tb, dTb = o.define('T_b', T_of(E, K, n, Kp, s2))
    cond = z3.And(*pre, s1 > 0, s2 > s1)
    N1 = o.prove('named: g(s1/K_p) < g(s2/K_p)', z3.Implies(cond, ga < gb), only=[inst, da, db], pairs=False)
    N2 = o.prove('named: T_a == K_p^2 g_a, T_b == K_p^2 g_b', z3.Implies(cond, z3.And(Ta == Kp * Kp * ga, Tb == Kp * Kp * gb)), only=[I1, I2, da, db, dTa, dTb], pairs=False)
    o.prove('L K_p eps_RO(L/K_p) strictly increasing on L > 0', z3.Implies(cond, Ta < Tb), only=[N1, N2], pairs=False)
    o.trusted("intermediate value theorem and 'strictly monotone => injective' (meta-rules, DESIGN 7.4): existence and uniqueness of the root in [L/K_p, L]")
    o.canary('canary: f(L) < 0', fL.t < 0)


@obligation('C06', 'neuber.inverse', functions=ENF)
def neuber_inverse(o):
    """under the assumed newton contract (the returned iterate is a root): the returned stress solves sigma eps(sigma) = L K_p eps(L/K_p) and
    load(stress(L)) solves the same equation for the load (L > 0; negative loads by oddness)"""
    law, (E, K, n, Kp) = params(o)
    L = o.real('L')
    o.assume(L > 0)
    o.I.newton_split_sign = True
    o.safety_exempt = ['divisor != 0', 'power']
    o.skip_kinds = {'deriv'}
    kind = 'series'

    def g2_of(x):
        return x * (2 * eps(E, K, n, x / 2))

    def T2_of(x):
        return x * Kp * (2 * eps(E, K, n, x / Kp / 2))
    # (function, equation the newton root x has to satisfy for the given argument L): forward functions solve for the stress, backward functions for the load;
    # the secondary branch uses the Masing-doubled curve on both sides (added after seed C06-b handed the primary function to the secondary backward solver)
    cases = [('stress', lambda x: g_of(E, K, n, x) == T_of(E, K, n, Kp, L), 'sigma eps(sigma) == L K_p eps(L/K_p)'),
             ('stress_secondary_branch', lambda x: g2_of(x) == T2_of(L), 'dsigma deps(dsigma) == dL K_p de*(dL) (Masing-doubled)'),
             ('load', lambda x: g_of(E, K, n, L) == T_of(E, K, n, Kp, x), 'sigma eps(sigma) == x K_p eps(x/K_p) for the given stress sigma'),
             ('load_secondary_branch', lambda x: g2_of(L) == T2_of(x), 'dsigma deps(dsigma) == x K_p de*(x) (Masing-doubled) for the given stress range')]
    for fname, eqn, text in cases:
        ps = o.paths(lambda: call(o, law, fname, SV(L, kind=kind)))
        rets = [p for p in ps if p.kind == 'return']
        pre = '' if fname == 'stress' else f'{fname}: '
        o.prove(f'{fname} returns on the three sign cases of the iterate' if fname != 'stress' else 'stress returns on the three sign cases of the iterate', z3.BoolVal(len(rets) == 3))
        for i, p in enumerate(rets):
            x = p.result.t
            tag = ['iterate>0', 'iterate<0', 'iterate=0'][i] if len(rets) == 3 else str(i)
            if i < 2:
                label = f'[{tag}] root of func  =>  sigma eps(sigma) == L K_p eps(L/K_p)' if fname == 'stress' else f'{pre}[{tag}] root of func  =>  {text}'
                o.prove(label, eqn(x), under=p.pc, pairs=False)
            else:
                o.prove(f'{pre}[{tag}] the iterate 0 is never a root for L > 0', z3.BoolVal(False), under=p.pc, pairs=False)
    o.note("magnitude bracket L/K_p <= |stress| <= L and |load(stress(L))| = L follow from this equation with the bracket and the two monotonicity lemmas of "
           "neuber.bracket-monotone (g even, strictly increasing on sigma > 0): meta-step, checked numerically by the bounded stand-in")


# ---------------------------------------------------------------------------------------------
def _laws(E, K, n, Kp):
    from pylife.materiallaws.notch_approximation_law import ExtendedNeuber
    from pylife.materiallaws.notch_approximation_law_seegerbeste import SeegerBeste
    out = [('neuber', ExtendedNeuber(E, K, n, Kp))]
    if Kp > 1:
        out.append(('seegerbeste', SeegerBeste(E, K, n, Kp)))
    return out


def _true_root(name, E, K, n, Kp, L, secondary, guess):
    """root of the law's defining equation for the stress (range), computed independently with 40 digit arithmetic (mpmath)"""
    import mpmath as mp
    mp.mp.dps = 40
    E, K, n, Kp, L = (mp.mpf(repr(float(v))) for v in (E, K, n, Kp, L))

    def ro(s):
        return s / E + mp.sign(s) * (abs(s) / K) ** (1 / n)
    ep = (lambda x: 2 * ro(x / 2)) if secondary else ro
    estar = ep(L / Kp)

    def f(sigma):
        if name == 'neuber':
            return sigma * ep(sigma) - L * Kp * estar
        ls = L / sigma
        u = mp.pi / 2 * ((ls - 1) / (Kp - 1))
        middle = ls ** 2 * 2 / u ** 2 * mp.log(1 / mp.cos(u)) + 1 - ls if u != 0 else mp.mpf(1)
        return ep(sigma) - sigma / E * middle * (estar * E / (L / Kp))
    # bracket [L/K_p, L] (proved for Neuber; the Seeger-Beste curve lies between the elastic line and Neuber)
    lo, hi = L / Kp * (1 + mp.mpf('1e-30')), L * (1 - mp.mpf('1e-30'))
    try:
        flo, fhi = f(lo), f(hi)
        if flo * fhi > 0:
            return float(mp.findroot(f, mp.mpf(repr(float(guess)))))
        for _ in range(200):
            mid = (lo + hi) / 2
            fm = f(mid)
            if fm == 0:
                lo = hi = mid
                break
            if flo * fm < 0:
                hi, fhi = mid, fm
            else:
                lo, flo = mid, fm
        return float((lo + hi) / 2)
    except Exception:   # noqa
        return None


@bounded('C06', 'law-grid', shards=16)
def b_grid(ctx):
    """on a parameter grid: returned stress / stress range satisfies the law's defining equation within the solver tolerance, lies between load/K_p and load,
    is odd and increasing in the load; load(stress(L)) = L; scalar, array and Series inputs agree element-wise; solver exceptions are counted"""
    import itertools
    import warnings
    import numpy as np
    import pandas as pd
    warnings.simplefilter('ignore')
    Es = [70e3, 206e3]
    Ks = [400.0, 1184.0, 3000.0]
    ns = [0.1, 0.187, 0.3]
    Kps = [1.0, 1.01, 1.5, 3.5, 10.0]
    loads = [1e-6, 1.0, 100.0, 400.0, 1000.0, 2500.0]
    tols = [1e-4] if ctx.tier == 'quick' else [1e-4, 1e-7, 1e-10]
    ctx.bound = f"E in {Es}, K' in {Ks}, n' in {ns}, K_p in {Kps} (Seeger-Beste: > 1), |L| in {loads} and 0, both signs, tolerances {tols}, primary and secondary branch, scalar/array/Series"
    ctx.rule = "non-trivial: plastic regime (load above K'/10); distinct by (law, parameters, load, tolerance)"
    ctx.exhaustive = True
    for E, K, n, Kp in itertools.product(Es, Ks, ns, Kps):
        if not ctx.mine():
            continue
        for name, law in _laws(E, K, n, Kp):
            for tol in tols:
                prev = {}
                for L in loads:
                    for secondary in (False, True):
                        fn = law.stress_secondary_branch if secondary else law.stress
                        inv = law.load_secondary_branch if secondary else law.load
                        LL = 2 * L if secondary else L
                        # Seeger-Beste's forward functions only accept arrays with >= 2 elements (see the scalar-input finding below)
                        arg = np.array([LL, LL]) if name == 'seegerbeste' else LL
                        try:
                            s = float(np.asarray(fn(arg, rtol=tol, tol=tol)).ravel()[0])
                        except Exception as e:   # noqa
                            ctx.count(f'solver-exception:{name}')
                            continue
                        ctx.case(L > K / 10, key=(name, E, K, n, Kp, L, tol, secondary))
                        # failure keys name the tolerance regime, so that a finding about tolerances tighter than the default cannot hide a failure at the default
                        tt = '' if tol >= 1e-4 else ':tolerance-tighter-than-default'
                        if not np.isfinite(s):
                            ctx.fail(f'C06:non-finite:{name}', f'{name} returned {s} for load {LL} (E={E}, K={K}, n={n}, K_p={Kp})', {'E': E, 'K': K, 'n': n, 'K_p': Kp, 'L': LL, 'secondary': secondary})
                            continue
                        # "satisfies the equation to within the requested tolerance": the iteration stops when its step is <= tol + rtol |x|;
                        # the distance to the independently computed root must be within a small multiple of that
                        root = _true_root(name, E, K, n, Kp, LL, secondary, s)
                        slack = 10 * (tol + tol * abs(s))
                        if root is None:
                            ctx.count(f'oracle-root-not-found:{name}')
                        elif abs(s - root) > slack + 1e-9 * abs(root):
                            regime = 'small-load' if LL <= 0.05 * K else 'plastic'
                            ctx.fail(f'C06:equation:{name}:{regime}{tt}', f'{name}: stress {s} for load {LL}, root of the defining equation is {root} (difference {abs(s - root):.3e}, '
                                     f'tolerance tol=rtol={tol}) E={E} K={K} n={n} K_p={Kp} secondary={secondary}',
                                     f"import numpy as np\nfrom pylife.materiallaws.notch_approximation_law import ExtendedNeuber\nfrom pylife.materiallaws.notch_approximation_law_seegerbeste import SeegerBeste\n"
                                     f"law = {'SeegerBeste' if name == 'seegerbeste' else 'ExtendedNeuber'}({E}, {K}, {n}, {Kp})\n"
                                     f"s = law.{'stress_secondary_branch' if secondary else 'stress'}(np.array([{LL}, {LL}]), rtol={tol}, tol={tol})[0]\nprint(s, 'independent root:', {root})\n"
                                     f"assert abs(s - {root}) <= 10 * ({tol} + {tol} * abs(s)), abs(s - {root})\n")
                        if not (LL / Kp - slack <= s <= LL + slack):
                            ctx.fail(f'C06:bracket:{name}{tt}', f'{name}: stress {s} outside [{LL / Kp}, {LL}] (E={E}, K={K}, n={n}, K_p={Kp}, secondary={secondary})', {'E': E, 'K': K, 'n': n, 'K_p': Kp, 'L': LL})
                        try:
                            sneg = float(np.asarray(fn(-arg, rtol=tol, tol=tol)).ravel()[0])
                        except Exception:   # noqa
                            ctx.count(f'solver-exception:{name}')
                            continue
                        if abs(sneg + s) > slack:
                            ctx.fail(f'C06:odd:{name}{tt}', f'{name}: stress(-L) = {sneg}, stress(L) = {s}', {'E': E, 'K': K, 'n': n, 'K_p': Kp, 'L': LL})
                        key = secondary
                        if key in prev and not (s > prev[key] - slack):
                            ctx.fail(f'C06:monotone:{name}{tt}', f'{name}: stress not increasing: {prev[key]} -> {s} at load {LL}', {'E': E, 'K': K, 'n': n, 'K_p': Kp, 'L': LL})
                        prev[key] = s
                        try:
                            back = float(np.asarray(inv(s, rtol=tol, tol=tol)).ravel()[0])
                            if abs(back - LL) > 200 * (tol + tol * abs(LL)) / n:
                                ctx.fail(f'C06:inverse:{name}{tt}', f'{name}: load(stress({LL})) = {back} (tol=rtol={tol})', {'E': E, 'K': K, 'n': n, 'K_p': Kp, 'L': LL, 'tol': tol, 'secondary': secondary})
                        except Exception:   # noqa
                            ctx.count(f'solver-exception-inverse:{name}')
                # containers (default tolerance)
                arr = np.array([-400.0, 1.0, 400.0, 1000.0])
                try:
                    a = np.asarray(law.stress(arr), dtype=float)
                    sr = np.asarray(law.stress(pd.Series(arr)), dtype=float)
                    try:
                        sc = np.array([float(np.asarray(law.stress(float(x))).ravel()[0]) for x in arr])
                    except TypeError as e:
                        ctx.fail(f'C06:scalar-input:{name}', f'{name}.stress(scalar) raises TypeError: {e}',
                                 f"from pylife.materiallaws.notch_approximation_law_seegerbeste import SeegerBeste\nimport numpy as np\nlaw = SeegerBeste({E}, {K}, {n}, {Kp})\n"
                                 "print(law.stress(np.array([400.0, 400.0])))\nprint(law.stress(400.0))\n")
                        sc = a
                    if not (np.allclose(a, sr, rtol=1e-12, atol=0) and np.allclose(a, sc, rtol=5e-4, atol=1e-3)):
                        ctx.fail(f'C06:containers:{name}', f'{name}: array {a.tolist()} / Series {sr.tolist()} / scalar {sc.tolist()} differ (E={E}, K={K}, n={n}, K_p={Kp})', {'E': E, 'K': K, 'n': n, 'K_p': Kp})
                except Exception:   # noqa
                    ctx.count(f'solver-exception-container:{name}')
    ctx.sample({'E': 206e3, 'K': 1184.0, 'n': 0.187, 'K_p': 3.5, 'L': 400.0})




@bounded('C06', 'parameter-setters', shards=1)
def b_setters(ctx):
    """a law whose K' or K_p was changed through its public setters (K, K_prime, K_p) returns, from then on, what a law constructed with the new values returns -
    the value still satisfies the defining equation of the law's OWN parameters (added after seed C06-e let the K setter store the value without rebuilding the
    Ramberg-Osgood relation)"""
    import warnings
    import numpy as np
    warnings.simplefilter('ignore')
    E, n = 206e3, 0.187
    loads = np.array([150.0, 400.0, 900.0, -150.0, -400.0, -900.0])
    ctx.bound = "both laws, K' 1184 -> 2650.5 via .K and via .K_prime, K_p 3.5 -> 2.0 via .K_p, each after a first evaluation with the old value; 6 loads of both signs; all six forward / backward functions"
    ctx.rule = "every (law, setter, function) is one case"
    for name in ('neuber', 'seegerbeste'):
        for setter, (K0, Kp0), (K1, Kp1) in (('K', (1184.0, 3.5), (2650.5, 3.5)), ('K_prime', (1184.0, 3.5), (2650.5, 3.5)), ('K_p', (1184.0, 3.5), (1184.0, 2.0))):
            law = dict(_laws(E, K0, n, Kp0))[name]
            law.stress(loads)                               # a first use with the old parameters
            setattr(law, setter, K1 if setter != 'K_p' else Kp1)
            fresh = dict(_laws(E, K1, n, Kp1))[name]
            if not (law.K == fresh.K and law.K_p == fresh.K_p):
                ctx.fail(f'C06:setter:{name}:{setter}:attribute', f'{name}: after law.{setter} = ... the law reports K = {law.K}, K_p = {law.K_p}', None)
            for fname, args in (('stress', (loads,)), ('stress_secondary_branch', (2 * loads,))):
                ctx.case(True, key=(name, setter, fname))
                a_, b_ = np.asarray(getattr(law, fname)(*args), dtype=float), np.asarray(getattr(fresh, fname)(*args), dtype=float)
                if not np.allclose(a_, b_, rtol=1e-9, atol=0):
                    ctx.fail(f'C06:setter:{name}:{setter}:{fname}', f'{name}: after law.{setter} = {K1 if setter != "K_p" else Kp1}: {fname} = {a_.tolist()}, a law constructed with the new value gives {b_.tolist()}',
                             f"import numpy as np\nfrom pylife.materiallaws.notch_approximation_law import ExtendedNeuber\nfrom pylife.materiallaws.notch_approximation_law_seegerbeste import SeegerBeste\n"
                             f"cls = {'SeegerBeste' if name == 'seegerbeste' else 'ExtendedNeuber'}\nlaw = cls({E}, {K0}, {n}, {Kp0}); law.{setter} = {K1 if setter != 'K_p' else Kp1}\nfresh = cls({E}, {K1}, {n}, {Kp1})\n"
                             f"L = np.array({args[0].tolist()!r})\nprint(law.{fname}(L)); print(fresh.{fname}(L))\nassert np.allclose(law.{fname}(L), fresh.{fname}(L), rtol=1e-9)\n")
                    continue
                sfn = 'strain' if fname == 'stress' else 'strain_secondary_branch'
                e_a, e_b = np.asarray(getattr(law, sfn)(a_, *args), dtype=float), np.asarray(getattr(fresh, sfn)(b_, *args), dtype=float)
                if not np.allclose(e_a, e_b, rtol=1e-9, atol=0):
                    ctx.fail(f'C06:setter:{name}:{setter}:{sfn}', f'{name}: after law.{setter} = ...: {sfn} differs from a law constructed with the new value', None)
    ctx.sample({'law': 'ExtendedNeuber', 'setter': 'K', 'from': 1184.0, 'to': 2650.5})

@bounded('C06', 'mixed-load-arrays', shards=8)
def b_mixed(ctx):
    """arrays of MANY DIFFERENT loads (the vectorised solver converges for some entries and not for others; the laws then retry entry by entry): every entry of
    stress(array) / stress_secondary_branch(array) is the root of the defining equation for its own load, for K_p close to 1 (narrow bracket) and the guideline value"""
    import warnings
    import numpy as np
    warnings.simplefilter('ignore')
    E, K, n = 206e3, 1184.0, 0.187
    sets = 6 if ctx.tier == 'quick' else 40
    ctx.bound = f"E={E}, K'={K}, n'={n}, K_p in (1.001, 1.01, 3.5), {sets} seeded sets of 40 loads uniform in +-[50, 3000] and one regular grid 50..1500 with 10 mirrored, default tolerance, both branches"
    ctx.rule = "every array entry is one case; non-trivial: plastic regime"
    for Kp in (1.001, 1.01, 3.5):
        for k in range(sets + 1):
            if not ctx.mine():
                continue
            rng = np.random.default_rng(k)        # the sets do not depend on VERIF_SEED: the known finding below is identified by (K_p, set, load)
            if k == 0:
                base = np.linspace(50.0, 1500.0, 30)
                loads = np.concatenate([base, -base[::3]])
            else:
                loads = rng.uniform(50.0, 3000.0, 40) * rng.choice([-1.0, 1.0], 40)
            for name, law in _laws(E, K, n, Kp):
                for secondary in (False, True):
                    fn = law.stress_secondary_branch if secondary else law.stress
                    arg = 2 * loads if secondary else loads
                    try:
                        got = np.asarray(fn(arg), dtype=float)
                    except Exception as e:   # noqa
                        ctx.count(f'solver-exception:{name}')
                        continue
                    # the same loads as a Series whose labels are not 0..n-1 (reversed labels; 1-based labels as Binned uses them): element-wise the array result
                    # (added after seed C06-f indexed the retry of unconverged entries by label)
                    import pandas as pd
                    for iname, idx in (('reversed labels', np.arange(len(arg), 0, -1) - 1), ('1-based labels', np.arange(1, len(arg) + 1))):
                        ctx.case(True, key=(name, Kp, k, secondary, iname))
                        try:
                            gs = np.asarray(fn(pd.Series(arg, index=pd.Index(idx))), dtype=float)
                        except Exception as e:   # noqa
                            ctx.fail(f'C06:mixed-array:series-labels:{name}:raises:{type(e).__name__}', f'{name}: the loads of set {k} (K_p={Kp}) as a Series with {iname} raise {type(e).__name__}: {str(e)[:100]}; as an array they do not',
                                     {'K_p': Kp, 'set': k, 'labels': iname})
                            continue
                        if not np.allclose(gs, got, rtol=1e-9, atol=0, equal_nan=True):
                            j_ = int(np.argmax(~np.isclose(gs, got, rtol=1e-9, atol=0, equal_nan=True)))
                            ctx.fail(f'C06:mixed-array:series-labels:{name}', f'{name}: the loads of set {k} (K_p={Kp}) as a Series with {iname}: entry {j_} (load {arg[j_]}) = {gs[j_]}, as an array {got[j_]}',
                                     {'K_p': Kp, 'set': k, 'labels': iname})
                    for LL, s in zip(arg, got):
                        ctx.case(abs(LL) > K / 10, key=(name, Kp, k, secondary, float(LL)))
                        root = _true_root(name, E, K, n, Kp, abs(float(LL)), secondary, abs(float(s)) if np.isfinite(s) else abs(float(LL)))
                        if root is None:
                            ctx.count('no-independent-root')
                            continue
                        root = np.sign(LL) * root
                        # default tolerance 1e-4 (absolute + relative) of the iteration, factor 10 as in the grid check
                        if not np.isfinite(s) or abs(s - root) > 10 * (1e-4 + 1e-4 * abs(root)):
                            ctx.fail(f'C06:mixed-array:{name}:{"secondary" if secondary else "primary"}:K_p={Kp}:set={k}:load={float(LL):.6g}',
                                     f'{name}.{"stress_secondary_branch" if secondary else "stress"}(array of 40 loads)[load {LL}] = {s}, root of the equation: {root} (K_p={Kp}, load set {k})',
                                     f"import numpy as np\nfrom pylife.materiallaws.notch_approximation_law_seegerbeste import SeegerBeste\nfrom pylife.materiallaws.notch_approximation_law import ExtendedNeuber\n"
                                     f"law = {'SeegerBeste' if name == 'seegerbeste' else 'ExtendedNeuber'}({E}, {K}, {n}, {Kp})\nloads = np.array({[float(v) for v in arg]!r})\n"
                                     f"got = law.{'stress_secondary_branch' if secondary else 'stress'}(loads)\ni = list(loads).index({float(LL)!r})\nprint(got[i], 'independent root:', {float(root)!r})\n"
                                     f"assert abs(got[i] - {float(root)!r}) <= 10 * (1e-4 + 1e-4 * abs({float(root)!r}))\n")
    ctx.sample({'K_p': 1.001, 'loads': '40 uniform in +-[50, 3000]'})


META = {
    'level': 'other',
    'explanation': "mixed. Proved for the extended Neuber law: every implicit function is the law's defining equation (both branches, both directions), the analytic derivatives "
                   "passed to Newton are the derivatives (four call sites), the bracket f(L/K_p) <= 0 <= f(L), strict monotonicity of both sides, oddness, and from the assumed "
                   "newton contract the returned value solves the equation with load(stress(L)) = L. Seeger-Beste (secant iteration with per-element retry, ln/cos terms) and the "
                   "numeric side (tolerances, containers, convergence) are bounded on a parameter grid.",
    'not_decided': ["that Newton/secant converge for every input", "Seeger-Beste equation, bracket and monotonicity (uninterpreted ln/cos; grid only)"],
    'trusted_base': ['assumed contract of scipy.optimize.newton', 'axioms of 10**u / log10 and the log-normalisation rewriter', 'intermediate value theorem / injectivity meta-rules', 'floats = reals'],
}


# ---------------------------------------------------------------------------------------------
# Seeger-Beste: the terms of eq. 2.8-42 / 2.8-43 as the real helper functions compute them (ln / cos uninterpreted)
# ---------------------------------------------------------------------------------------------
SBF = [SB + '.' + m for m in ('_e_star', '_neuber_strain', '_u_term', '_middle_term', '_stress_implicit', '_delta_e_star', '_neuber_strain_secondary', '_u_term_secondary',
                              '_middle_term_secondary', '_stress_secondary_implicit', '_load_implicit', '_load_secondary_implicit', 'strain', 'strain_secondary_branch')]


def sb_params(o):
    E, K, n, Kp = o.reals('E K n K_p')
    o.assume(E > 0, K > 0, n > 0, n < 1, Kp > 1)
    return o.new(SB, E, K, n, Kp), (E, K, n, Kp)


@obligation('C06', 'seegerbeste.terms', functions=SBF)
def seegerbeste_terms(o):
    """the building blocks of the Seeger-Beste equation, for every sigma != 0, L != 0 of either sign (four sign cases), scalar-like and Series elements:
    Neuber term = (L/sigma) K_p e*(L), u = pi/2 (L/sigma - 1)/(K_p - 1), middle term = 2/u^2 ln(1/cos u) + (sigma/L)^2 - sigma/L (for u != 0, cos u > 0),
    f(sigma, L) = eps(sigma) / (middle * Neuber) - 1; the same with the Masing-doubled curve for the secondary branch; the load-direction functions are the same
    terms with swapped arguments; every term has the parity that makes f(-sigma, -L) = f(sigma, L) (so that the returned root is odd in the load)"""
    from pv.sym import ln, cos_
    law, (E, K, n, Kp) = sb_params(o)
    s, L = o.reals('sigma L')
    PI = z3.Real('PI')
    # f divides by middle * Neuber: zero only where eq. 2.8-42 itself is undefined (not part of the statement)
    o.safety_exempt = list(getattr(o, 'safety_exempt', [])) + ['divisor']
    for tag in sign_cases(o, s, L):
        kind = 'series'
        for suffix, strain_of, estar_of in (('', lambda x: eps(E, K, n, x), lambda x: eps(E, K, n, x / Kp)),
                                            ('_secondary', lambda x: 2 * eps(E, K, n, x / 2), lambda x: 2 * eps(E, K, n, x / Kp / 2))):
            br = 'secondary' if suffix else 'primary'
            nst = o.run1(lambda: call(o, law, '_neuber_strain' + suffix, SV(s, kind=kind), SV(L, kind=kind)), label=f'_neuber_strain{suffix}[{tag}]')
            o.prove(f'{br}: Neuber term == (L/sigma) K_p e*(L) [{tag}]', nst.t == (L / s) * Kp * estar_of(L), pairs=False)
            nm = o.run1(lambda: call(o, law, '_neuber_strain' + suffix, SV(-s, kind=kind), SV(-L, kind=kind)), label=f'_neuber_strain{suffix}(-,-)[{tag}]')
            o.prove(f'{br}: Neuber term is odd under (sigma, L) -> (-sigma, -L) [{tag}]', nm.t == -nst.t, pairs=False)
            u = o.run1(lambda: call(o, law, '_u_term' + suffix, SV(s, kind=kind), SV(L, kind=kind)), label=f'_u_term{suffix}[{tag}]')
            uspec = (PI / 2) * ((L / s - 1) / (Kp - 1))
            o.prove(f'{br}: u == pi/2 (L/sigma - 1)/(K_p - 1) [{tag}]', u.t == uspec, pairs=False)
            um = o.run1(lambda: call(o, law, '_u_term' + suffix, SV(-s, kind=kind), SV(-L, kind=kind)), label=f'_u_term{suffix}(-,-)[{tag}]')
            o.prove(f'{br}: u is even under (sigma, L) -> (-sigma, -L) [{tag}]', um.t == u.t, pairs=False)
            base = list(o.hyps)
            uu, _ = o.define(f'u{suffix}_{tag}', uspec)
            o.hyps.append(uu != 0)
            o.hyps.append(cos_(uu) > 0)
            mid = o.run1(lambda: call(o, law, '_middle_term' + suffix, SV(s, kind=kind), SV(L, kind=kind)), label=f'_middle_term{suffix}[{tag}]')
            midspec = (2 / (uu * uu)) * ln(1 / cos_(uu)) + (s / L) * (s / L) - (s / L)
            o.prove(f'{br}: middle term == 2/u^2 ln(1/cos u) + (sigma/L)^2 - sigma/L [{tag}]', mid.t == midspec, pairs=False)
            f = o.run1(lambda: call(o, law, '_stress' + suffix + '_implicit', SV(s, kind=kind), SV(L, kind=kind)), label=f'_stress{suffix}_implicit[{tag}]')
            # composition: the sub-terms of f that are the middle term and the Neuber term are rewritten by the two equalities proved above (z3.substitute,
            # structural); what remains to be shown is the Ramberg-Osgood part and the arrangement eps / (middle * Neuber) - 1
            nspec = (L / s) * Kp * estar_of(L)
            f_sub = z3.substitute(f.t, (mid.t, midspec), (nst.t, nspec))
            o.shape(f'{br}: f contains the middle term and the Neuber term as computed by the helper functions [{tag}]', not f_sub.eq(f.t), 'no sub-term rewritten')
            sign_hyps = [h for h in o.hyps if any(h.eq(c) for c in (s > 0, s < 0, L > 0, L < 0))]
            o.prove(f'{br}: f == eps(sigma) / (middle * Neuber) - 1 [{tag}]', f_sub == strain_of(s) / (midspec * nspec) - 1, pairs=False,
                    only=[E > 0, K > 0, n > 0, n < 1, Kp > 1] + sign_hyps)
            g = o.run1(lambda: call(o, law, '_load' + suffix + '_implicit', SV(L, kind=kind), SV(s, kind=kind)), label=f'_load{suffix}_implicit[{tag}]')
            o.prove(f'{br}: load-direction function == f with swapped arguments [{tag}]', g.t == f.t, pairs=False)
            o.hyps = base
        st = o.run1(lambda: call(o, law, 'strain', SV(s, kind=kind), SV(L, kind=kind)), label=f'strain[{tag}]')
        o.prove(f'strain(sigma, L) is the Ramberg-Osgood strain [{tag}]', st.t == eps(E, K, n, s), pairs=False)
        st2 = o.run1(lambda: call(o, law, 'strain_secondary_branch', SV(s, kind=kind), SV(L, kind=kind)), label=f'strain_secondary_branch[{tag}]')
        o.prove(f'strain_secondary_branch is the doubled curve [{tag}]', st2.t == 2 * eps(E, K, n, s / 2), pairs=False)
    o.note("u = 0 (sigma = L, elastic limit) and cos u <= 0 (L/sigma >= K_p) select the fall-back factors of the code (1 instead of the quotient); they are outside the domain of eq. 2.8-42")
