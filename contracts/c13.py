"""C13 - signal broadcasting aligns operands without altering data or inputs."""
import z3
from pv.api import obligation
from pv.bounded import bounded

BR = 'pylife/core/broadcaster.py::'


def _layouts(ctx):
    """all (object index, parameter index) layouts: 1-2 levels each with names from {a, b, None}, level order, key sets over small alphabets"""
    import itertools
    import pandas as pd
    names_pool = [('a',), ('b',), (None,), ('a', 'b'), ('b', 'a'), ('a', None), ('a', 'c')]
    keysets = {
        1: [[(0,), (1,)], [(1,), (0,), (2,)], [(2,)], [(0,), (2,), (1,)]],
        2: [[(0, 'x'), (0, 'y'), (1, 'x')], [(1, 'y'), (0, 'x')], [(0, 'x'), (1, 'y'), (2, 'x'), (2, 'y')], [(2, 'y'), (1, 'x'), (0, 'x')]],
    }
    for on, pn in itertools.product(names_pool, repeat=2):
        for ok in keysets[len(on)]:
            for pk in keysets[len(pn)]:
                yield on, ok, pn, pk
    # chained levels: the object's last level is the parameter's first one (curves per (material, element) x loads per (element, scenario)); the parameter
    # pairs 1:1 with the object's rows in the same order, in another order, or multiplies them (added after seed C13-a)
    chain_obj = [[(0, 'x'), (1, 'y')], [(0, 'x'), (0, 'y'), (1, 'z')], [(1, 'y'), (0, 'x')]]
    for ok in chain_obj:
        elems = [k[1] for k in ok]
        variants = [[(e, 5) for e in elems], [(e, 5) for e in reversed(elems)], [(e, c) for e in elems for c in (5, 6)], [(e, c) for c in (5, 6) for e in elems]]
        for pk in variants:
            yield ('a', 'b'), ok, ('b', 'c'), pk
            yield ('b', 'c'), pk, ('a', 'b'), ok


def _mk_index(names, keys):
    import pandas as pd
    if len(names) == 1:
        return pd.Index([k[0] for k in keys], name=names[0])
    return pd.MultiIndex.from_tuples(keys, names=list(names))


def _key_value(names, keys):
    """a value that encodes the row's key (so that every returned row can be traced back)"""
    out = []
    for k in keys:
        v = 0.0
        for i, x in enumerate(k):
            v = v * 10 + (x if isinstance(x, int) else {'x': 7, 'y': 8, 'z': 9}[x])
        out.append(v + 1000.0)
    return out


@bounded('C13', 'alignment-contract', shards=16)
def b_align(ctx):
    """contract of Broadcaster(obj).broadcast(parameter): both results have the identical index; every row holds the operand's value for that row's key
    projected on the operand's levels (or NaN where the operand has no such key); operands deep-equal to snapshots taken before the call (values, index,
    names, level order) - for Series / DataFrame objects x scalar / array / Series / DataFrame parameters over all small index layouts in which every
    shared-level key is present in both operands"""
    import itertools
    import warnings
    import numpy as np
    import pandas as pd
    from pylife.core.broadcaster import Broadcaster
    warnings.simplefilter('ignore')
    ctx.bound = "object/parameter index names from {(a),(b),(None),(a,b),(b,a),(a,None),(a,c)}^2, 4 key sets per arity over {0,1,2} x {x,y} (sizes 1-4, shuffled), object in {Series, DataFrame(2 cols)}, parameter in {Series, DataFrame}; chained layouts (a,b) x (b,c) pairing 1:1 in the same / another order or multiplying rows; plus scalar and array parameters"
    ctx.rule = "non-trivial: the two operands do not have the same index; distinct by (object kind, parameter kind, layout)"
    ctx.exhaustive = True

    def project(row_key, row_names, names):
        return tuple(row_key[row_names.index(n)] for n in names)

    for on, ok, pn, pk in _layouts(ctx):
        if not ctx.mine():
            continue
        shared = [n for n in on if n in pn and n is not None]
        # restriction of the statement: every shared-level key present in both operands
        if shared:
            so = {project(k, list(on), shared) for k in ok}
            sp = {project(k, list(pn), shared) for k in pk}
            if so != sp:
                continue
        if None in on and None in pn:
            continue        # two unnamed levels cannot be told apart by name: not a layout of the statement (they are treated as different levels)
        if len(set(on)) < len(on) or len(set(pn)) < len(pn):
            continue
        for okind, pkind in itertools.product(('series', 'frame'), ('series', 'frame')):
            oi, pi = _mk_index(on, ok), _mk_index(pn, pk)
            ov, pv = _key_value(on, ok), [v + 5000 for v in _key_value(pn, pk)]
            obj = pd.Series(ov, index=oi, name='obj') if okind == 'series' else pd.DataFrame({'u': ov, 'w': [v + 0.5 for v in ov]}, index=oi)
            prm = pd.Series(pv, index=pi, name='prm') if pkind == 'series' else pd.DataFrame({'p': pv, 'q': [v + 0.25 for v in pv]}, index=pi)
            snap_o, snap_p = obj.copy(deep=True), prm.copy(deep=True)
            snap_oi, snap_pi = obj.index.copy(deep=True), prm.index.copy(deep=True)
            label = f"{okind} {list(on)} x {pkind} {list(pn)}"
            ctx.case(not oi.equals(pi), key=(okind, pkind, on, tuple(ok), pn, tuple(pk)))
            try:
                rp, ro = Broadcaster(obj).broadcast(prm)
            except Exception as e:   # noqa
                ctx.fail(f'C13:raises:{type(e).__name__}', f'broadcast raises {type(e).__name__}: {e} for {label}, keys {ok} / {pk}', {'obj_names': on, 'obj_keys': ok, 'prm_names': pn, 'prm_keys': pk})
                continue
            # documented special case: a Series object with an unnamed index is a bag of named parameters and becomes the columns of a frame
            # indexed like the parameter (Broadcaster class documentation, third layout)
            if okind == 'series' and list(on) == [None]:
                okc = (isinstance(ro, pd.DataFrame) and ro.index.equals(prm.index) and list(ro.columns) == list(obj.index)
                       and all((ro.iloc[i].values == np.asarray(ov)).all() for i in range(len(ro))) and rp.equals(prm))
                if not okc:
                    ctx.fail('C13:unnamed-series-object', f'unnamed Series object not broadcast to the columns of a frame indexed like the parameter: {label}, keys {ok} / {pk}',
                             {'obj_names': on, 'obj_keys': ok, 'prm_names': pn, 'prm_keys': pk})
                if not (obj.equals(snap_o) and prm.equals(snap_p) and list(prm.index.names) == list(snap_pi.names)):
                    ctx.fail('C13:operand-modified', f'an operand was modified by broadcast: {label}', None)
                continue
            # operands unmodified
            if not (obj.equals(snap_o) and prm.equals(snap_p) and obj.index.equals(snap_oi) and prm.index.equals(snap_pi)
                    and list(obj.index.names) == list(snap_oi.names) and list(prm.index.names) == list(snap_pi.names)):
                ctx.fail('C13:operand-modified', f'an operand was modified by broadcast: {label}, keys {ok} / {pk}', {'obj_names': on, 'obj_keys': ok, 'prm_names': pn, 'prm_keys': pk})
            # identical index
            if not ro.index.equals(rp.index) or list(ro.index.names) != list(rp.index.names):
                order = 'level-order-only' if (set(ro.index.names) == set(rp.index.names) and len(ro) == len(rp)
                                               and ro.index.reorder_levels(list(rp.index.names)).equals(rp.index) if isinstance(ro.index, pd.MultiIndex) and isinstance(rp.index, pd.MultiIndex) else False) else 'different-rows'
                cat = 'same-levels' if set(on) == set(pn) else ('partially-shared' if shared else 'disjoint')

                def codes(names, keys):
                    out = []
                    for j in range(len(names)):
                        seen = []
                        for k_ in keys:
                            if k_[j] not in seen:
                                seen.append(k_[j])
                        out.append(tuple(seen.index(k_[j]) for k_ in keys))
                    return tuple(zip(*out))
                coincide = 'coinciding-positional-codes' if (len(on) == len(pn) and codes(on, ok) == codes(pn, pk)) else 'different-codes'
                ctx.fail(f'C13:index-not-identical:{order}:{cat}:{coincide}', f'result indices differ ({list(ro.index.names)} vs {list(rp.index.names)}) for {label}, keys {ok} / {pk}',
                         {'obj_names': on, 'obj_keys': ok, 'prm_names': pn, 'prm_keys': pk})
                if order != 'level-order-only':
                    continue
                rp = rp.reorder_levels(list(ro.index.names))
            # row values
            rnames = list(ro.index.names)
            okeys = {project(k, list(on), list(on)): i for i, k in enumerate(ok)}
            pkeys = {project(k, list(pn), list(pn)): i for i, k in enumerate(pk)}
            bad = None
            for pos, rk in enumerate(ro.index):
                rk = rk if isinstance(rk, tuple) else (rk,)
                try:
                    ko = tuple(rk[rnames.index(n)] for n in on)
                    kp = tuple(rk[rnames.index(n)] for n in pn)
                except ValueError:
                    bad = f'result index lacks a level of an operand: {rnames}'
                    break
                wo = ov[okeys[ko]] if ko in okeys else np.nan
                wp = pv[pkeys[kp]] if kp in pkeys else np.nan
                go = ro.iloc[pos] if okind == 'series' else ro['u'].iloc[pos]
                gp = rp.iloc[pos] if pkind == 'series' else rp['p'].iloc[pos]
                if not ((go == wo) or (np.isnan(go) and np.isnan(wo))) or not ((gp == wp) or (np.isnan(gp) and np.isnan(wp))):
                    bad = f'row {rk}: object value {go} (expected {wo}), parameter value {gp} (expected {wp})'
                    break
            if bad:
                ctx.fail('C13:row-values', f'{bad} for {label}, keys {ok} / {pk}', {'obj_names': on, 'obj_keys': ok, 'prm_names': pn, 'prm_keys': pk})
            # every key of both operands appears
            def okey_of(rk):
                rk = rk if isinstance(rk, tuple) else (rk,)
                try:
                    return tuple(rk[rnames.index(n)] for n in on)
                except ValueError:
                    return None
            if not bad and okeys and not all(any(okey_of(rk) == k for rk in ro.index) for k in okeys):
                ctx.fail('C13:row-lost', f'an object row is missing in the result for {label}, keys {ok} / {pk}', {'obj_names': on, 'obj_keys': ok, 'prm_names': pn, 'prm_keys': pk})
    # scalar / array parameters
    if ctx.shard == 0:
        import pandas as pd
        for obj in (pd.Series([1.0, 2.0, 3.0], index=pd.Index(['k', 'l', 'm'], name='a')), pd.DataFrame({'u': [1.0, 2.0], 'w': [3.0, 4.0]}, index=pd.Index([5, 3], name='a'))):
            snap = obj.copy(deep=True)
            p, o_ = Broadcaster(obj).broadcast(3.5)
            ctx.case(True, key=('scalar', type(obj).__name__))
            if isinstance(obj, pd.DataFrame):
                if not (o_ is obj or o_.equals(obj)) or not (np.asarray(p) == 3.5).all() or len(p) != len(obj):
                    ctx.fail('C13:scalar', 'scalar parameter not broadcast to the frame rows', None)
            if not obj.equals(snap):
                ctx.fail('C13:operand-modified', 'scalar broadcast modified the object', None)
        df = pd.DataFrame({'u': [1.0, 2.0], 'w': [3.0, 4.0]})
        try:
            Broadcaster(df).broadcast([1.0, 2.0, 3.0])
            ctx.fail('C13:array-mismatch', 'array parameter of wrong length accepted for a DataFrame object', None)
        except ValueError:
            pass
        ctx.case(True, key='array-mismatch')
    ctx.sample({'object': "Series index (a,b) keys [(0,'x'),(0,'y'),(1,'x')]", 'parameter': "Series index (b) keys ['x','y']"})


@bounded('C13', 'calculation-equals-scalar-loop', shards=1)
def b_calc(ctx):
    """a calculation built on broadcast: allowable cycles of per-element curves for per-scenario loads equal the element-by-element scalar results"""
    import numpy as np
    import pandas as pd
    import pylife.materiallaws   # noqa
    rng = np.random.default_rng(ctx.seed)
    n = 6 if ctx.tier == 'quick' else 40
    ctx.bound = f"{n} random sets of 3 curves x 4 loads with shuffled, partially shared and disjoint index levels"
    ctx.rule = "every set is non-trivial"
    for it in range(n):
        el = pd.Index(rng.permutation([11, 7, 3]), name='element')
        wc = pd.DataFrame({'k_1': rng.uniform(2, 9, 3), 'SD': rng.uniform(100, 400, 3), 'ND': 10 ** rng.uniform(5, 7, 3)}, index=el)
        sc = pd.Index(rng.permutation(['s1', 's2', 's3', 's4']), name='scenario')
        loads = pd.Series(rng.uniform(50, 900, 4), index=sc)
        res = wc.woehler.cycles(loads)
        ctx.case(True, key=it)
        for (e, s_), v in res.items():
            want = float(wc.loc[e].woehler.cycles(float(loads[s_])))
            if not (v == want or abs(v - want) <= 1e-9 * abs(want)):
                ctx.fail('C13:calculation', f'cycles[{e},{s_}] = {v}, scalar evaluation {want}', None)
        both = pd.MultiIndex.from_product([el, sc])
        l2 = pd.Series(rng.uniform(50, 900, 12), index=both)
        res2 = wc.woehler.cycles(l2)
        for (e, s_), v in res2.items():
            want = float(wc.loc[e].woehler.cycles(float(l2[(e, s_)])))
            if not (v == want or abs(v - want) <= 1e-9 * abs(want)):
                ctx.fail('C13:calculation', f'shared level: cycles[{e},{s_}] = {v}, scalar evaluation {want}', None)
    ctx.sample({'curves': 3, 'loads': 4})


META = {
    'level': 'exploration',
    'explanation': "bounded stand-in (labelled): the alignment contract of Broadcaster.broadcast is evaluated on the real code over every enumerated combination of object kind, "
                   "parameter kind and small index layout (names, level order, key sets, unnamed levels), plus the operands-unmodified frame condition by deep comparison with "
                   "snapshots; pandas alignment internals are outside the reach of contracts.",
    'not_decided': ["layouts beyond the enumerated sizes", "exceptional exits between index re-coding and restore leave the temporary integer index on the operands (outside the statement)"],
    'trusted_base': ['pandas'],
    'rule': "layouts enumerated completely up to the stated bound; non-trivial = operands with different indices",
}
