"""C13 - signal broadcasting aligns operands without altering data or inputs."""
import z3
from pv.api import obligation
from pv.bounded import bounded

BR = 'pylife/core/broadcaster.py::'


def _layouts(ctx):
    """all (object index, parameter index) layouts: 1-2 levels each with names from {a, b, None}, level order, key sets over small alphabets"""
    import itertools
    import pandas as pd
    # ('' is a legitimate level name that is falsy: added after seed C13-b replaced `name if name is not None else ...` by `name or ...`.  Integer level names
    # are not part of the domain: pandas itself reads an integer handed to Index.get_level_values as a level position, e.g. a level named 5 raises IndexError)
    names_pool = [('a',), ('b',), (None,), ('a', 'b'), ('b', 'a'), ('a', None), ('a', 'c'), ('',), ('a', '')]
    keysets = {
        1: [[(0,), (1,)], [(1,), (0,), (2,)], [(2,)], [(0,), (2,), (1,)], [(0,), (1,), (2,)]],
        2: [[(0, 'x'), (0, 'y'), (1, 'x')], [(1, 'y'), (0, 'x')], [(0, 'x'), (1, 'y'), (2, 'x'), (2, 'y')], [(2, 'y'), (1, 'x'), (0, 'x')]],
    }
    for on, pn in itertools.product(names_pool, repeat=2):
        for ok in keysets[len(on)]:
            for pk in keysets[len(pn)]:
                yield on, ok, pn, pk
    # three levels: a one-level object against a three-level parameter whose shared level comes last / first, and the same level names in another order
    # (added after seed C13-e stopped reordering the parameter's levels)
    k3 = [(1, 'x', 0), (1, 'y', 0), (2, 'x', 1), (2, 'y', 0)]
    for on3, ok3, pn3, pk3 in ((('a',), [(0,), (1,)], ('c', 'b', 'a'), k3), (('a',), [(1,), (0,)], ('a', 'b', 'c'), [(k_[2], k_[1], k_[0]) for k_ in k3]),
                               (('a', 'b', 'c'), [(k_[2], k_[1], k_[0]) for k_ in k3], ('c', 'b', 'a'), k3), (('c', 'b', 'a'), k3, ('a',), [(0,), (1,)])):
        yield on3, ok3, pn3, pk3
    # the same two levels in the other order with MATCHING keys (the key sets above are typed (int, str) per position, so (a, b) x (b, a) never had matching keys):
    # keys listed so that the positional codes of the two indices coincide, listed in another order, and with keys one operand lacks.  Exposed a defect of the
    # unchanged tree (pandas' align compares index values only: coinciding codes came back unaligned, other orders with the parameter's level order kept), repaired
    # in /repo, see known_findings.json
    sq = [(0, 'x'), (0, 'y'), (1, 'x'), (1, 'y')]
    for pk2 in ([('x', 0), ('x', 1), ('y', 0), ('y', 1)], [('y', 1), ('x', 0), ('x', 1), ('y', 0)], [('y', 1), ('x', 0)], [('x', 0), ('y', 0), ('x', 1), ('y', 1)]):
        yield ('a', 'b'), sq, ('b', 'a'), pk2
        yield ('b', 'a'), pk2, ('a', 'b'), sq
    # chained levels: the object's last level is the parameter's first one (curves per (material, element) x loads per (element, scenario)); the parameter
    # pairs 1:1 with the object's rows in the same order, in another order, or multiplies them (added after seed C13-a)
    chain_obj = [[(0, 'x'), (1, 'y')], [(0, 'x'), (0, 'y'), (1, 'z')], [(1, 'y'), (0, 'x')]]
    for ok in chain_obj:
        elems = [k[1] for k in ok]
        variants = [[(e, 5) for e in elems], [(e, 5) for e in reversed(elems)], [(e, c) for e in elems for c in (5, 6)], [(e, c) for c in (5, 6) for e in elems]]
        for pk in variants:
            yield ('a', 'b'), ok, ('b', 'c'), pk
            yield ('b', 'c'), pk, ('a', 'b'), ok


def _reps(names, keys):
    """representations of the same index: keys 0..n-1 in order can also be a RangeIndex (a default index that was given a name) - added after seed C13-c"""
    if len(names) == 1 and [k[0] for k in keys] == list(range(len(keys))):
        return ('plain', 'range')
    return ('plain',)


def _mk_index(names, keys, rep='plain'):
    import pandas as pd
    if len(names) == 1:
        if rep == 'range':
            return pd.RangeIndex(len(keys), name=names[0])
        return pd.Index([k[0] for k in keys], name=names[0])
    return pd.MultiIndex.from_tuples(keys, names=list(names))


def _key_value(names, keys):
    """a value that encodes the row's key (so that every returned row can be traced back)"""
    out = []
    for k in keys:
        v = 0.0
        for i, x in enumerate(k):
            v = v * 10 + (x if isinstance(x, int) else {'x': 7, 'y': 8, 'z': 9}[x])
        out.append(v + 1000.0)
    return out


@bounded('C13', 'alignment-contract', shards=16)
def b_align(ctx):
    """contract of Broadcaster(obj).broadcast(parameter): both results have the identical index; every row holds the operand's value for that row's key
    projected on the operand's levels (or NaN where the operand has no such key); operands deep-equal to snapshots taken before the call (values, index,
    names, level order) - for Series / DataFrame objects x scalar / array / Series / DataFrame parameters over all small index layouts in which every
    shared-level key is present in both operands"""
    import itertools
    import warnings
    import numpy as np
    import pandas as pd
    from pylife.core.broadcaster import Broadcaster
    warnings.simplefilter('ignore')
    ctx.bound = "object/parameter index names from {(a),(b),(None),(a,b),(b,a),(a,None),(a,c),(''),(a,'')}^2 (integer level names excluded: pandas reads them as level positions), 4-5 key sets per arity over {0,1,2} x {x,y} (sizes 1-4, shuffled; keys 0..n-1 in order also as a RangeIndex), object in {Series, DataFrame(2 cols)}, parameter in {Series, DataFrame}; chained layouts (a,b) x (b,c) pairing 1:1 in the same / another order or multiplying rows; plus scalar and array parameters"
    ctx.rule = "non-trivial: the two operands do not have the same index; distinct by (object kind, parameter kind, layout)"
    ctx.exhaustive = True

    def project(row_key, row_names, names):
        return tuple(row_key[row_names.index(n)] for n in names)

    for on, ok, pn, pk in _layouts(ctx):
        if not ctx.mine():
            continue
        shared = [n for n in on if n in pn and n is not None]
        # restriction of the statement: every shared-level key present in both operands
        if shared:
            so = {project(k, list(on), shared) for k in ok}
            sp = {project(k, list(pn), shared) for k in pk}
            # (with EQUAL level sets keys that one operand lacks are in the domain - "NaN where the original had no such key", and the class documentation shows the
            # union of the keys (foo, bar x tau, bar -> foo, bar, tau); narrowed after seed C13-g, which this harness had skipped over.  With one level set contained
            # in the other the unchanged tree keeps only the keys of the operand with more levels; whether the other operand's extra keys must appear is not said by
            # the statement, so those layouts stay restricted to matching keys - a first version demanded the union there too and alarmed on the unchanged tree)
            if so != sp and set(on) != set(pn):
                continue
        if None in on and None in pn:
            continue        # two unnamed levels cannot be told apart by name: not a layout of the statement (they are treated as different levels)
        if len(set(on)) < len(on) or len(set(pn)) < len(pn):
            continue
        for okind, pkind, orep, prep in itertools.product(('series', 'frame'), ('series', 'frame'), _reps(on, ok), _reps(pn, pk)):
            oi, pi = _mk_index(on, ok, orep), _mk_index(pn, pk, prep)
            ov, pv = _key_value(on, ok), [v + 5000 for v in _key_value(pn, pk)]
            obj = pd.Series(ov, index=oi, name='obj') if okind == 'series' else pd.DataFrame({'u': ov, 'w': [v + 0.5 for v in ov]}, index=oi)
            prm = pd.Series(pv, index=pi, name='prm') if pkind == 'series' else pd.DataFrame({'p': pv, 'q': [v + 0.25 for v in pv]}, index=pi)
            snap_o, snap_p = obj.copy(deep=True), prm.copy(deep=True)
            snap_oi, snap_pi = obj.index.copy(deep=True), prm.index.copy(deep=True)
            label = f"{okind} {list(on)}{'(RangeIndex)' if orep == 'range' else ''} x {pkind} {list(pn)}{'(RangeIndex)' if prep == 'range' else ''}"
            ctx.case(not oi.equals(pi), key=(okind, pkind, on, tuple(ok), pn, tuple(pk), orep, prep))
            try:
                rp, ro = Broadcaster(obj).broadcast(prm)
            except Exception as e:   # noqa
                ctx.fail(f'C13:raises:{type(e).__name__}', f'broadcast raises {type(e).__name__}: {e} for {label}, keys {ok} / {pk}', {'obj_names': on, 'obj_keys': ok, 'prm_names': pn, 'prm_keys': pk, 'reps': [orep, prep]})
                continue
            # documented special case: a Series object with an unnamed index is a bag of named parameters and becomes the columns of a frame
            # indexed like the parameter (Broadcaster class documentation, third layout)
            if okind == 'series' and list(on) == [None]:
                okc = (isinstance(ro, pd.DataFrame) and ro.index.equals(prm.index) and list(ro.columns) == list(obj.index)
                       and all((ro.iloc[i].values == np.asarray(ov)).all() for i in range(len(ro))) and rp.equals(prm))
                if not okc:
                    ctx.fail('C13:unnamed-series-object', f'unnamed Series object not broadcast to the columns of a frame indexed like the parameter: {label}, keys {ok} / {pk}',
                             {'obj_names': on, 'obj_keys': ok, 'prm_names': pn, 'prm_keys': pk, 'reps': [orep, prep]})
                if not (obj.equals(snap_o) and prm.equals(snap_p) and list(prm.index.names) == list(snap_pi.names)):
                    ctx.fail('C13:operand-modified', f'an operand was modified by broadcast: {label}', None)
                continue
            # operands unmodified
            if not (obj.equals(snap_o) and prm.equals(snap_p) and obj.index.equals(snap_oi) and prm.index.equals(snap_pi)
                    and list(obj.index.names) == list(snap_oi.names) and list(prm.index.names) == list(snap_pi.names)):
                ctx.fail('C13:operand-modified', f'an operand was modified by broadcast: {label}, keys {ok} / {pk}', {'obj_names': on, 'obj_keys': ok, 'prm_names': pn, 'prm_keys': pk, 'reps': [orep, prep]})
            # identical index
            if not ro.index.equals(rp.index) or list(ro.index.names) != list(rp.index.names):
                order = 'level-order-only' if (set(ro.index.names) == set(rp.index.names) and len(ro) == len(rp)
                                               and ro.index.reorder_levels(list(rp.index.names)).equals(rp.index) if isinstance(ro.index, pd.MultiIndex) and isinstance(rp.index, pd.MultiIndex) else False) else 'different-rows'
                cat = 'same-levels' if set(on) == set(pn) else ('partially-shared' if shared else 'disjoint')

                def codes(names, keys):
                    out = []
                    for j in range(len(names)):
                        seen = []
                        for k_ in keys:
                            if k_[j] not in seen:
                                seen.append(k_[j])
                        out.append(tuple(seen.index(k_[j]) for k_ in keys))
                    return tuple(zip(*out))
                coincide = 'coinciding-positional-codes' if (len(on) == len(pn) and codes(on, ok) == codes(pn, pk)) else 'different-codes'
                ctx.fail(f'C13:index-not-identical:{order}:{cat}:{coincide}', f'result indices differ ({list(ro.index.names)} vs {list(rp.index.names)}) for {label}, keys {ok} / {pk}',
                         {'obj_names': on, 'obj_keys': ok, 'prm_names': pn, 'prm_keys': pk, 'reps': [orep, prep]})
                if order != 'level-order-only':
                    continue
                rp = rp.reorder_levels(list(ro.index.names))
            # row values
            rnames = list(ro.index.names)
            okeys = {project(k, list(on), list(on)): i for i, k in enumerate(ok)}
            pkeys = {project(k, list(pn), list(pn)): i for i, k in enumerate(pk)}
            bad = None
            for pos, rk in enumerate(ro.index):
                rk = rk if isinstance(rk, tuple) else (rk,)
                try:
                    ko = tuple(rk[rnames.index(n)] for n in on)
                    kp = tuple(rk[rnames.index(n)] for n in pn)
                except ValueError:
                    bad = f'result index lacks a level of an operand: {rnames}'
                    break
                wo = ov[okeys[ko]] if ko in okeys else np.nan
                wp = pv[pkeys[kp]] if kp in pkeys else np.nan
                go = ro.iloc[pos] if okind == 'series' else ro['u'].iloc[pos]
                gp = rp.iloc[pos] if pkind == 'series' else rp['p'].iloc[pos]
                if not ((go == wo) or (np.isnan(go) and np.isnan(wo))) or not ((gp == wp) or (np.isnan(gp) and np.isnan(wp))):
                    bad = f'row {rk}: object value {go} (expected {wo}), parameter value {gp} (expected {wp})'
                    break
            if bad:
                ctx.fail('C13:row-values', f'{bad} for {label}, keys {ok} / {pk}', {'obj_names': on, 'obj_keys': ok, 'prm_names': pn, 'prm_keys': pk, 'reps': [orep, prep]})
            # every key of both operands appears
            def okey_of(rk):
                rk = rk if isinstance(rk, tuple) else (rk,)
                try:
                    return tuple(rk[rnames.index(n)] for n in on)
                except ValueError:
                    return None
            if not bad and okeys and not all(any(okey_of(rk) == k for rk in ro.index) for k in okeys):
                ctx.fail('C13:row-lost', f'an object row is missing in the result for {label}, keys {ok} / {pk}', {'obj_names': on, 'obj_keys': ok, 'prm_names': pn, 'prm_keys': pk, 'reps': [orep, prep]})
            # ... and every key of the parameter ("NaN where the original had no such key" holds in both directions: a parameter row whose key the object lacks
            # appears with a NaN object row) - added after seed C13-g aligned a DataFrame object with a Series parameter by a left join
            def pkey_of(rk):
                rk = rk if isinstance(rk, tuple) else (rk,)
                try:
                    return tuple(rk[rnames.index(n)] for n in pn)
                except ValueError:
                    return None
            if not bad and pkeys and not all(any(pkey_of(rk) == k for rk in ro.index) for k in pkeys):
                ctx.fail(f'C13:parameter-row-lost:{okind}-object:{pkind}-parameter', f'a parameter row is missing in the result for {label}, keys {ok} / {pk}', {'obj_names': on, 'obj_keys': ok, 'prm_names': pn, 'prm_keys': pk, 'reps': [orep, prep]})
            # optional argument droplevel: the object's own levels listed there are dropped from the PARAMETER result (one row per remaining key, the parameter's value
            # for that key); the object result is as without droplevel.  Parameter values that repeat under different keys (added after seed C13-d replaced the
            # group-by-key by drop_duplicates on the values)
            own = [n_ for n_ in on if n_ not in pn and n_ is not None]
            if own and not bad and okind == 'series' and list(on) != [None] and ro.index.equals(rp.index):
                D = [own[-1]]
                pv2 = [7.0 + (i % 2) for i in range(len(pk))]
                prm2 = pd.Series(pv2, index=_mk_index(pn, pk, prep), name='prm') if pkind == 'series' else pd.DataFrame({'p': pv2, 'q': [v + 0.25 for v in pv2]}, index=_mk_index(pn, pk, prep))
                obj2 = pd.Series(ov, index=_mk_index(on, ok, orep), name='obj')
                ctx.case(True, key=(okind, pkind, on, tuple(ok), pn, tuple(pk), orep, prep, 'droplevel'))
                try:
                    rp2, ro2 = Broadcaster(obj2).broadcast(prm2, droplevel=D)
                except Exception as e:   # noqa
                    ctx.fail(f'C13:droplevel:raises:{type(e).__name__}', f'broadcast(droplevel={D}) raises {type(e).__name__}: {e} for {label}, keys {ok} / {pk}', {'obj_names': on, 'obj_keys': ok, 'prm_names': pn, 'prm_keys': pk})
                    continue
                keep = [n_ for n_ in ro.index.names if n_ not in D]
                rn2 = list(rp2.index.names)
                if sorted(map(str, rn2)) != sorted(map(str, keep)):
                    ctx.fail('C13:droplevel:levels', f'parameter result of broadcast(droplevel={D}) has levels {rn2}, expected {keep} for {label}', {'obj_names': on, 'prm_names': pn})
                    continue
                want_keys = {tuple(rk[list(ro.index.names).index(n_)] for n_ in rn2) for rk in (k_ if isinstance(k_, tuple) else (k_,) for k_ in ro.index)}
                got_keys = {k_ if isinstance(k_, tuple) else (k_,) for k_ in rp2.index}
                pkeys2 = {project(k, list(pn), list(pn)): i for i, k in enumerate(pk)}
                bad2 = None
                if got_keys != want_keys or len(rp2) != len(got_keys):
                    bad2 = f'keys {sorted(got_keys, key=str)} (rows: {len(rp2)}), expected one row for each of {sorted(want_keys, key=str)}'
                else:
                    for pos, rk in enumerate(rp2.index):
                        rk = rk if isinstance(rk, tuple) else (rk,)
                        kp = tuple(rk[rn2.index(n_)] for n_ in pn)
                        wp = pv2[pkeys2[kp]] if kp in pkeys2 else np.nan
                        gp = rp2.iloc[pos] if pkind == 'series' else rp2['p'].iloc[pos]
                        if not ((gp == wp) or (np.isnan(gp) and np.isnan(wp))):
                            bad2 = f'row {rk}: parameter value {gp}, expected {wp}'
                            break
                if bad2:
                    ctx.fail('C13:droplevel:rows', f'broadcast(droplevel={D}) for {label}, keys {ok} / {pk}: {bad2}', {'obj_names': on, 'obj_keys': ok, 'prm_names': pn, 'prm_keys': pk, 'droplevel': D})
    # scalar / array parameters
    if ctx.shard == 0:
        import pandas as pd
        for obj in (pd.Series([1.0, 2.0, 3.0], index=pd.Index(['k', 'l', 'm'], name='a')), pd.DataFrame({'u': [1.0, 2.0], 'w': [3.0, 4.0]}, index=pd.Index([5, 3], name='a'))):
            snap = obj.copy(deep=True)
            p, o_ = Broadcaster(obj).broadcast(3.5)
            ctx.case(True, key=('scalar', type(obj).__name__))
            if isinstance(obj, pd.DataFrame):
                if not (o_ is obj or o_.equals(obj)) or not (np.asarray(p) == 3.5).all() or len(p) != len(obj):
                    ctx.fail('C13:scalar', 'scalar parameter not broadcast to the frame rows', None)
            if not obj.equals(snap):
                ctx.fail('C13:operand-modified', 'scalar broadcast modified the object', None)
        # array / list parameters against a Series signal (a named parameter set): one row per element, also for ONE element (added after seed C13-f took every
        # one-element array for a scalar)
        sig = pd.Series({'k_1': 5.0, 'SD': 300.0, 'ND': 1e6})
        for prm_ in ([400.0, 500.0], np.array([400.0, 500.0]), [400.0], np.array([400.0]), np.array([[400.0]]).ravel()):
            n_ = len(prm_)
            snap = sig.copy()
            rp_, ro_ = Broadcaster(sig).broadcast(prm_)
            ctx.case(True, key=('array-vs-series', type(prm_).__name__, n_))
            ok_ = (isinstance(rp_, pd.Series) and isinstance(ro_, pd.DataFrame) and len(rp_) == n_ and len(ro_) == n_ and rp_.index.equals(ro_.index)
                   and list(np.asarray(rp_, dtype=float)) == [float(v) for v in prm_] and all((ro_.iloc[i].to_numpy(dtype=float) == snap.to_numpy()).all() for i in range(n_)) and list(ro_.columns) == list(snap.index))
            if not ok_ or not sig.equals(snap):
                ctx.fail('C13:array-vs-series', f'Series signal broadcast against the {type(prm_).__name__} {list(map(float, prm_))}: parameter {type(rp_).__name__} {np.asarray(rp_).tolist()}, object {type(ro_).__name__} of {len(ro_)} row(s)',
                         {'parameter': [float(v) for v in prm_]})
        df = pd.DataFrame({'u': [1.0, 2.0], 'w': [3.0, 4.0]})
        try:
            Broadcaster(df).broadcast([1.0, 2.0, 3.0])
            ctx.fail('C13:array-mismatch', 'array parameter of wrong length accepted for a DataFrame object', None)
        except ValueError:
            pass
        ctx.case(True, key='array-mismatch')
    ctx.sample({'object': "Series index (a,b) keys [(0,'x'),(0,'y'),(1,'x')]", 'parameter': "Series index (b) keys ['x','y']"})


@bounded('C13', 'calculation-equals-scalar-loop', shards=1)
def b_calc(ctx):
    """a calculation built on broadcast: allowable cycles of per-element curves for per-scenario loads equal the element-by-element scalar results"""
    import numpy as np
    import pandas as pd
    import pylife.materiallaws   # noqa
    rng = np.random.default_rng(ctx.seed)
    n = 6 if ctx.tier == 'quick' else 40
    ctx.bound = f"{n} random sets of 3 curves x 4 loads with shuffled, partially shared and disjoint index levels"
    ctx.rule = "every set is non-trivial"
    for it in range(n):
        el = pd.Index(rng.permutation([11, 7, 3]), name='element')
        wc = pd.DataFrame({'k_1': rng.uniform(2, 9, 3), 'SD': rng.uniform(100, 400, 3), 'ND': 10 ** rng.uniform(5, 7, 3)}, index=el)
        sc = pd.Index(rng.permutation(['s1', 's2', 's3', 's4']), name='scenario')
        loads = pd.Series(rng.uniform(50, 900, 4), index=sc)
        res = wc.woehler.cycles(loads)
        ctx.case(True, key=it)
        for (e, s_), v in res.items():
            want = float(wc.loc[e].woehler.cycles(float(loads[s_])))
            if not (v == want or abs(v - want) <= 1e-9 * abs(want)):
                ctx.fail('C13:calculation', f'cycles[{e},{s_}] = {v}, scalar evaluation {want}', None)
        both = pd.MultiIndex.from_product([el, sc])
        l2 = pd.Series(rng.uniform(50, 900, 12), index=both)
        res2 = wc.woehler.cycles(l2)
        for (e, s_), v in res2.items():
            want = float(wc.loc[e].woehler.cycles(float(l2[(e, s_)])))
            if not (v == want or abs(v - want) <= 1e-9 * abs(want)):
                ctx.fail('C13:calculation', f'shared level: cycles[{e},{s_}] = {v}, scalar evaluation {want}', None)
    ctx.sample({'curves': 3, 'loads': 4})



# ---------------------------------------------------------------------------------------------
# P: frame condition of _broadcast_frame_to_frame (operands get their own index objects and level names back)
# ---------------------------------------------------------------------------------------------
BC = BR + 'Broadcaster'


class GIndex:
    """an index object of an operand: only its level names are concrete, every pandas operation on it yields an arbitrary object"""
    def __init__(self, world, names, tag):
        self.world, self.tag = world, tag
        self.names = list(names)
        self.writes = 0

    def pv_getattr(self, attr):
        from pv.interp import PList
        from pv.ghost import Havoc
        if attr == 'names':
            return PList(list(self.names))
        if attr == 'name':
            return self.names[0]
        if attr == 'nlevels':
            return len(self.names)
        self.world.may_fail(f'{self.tag}.{attr}')
        return Havoc(self.world, f'{self.tag}.{attr}')

    def pv_len(self):
        from pv.sym import SV
        if not hasattr(self, '_len'):
            n = self.world.I.fresh('len', 'int')
            self.world.I.assume(n >= 0)
            self._len = SV(n)
        return self._len

    def pv_isinstance(self, cls):
        # which pandas index class it is, is not part of the ghost state: either answer is possible (a fixed answer per index and class)
        from pv.sym import SV
        key = getattr(cls, 'label', repr(cls))
        memo = self.__dict__.setdefault('_isinst', {})
        if key not in memo:
            memo[key] = SV(self.world.I.fresh('isinstance', 'bool'))
        return memo[key]

    def pv_setattr(self, attr, value):
        from pv.interp import PList, Unsupported
        if attr != 'names':
            raise Unsupported(f'assignment to index.{attr}')
        self.world.may_fail(f'{self.tag}.names = ...')
        items = value.items if isinstance(value, PList) else list(value)
        if not all(isinstance(x, (str, int)) or x is None for x in items):
            raise Unsupported('index names are not concrete')
        self.names = list(items)
        self.writes += 1


class GOperand:
    """a Series / DataFrame operand: its `index` slot is tracked, everything else is arbitrary"""
    def __init__(self, world, kind, index, tag):
        self.world, self.kind, self.tag = world, kind, tag
        self.index = index
        self.index_writes = []

    def pv_getattr(self, attr):
        from pv.ghost import Havoc
        if attr == 'index':
            return self.index
        self.world.may_fail(f'{self.tag}.{attr}')
        return Havoc(self.world, f'{self.tag}.{attr}')

    def pv_setattr(self, attr, value):
        from pv.interp import Unsupported
        if attr != 'index':
            raise Unsupported(f'assignment to operand.{attr}')
        self.world.may_fail(f'{self.tag}.index = ...')
        self.index = value
        self.index_writes.append(value)

    def pv_isinstance(self, cls):
        label = getattr(cls, 'label', '')
        if label.endswith('.Series'):
            return self.kind == 'series'
        if label.endswith('.DataFrame'):
            return self.kind == 'frame'
        from pv.interp import Unsupported
        raise Unsupported(f'isinstance of an operand against {cls!r}')

    def pv_truth(self):
        return True


class UuidNS:
    """uuid.uuid4().hex: a fresh string different from every level name"""
    def __init__(self):
        self.k = 0

    def get(self, attr):
        if attr != 'uuid4':
            raise KeyError(attr)

        def uuid4():
            self.k += 1
            tok = f'<uuid-{self.k}>'

            class U:
                def pv_getattr(self_, a):
                    return tok
            return U()
        return uuid4

    def pv_getattr(self, attr):
        return self.get(attr)


@obligation('C13', 'broadcast.frame', functions=[BC + '._broadcast_frame_to_frame', BR + '_IndexLevelCache.__init__', BR + '_IndexLevelCache.restore_original_indeces',
                                                  BR + '_IndexLevelCache.restore_real_index', BR + '_IndexLevelCache._make_new_index',
                                                  BR + '_replace_none_index_names_with_unique_string', BR + '_replace_unique_string_with_none_name', BR + '_broadcast_to'])
def broadcast_frame(o):
    """frame condition of Broadcaster._broadcast_frame_to_frame, for every listed layout of level names and operand kinds and for ARBITRARY data (every pandas operation
    returns an arbitrary object or raises): on every returning path both operands hold their own original index object again, that index object carries its original level
    names (unnamed levels are None again, no temporary uuid name survives), and the only attribute of the operands ever assigned is `index`.  Raising paths are counted,
    not constrained (an exception between re-coding and restore leaves the temporary index on the operands: outside the statement, see not_decided)."""
    from pv.ghost import World, HavocNS, Havoc
    from pv.interp import PyRaise, Obj, PList
    layouts = [(('a',), ('a',)), (('a',), ('b',)), ((None,), ('a',)), (('a', 'b'), ('a',)), (('a', 'b'), ('b', 'c')), (('a', None), ('a', 'c')), (('a', 'b'), ('c', None)),
               (('a', 'b', 'c'), ('b', 'd')), (('',), ('',)), (('',), ('scenario',)), (('a', ''), ('a', 'c'))]      # the last three: the falsy level name '' (seed C13-b)
    rows = []
    for on, pn in layouts:
        for okind, pkind in (('series', 'series'), ('frame', 'series'), ('frame', 'frame')):
            for drop in ([], [pn[-1]] if pn[-1] is not None and pn[-1] not in on else []):
                if drop == [] and rows and rows[-1][:4] == (on, pn, okind, pkind):
                    continue
                rows.append((on, pn, okind, pkind, tuple(drop)))
    total_ret = total_raise = 0
    bad = []
    for on, pn, okind, pkind, drop in rows:
        def thunk():
            world = World(o.I, can_fail=False)     # the frame condition constrains returning paths only: executions in which a pandas operation raises are not explored
            o.I.libs.update({'numpy': HavocNS(world, 'np'), 'pandas': HavocNS(world, 'pd'), 'uuid': UuidNS()})
            oi, pi = GIndex(world, on, 'obj.index'), GIndex(world, pn, 'parameter.index')
            obj, prm = GOperand(world, okind, oi, 'obj'), GOperand(world, pkind, pi, 'parameter')
            b = Obj(o.cls(BC))
            b.fields['_obj'] = obj
            try:
                o.I.call(o.method(b, '_broadcast_frame_to_frame'), [prm, PList(list(drop))])
                outcome = 'return'
            except PyRaise as e:
                outcome = 'raise'
            return outcome, (obj, oi), (prm, pi)
        ps = [p for p in o.paths(thunk, max_paths=20000) if p.kind == 'return']
        for p in ps:
            outcome, (obj, oi), (prm, pi) = p.result
            if outcome == 'raise':
                total_raise += 1
                continue
            total_ret += 1
            ok = (obj.index is oi and prm.index is pi and oi.names == list(on) and pi.names == list(pn))
            if not ok:
                bad.append((on, pn, okind, pkind, drop, [type(obj.index).__name__, oi.names, type(prm.index).__name__, pi.names]))
    def replay(item, model):
        # native replay: small concrete operands of every layout through the real method
        import warnings
        import pandas as pd
        from pylife.core.broadcaster import Broadcaster
        warnings.simplefilter('ignore')
        for on, pn, okind, pkind, drop in rows:
            def mk(names, kind, base):
                keys = [(0, 'x', 5), (1, 'y', 6), (2, 'x', 7)]
                idx = pd.Index([k[0] for k in keys], name=names[0]) if len(names) == 1 else pd.MultiIndex.from_tuples([k[:len(names)] for k in keys], names=list(names))
                vals = [base + i for i in range(len(keys))]
                return pd.Series(vals, index=idx, name='v') if kind == 'series' else pd.DataFrame({'u': vals, 'w': vals}, index=idx)
            obj, prm = mk(on, okind, 10.0), mk(pn, pkind, 20.0)
            so, sp = obj.index.copy(deep=True), prm.index.copy(deep=True)
            try:
                Broadcaster(obj)._broadcast_frame_to_frame(prm, list(drop))
            except Exception:   # noqa
                continue
            if not (obj.index.equals(so) and prm.index.equals(sp) and list(obj.index.names) == list(on) and list(prm.index.names) == list(pn)):
                return {'reproduced': True, 'inputs': {'object_levels': list(on), 'parameter_levels': list(pn), 'object': okind, 'parameter': pkind, 'droplevel': list(drop)},
                        'outputs': {'object_index_names_after': [str(x) for x in obj.index.names], 'parameter_index_names_after': [str(x) for x in prm.index.names],
                                    'object_index_restored': bool(obj.index.equals(so)), 'parameter_index_restored': bool(prm.index.equals(sp))}}
        return {'reproduced': False, 'reason': 'the operands of all layouts come back with their index on small concrete frames'}
    o.prove('every returning path: both operands hold their original index object with its original level names', z3.BoolVal(not bad), kind='frame', replay=replay)
    o.prove('the exploration has returning paths for every layout', z3.BoolVal(total_ret >= len(rows)), kind='shape')
    if bad:
        o.note(f"first violating layout: {bad[0]}")
    o.note(f"{len(rows)} layouts (level names x operand kinds x droplevel), {total_ret} returning and {total_raise} raising paths explored")
    o.trusted("pandas / numpy as arbitrary objects (pv/ghost.py Havoc): sound for the frame condition, which only concerns the operands' index slot and the names of their own index objects")
    o.trusted("the operands' original index objects are not aliased by a pandas result that is later renamed (an alignment that returns the operand itself would share its index object)")


META = {
    'level': 'other',
    'explanation': "mixed. Proved (frame condition): the real Broadcaster._broadcast_frame_to_frame with _IndexLevelCache and the two name-replacement helpers, run over ghost operands "
                   "whose index slot and level names are tracked while every pandas / numpy operation returns an arbitrary object: for each listed layout of level names, operand kinds "
                   "and droplevel, and for arbitrary data, every returning execution leaves both operands with their own original index object carrying its original level names. "
                   "Bounded stand-in (labelled) for the alignment contract itself (identical result index, row values by key, NaN for missing keys) over every enumerated combination "
                   "of object kind, parameter kind and small index layout; pandas alignment internals are outside the reach of contracts.",
    'not_decided': ['alignment for layouts beyond the enumerated sizes', 'exceptional exits between index re-coding and restore leave the temporary integer index on the operands (outside the statement)',
                    'the frame condition for level-name layouts other than the listed ones'],
    'trusted_base': ['pandas alignment semantics (bounded check only)', 'ghost model of the operands (pv/ghost.py)'],
}
