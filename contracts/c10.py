"""C10 - FKM-nonlinear assessment: batch independence, sample insensitivity, monotonicity."""
import z3
from pv.api import obligation
from pv.bounded import bounded
from pv.sym import SV, RV, ex, lg, Pinv

DCJ = 'pylife/strength/fkm_nonlinear/damage_calculator.py::DamageCalculatorPRAJ'


def base_params(**over):
    import pandas as pd
    p = {'MatGroupFKM': 'Steel', 'FinishingFKM': 'none', 'R_m': 600, 'R_z': 250, 'P_A': 7.2e-5, 'P_L': 2.5, 'c': 1.4, 'A_sigma': 339.4, 'A_ref': 500,
         'G': 2 / 15, 's_L': 10, 'K_p': 3.5, 'x_Einsatz': 3000, 'r': 15, 'n_bins': 200, 'max_load_independently_for_nodes': True}
    p.update(over)
    return pd.Series(p)


def assess(params, loads, ram=True, raj=True):
    import warnings
    import pylife.strength.fkm_nonlinear.assessment_nonlinear_standard as A
    with warnings.catch_warnings():
        warnings.simplefilter('ignore')
        return A.perform_fkm_nonlinear_assessment(params.copy(), loads, calculate_P_RAM=ram, calculate_P_RAJ=raj)


def batch_series(seq, ratios, layout='load-step-by-load-step'):
    import pandas as pd
    if layout == 'point-by-point':
        # what pd.concat of per-point histories gives: the same index, the rows listed point by point
        return pd.concat({i: pd.Series([float(v) * r for v in seq], index=pd.Index(range(len(seq)), name='load_step')) for i, r in enumerate(ratios)},
                         names=['node_id', 'load_step']).swaplevel()
    idx = pd.MultiIndex.from_product([range(len(seq)), range(len(ratios))], names=['load_step', 'node_id'])
    return pd.Series([float(v) * r for v in seq for r in ratios], index=idx)


# frame-guard exemption (pv/guards.py): the assessment appends a diagnostic entry 'notes' to the parameter Series it is handed (it returns a NEW Series with the results);
# the entries the caller passed must still be unchanged, which the guard keeps checking
GUARD_EXEMPT = {'assessment_nonlinear_standard.perform_fkm_nonlinear_assessment:assessment_parameters':
                ('may-add-entries', "perform_fkm_nonlinear_assessment adds the entry 'notes' to the caller's parameter Series by design; no clause of C10 is about it")}


KEYS_RAM = ['P_RAM_lifetime_n_cycles', 'P_RAM_is_life_infinite']
KEYS_RAJ = ['P_RAJ_lifetime_n_cycles', 'P_RAJ_is_life_infinite']


def val(res, key, i=None):
    import numpy as np
    v = res[key]
    a = np.asarray(v).ravel()
    return a[i] if i is not None and a.size > 1 else a[0]


@obligation('C10', 'praj.quantile-order', functions=[DCJ + '.get_lifetime_functions'])
def praj_quantiles(o):
    """P_RAJ lifetime for a failure probability: N(P_A) = N_bar 10^((log10 f_25 - (0.8 beta - 2) 0.155) |1/d|) with beta = -Phi^-1(P_A) is strictly increasing in P_A,
    hence N_10 <= N_50 <= N_90 (log-domain, Phi^-1 monotone)"""
    import ast
    from pv import extract
    from pv.api import Unbound
    from pv.interp import Frame, Func
    from pv.npmodel import LibNS, Builtin
    mod = extract.load_module('pylife.strength.fkm_nonlinear.damage_calculator')
    node = mod.find('DamageCalculatorPRAJ.get_lifetime_functions')
    o.functions.add((mod.name, 'DamageCalculatorPRAJ.get_lifetime_functions.<locals>.N_max_bearable'))
    inner = [n for n in node.body if isinstance(n, ast.FunctionDef) and n.name == 'N_max_bearable']
    if not inner:
        raise Unbound('N_max_bearable not found in get_lifetime_functions')
    Nbar, f25, sw, PA, p1, p2 = o.reals('N_bar f_25 slope_woehler P_A P_1 P_2')
    o.assume(Nbar > 0, f25 > 0, sw > 0, PA > 0, PA < 1, p1 > 0, p1 < p2, p2 < 1)
    # the real nested function is executed symbolically with its closure variables as symbols (f_25, slope_woehler = |1/d|, lifetime_n_cycles = N_bar) and
    # compute_beta under its contract beta = -Phi^-1(P_A) (proved in C09 for the case that the root search reports success)
    pylife_ns = LibNS('pylife', {'strength': LibNS('pylife.strength', {'fkm_nonlinear': LibNS('pylife.strength.fkm_nonlinear', {
        'parameter_calculations': LibNS('pc', {'compute_beta': Builtin('compute_beta', lambda q: SV(-Pinv(q.t if isinstance(q, SV) else RV(float(q)))))})})})})
    # lifetime_n_cycles is a column over the assessment points, a point's life may be infinite: the generic element is N_bar or +inf; a reduction over the column
    # (any / all / max ...) is an arbitrary value as far as the generic element is concerned (added after seed C10-c returned the column unchanged as soon as ANY
    # point of the batch has infinite life)
    Ninf = o.bool('N_bar_is_infinite')
    outer = Frame(o.I, mod, {'f_25': SV(f25), 'slope_woehler': SV(sw), 'lifetime_n_cycles': SV(Nbar, pinf=Ninf, kind='series'), 'pylife': pylife_ns}, None,
                  'pylife.strength.fkm_nonlinear.damage_calculator::DamageCalculatorPRAJ.get_lifetime_functions', node=node)
    f = Func(inner[0], mod, outer, 'pylife.strength.fkm_nonlinear.damage_calculator::DamageCalculatorPRAJ.get_lifetime_functions.<locals>.N_max_bearable')
    got = o.run1(lambda: o.I.call(f, [SV(PA)]), label='N_max_bearable')
    fin = z3.Not(Ninf)
    gfin = z3.And(z3.Not(got.P()), z3.Not(got.N())) if got.has_inf else z3.BoolVal(True)
    o.prove('N_max_bearable(P_A) == N_bar 10^((log10 f_25 - (0.8 beta - 2) 0.155) slope_woehler) with beta = -Phi^-1(P_A)',
            z3.Implies(fin, z3.And(gfin, lg(got.t) == lg(Nbar) + (lg(f25) - (RV(0.8) * (-Pinv(PA)) - 2) * RV(0.155)) * sw)), pairs=False)
    o.prove('an infinite life stays infinite for every failure probability', z3.Implies(Ninf, got.P() if got.has_inf else z3.BoolVal(False)))
    d = -1 / sw

    def N(p):
        beta = -Pinv(p)
        red = (lg(f25) - (RV(0.8) * beta - 2) * RV(0.155)) * (-1 / d)
        return lg(Nbar) + red
    o.prove('log10 N(P_A) strictly increasing in P_A', N(p1) < N(p2), kind='lemma')
    o.prove('N_10 <= N_50 <= N_90', z3.And(N(RV(0.1)) <= N(RV(0.5)), N(RV(0.5)) <= N(RV(0.9))), kind='lemma')
    o.canary('canary: lifetime decreasing in P_A', N(p1) > N(p2))


@bounded('C10', 'batch-independence', shards=8)
def b_batch(ctx):
    """each point's lifetime and infinite-life verdict (P_RAM and P_RAJ) in a batch with per-point load maxima equal the single-point run"""
    import itertools
    import numpy as np
    seqs = [[100, -200, 100, -250, 200, 0, 200, -200], [150, -250, 250, -100, 200, -300], [300, 0, 240, 60, 180, 120]]
    ratio_sets = [(1.0, 1.0), (1.0, 0.6, 1.5), (1.0, 1.2, 0.2), (2.0, 1.0)]
    if ctx.tier == 'thorough':
        seqs += [[100, 300, -300, 200, -100, 250, -250], [200, -200, 100, -100, 300, -300, 50, -50]]
        ratio_sets += [(0.5, 1.0, 2.0), (1.0, 1.0, 1.0), (1.3, 0.7)]
    ctx.bound = f"{len(seqs)} load sequences x point sets with load ratios {ratio_sets}, Steel R_m=600, per-point maxima, P_RAM and P_RAJ; rows listed load step by load step, two ratio sets also point by point"
    ctx.rule = "non-trivial: points with different ratios; distinct by (sequence, ratios)"
    # the rows of the batch listed load step by load step (MultiIndex.from_product) and point by point (pd.concat of per-point histories); a history with
    # non-reversal samples (added after seed C10-d took every n-th row as the first point's history)
    seqs = seqs + [[100, 40, -200, -50, 100, -250, 200, 120, 0, 200, -200]]
    for seq, ratios, layout in itertools.product(seqs, ratio_sets, ('load-step-by-load-step', 'point-by-point')):
        if not ctx.mine():
            continue
        if layout == 'point-by-point' and ratios not in ((1.0, 1.0), (1.0, 0.6, 1.5)):
            continue
        prm = base_params()
        # the flag 'max_load_independently_for_nodes' as a numpy bool (what a row of a parameter table or a comparison yields) instead of the Python object True
        # (added after seed C10-f tested the flag with `is True`)
        ctx.case(len(set(ratios)) > 1, key=(tuple(seq), ratios, layout))
        multi = assess(prm, batch_series(seq, ratios, layout))
        if layout == 'load-step-by-load-step' and ratios == (1.0, 1.2, 0.2):
            import pandas as pd
            prm_np = pd.DataFrame([dict(prm), dict(prm)]).iloc[0]       # a row of a parameter table: the flag arrives as numpy.bool_
            other = assess(prm_np, batch_series(seq, ratios, layout))
            for i, r in enumerate(ratios):
                for fam, keys in (('P_RAM', KEYS_RAM), ('P_RAJ', KEYS_RAJ)):
                    a, b = float(val(other, keys[0], i)), float(val(multi, keys[0], i))
                    if bool(val(other, keys[1], i)) != bool(val(multi, keys[1], i)) or not (a == b or abs(a - b) <= 1e-9 * max(abs(a), abs(b))):
                        ctx.fail(f'C10:batch-flag-type:{fam}', f'{fam}: point {i} of {seq} x {ratios}: lifetime {a} with max_load_independently_for_nodes given as {type(prm_np["max_load_independently_for_nodes"]).__name__}, {b} with the Python object True',
                                 {'sequence': seq, 'ratios': list(ratios)})
        ltag = ''
        import pandas as pd
        if layout == 'point-by-point':
            # the order in which the rows are listed is irrelevant: same results as the batch listed load step by load step (compared with each other, so that the
            # known batch-dependence findings - which both layouts share - do not enter)
            ref = assess(prm, batch_series(seq, ratios))
            for i, r in enumerate(ratios):
                for fam, keys in (('P_RAM', KEYS_RAM), ('P_RAJ', KEYS_RAJ)):
                    a, b = float(val(multi, keys[0], i)), float(val(ref, keys[0], i))
                    ia, ib = bool(val(multi, keys[1], i)), bool(val(ref, keys[1], i))
                    if ia != ib or not (a == b or abs(a - b) <= 1e-9 * max(abs(a), abs(b))):
                        ctx.fail(f'C10:batch-row-order:{fam}', f'{fam}: point {i} (ratio {r}) of {seq} x {ratios}: lifetime {a} / infinite {ia} with the rows listed point by point, {b} / {ib} listed load step by load step',
                                 {'sequence': seq, 'ratios': list(ratios)})
            continue
        for i, r in enumerate(ratios):
            single = assess(prm, pd.Series([float(v) * r for v in seq]))
            for fam, keys in (('P_RAM', KEYS_RAM), ('P_RAJ', KEYS_RAJ)):
                a, b = float(val(multi, keys[0], i)), float(val(single, keys[0]))
                ia, ib = bool(val(multi, keys[1], i)), bool(val(single, keys[1]))
                if ia != ib or not (a == b or abs(a - b) <= 1e-6 * max(abs(a), abs(b))):
                    same = ('equal-ratios' if len(set(ratios)) == 1 else 'different-ratios') + ltag
                    ctx.fail(f'C10:batch:{fam}:{same}', f'{fam}: point {i} (ratio {r}) of {seq} x {ratios}: lifetime {a} / infinite {ia} in the batch, {b} / {ib} alone',
                             "import pandas as pd\nimport pylife.strength.fkm_nonlinear.assessment_nonlinear_standard as A\n"
                             f"p = pd.Series({dict(base_params())!r})\nseq = {seq!r}; ratios = {list(ratios)!r}\n"
                             "idx = pd.MultiIndex.from_product([range(len(seq)), range(len(ratios))], names=['load_step', 'node_id'])\n"
                             "multi = A.perform_fkm_nonlinear_assessment(p.copy(), pd.Series([float(v) * r for v in seq for r in ratios], index=idx), calculate_P_RAM=True, calculate_P_RAJ=True)\n"
                             f"single = A.perform_fkm_nonlinear_assessment(p.copy(), pd.Series([float(v) * {r} for v in seq]), calculate_P_RAM=True, calculate_P_RAJ=True)\n"
                             f"print(multi['{keys[0]}'], single['{keys[0]}'])\n")
    ctx.sample({'sequence': [100, -200, 100, -250, 200, 0, 200, -200], 'ratios': (1.0, 0.6, 1.5)})


@bounded('C10', 'batch-independence-quantile-lifetimes', shards=4)
def b_batch_quantiles(ctx):
    """P_A = 50 %: the lifetimes for given failure probabilities (N_1ppm, N_10, N_50, N_90) of a point, relative to its own lifetime, do not depend on the co-assessed
    points - in particular not on whether another point of the batch has infinite life - and are strictly ordered (added after seed C10-c)"""
    import itertools
    import numpy as np
    import pandas as pd
    seqs = [[100, -200, 100, -250, 200, 0, 200, -200], [150, -250, 250, -100, 200, -300]]
    ratio_sets = [(1.0, 0.9), (1.0, 0.2), (1.0, 0.5, 0.15), (0.2, 1.0)]
    ctx.bound = f"{len(seqs)} load sequences x point sets with load ratios {ratio_sets} (0.2 / 0.15: infinite life), Steel R_m=600, P_A=0.5, P_L=50, c=3, P_RAJ and P_RAM"
    ctx.rule = "every (sequence, ratios, point) is one case; non-trivial: the batch mixes finite and infinite lives"
    qs = ['N_1ppm', 'N_10', 'N_50', 'N_90']
    for seq, ratios in itertools.product(seqs, ratio_sets):
        if not ctx.mine():
            continue
        prm = base_params(P_A=0.5, P_L=50, c=3.0)
        multi = assess(prm, batch_series(seq, ratios))
        infinite = [bool(val(multi, 'P_RAJ_is_life_infinite', i)) for i in range(len(ratios))]
        for i, r in enumerate(ratios):
            single = assess(prm, pd.Series([float(v) * r for v in seq]))
            for fam in ('P_RAJ', 'P_RAM'):
                keys = [f'{fam}_lifetime_{q}' for q in qs]
                if not all(k in single and k in multi for k in keys):
                    ctx.count(f'no-quantile-lifetimes:{fam}')
                    continue
                ctx.case(len(set(infinite)) > 1, key=(tuple(seq), ratios, i, fam))
                nb_m, nb_s = float(val(multi, f'{fam}_lifetime_n_cycles', i)), float(val(single, f'{fam}_lifetime_n_cycles'))
                if not (np.isfinite(nb_m) and np.isfinite(nb_s)) or bool(val(single, f'{fam}_is_life_infinite')):
                    continue
                fm = [float(val(multi, k, i)) / nb_m for k in keys]
                fs = [float(val(single, k)) / nb_s for k in keys]
                repro = ("import pandas as pd\nimport pylife.strength.fkm_nonlinear.assessment_nonlinear_standard as A\n"
                         f"p = pd.Series({dict(prm)!r})\nseq = {seq!r}; ratios = {list(ratios)!r}\n"
                         "idx = pd.MultiIndex.from_product([range(len(seq)), range(len(ratios))], names=['load_step', 'node_id'])\n"
                         "multi = A.perform_fkm_nonlinear_assessment(p.copy(), pd.Series([float(v) * r for v in seq for r in ratios], index=idx), calculate_P_RAM=True, calculate_P_RAJ=True)\n"
                         f"single = A.perform_fkm_nonlinear_assessment(p.copy(), pd.Series([float(v) * {r} for v in seq]), calculate_P_RAM=True, calculate_P_RAJ=True)\n"
                         f"for k in {keys!r}: print(k, multi[k], single[k])\n")
                if not np.allclose(fm, fs, rtol=1e-6, atol=0):
                    ctx.fail(f'C10:batch-quantiles:{fam}', f'{fam}: point {i} (ratio {r}) of {seq} x {ratios}: N_q / N_bar = {fm} in the batch (infinite lives: {infinite}), {fs} alone', repro)
                elif not all(a < b for a, b in zip(fs, fs[1:])):
                    ctx.fail(f'C10:quantile-order:{fam}', f'{fam}: point {i} of {seq} x {ratios}: N_1ppm < N_10 < N_50 < N_90 does not hold: {fs}', repro)
    ctx.sample({'sequence': [100, -200, 100, -250, 200, 0, 200, -200], 'ratios': (1.0, 0.2)})


@bounded('C10', 'batch-independence-per-point-gradient', shards=4)
def b_batch_gradient(ctx):
    """per-point stress gradient G (a Series over the points): each point's P_RAM / P_RAJ lifetime and infinite-life verdict in the batch equal the single-point run with
    that point's G; points share the load (equal ratios) so that the recorded batch-binning findings cannot interfere"""
    import itertools
    import pandas as pd
    seqs = [[100, -200, 100, -250, 200, 0, 200, -200], [150, -250, 250, -100, 200, -300]]
    gsets = [(0.2, 10.0, 20.0), (5.0, 0.1), (30.0, 30.0, 2.0 / 15, 8.0)]
    if ctx.tier == 'thorough':
        seqs += [[300, 0, 240, 60, 180, 120]]
        gsets += [(12.0, 0.5, 6.0), (1.0, 50.0)]
    ctx.bound = f"{len(seqs)} load sequences x per-point gradients {gsets} (Steel R_m=600: n_bm differs between the points for G >~ 4), equal load ratios, P_RAM and P_RAJ"
    ctx.rule = "non-trivial: at least two points with different support factors; distinct by (sequence, gradients)"
    for seq, gs in itertools.product(seqs, gsets):
        if not ctx.mine():
            continue
        ctx.case(len(set(gs)) > 1, key=(tuple(seq), gs))
        ratios = (1.0,) * len(gs)
        prm = base_params()
        prm_b = prm.copy()
        prm_b['G'] = pd.Series(list(gs), index=pd.Index(range(len(gs)), name='node_id'))
        try:
            multi = assess(prm_b, batch_series(seq, ratios))
        except Exception as e:   # noqa
            ctx.fail(f'C10:batch-gradient:raises:{type(e).__name__}', f'assessment with a per-point gradient {gs} raises {type(e).__name__}: {str(e)[:160]}', {'sequence': seq, 'G': gs})
            continue
        for i, g in enumerate(gs):
            single = assess(base_params(G=g), pd.Series([float(v) for v in seq]))
            for fam, keys in (('P_RAM', KEYS_RAM), ('P_RAJ', KEYS_RAJ)):
                a, b = float(val(multi, keys[0], i)), float(val(single, keys[0]))
                ia, ib = bool(val(multi, keys[1], i)), bool(val(single, keys[1]))
                if ia != ib or not (a == b or abs(a - b) <= 1e-6 * max(abs(a), abs(b))):
                    ctx.fail(f'C10:batch-gradient:{fam}', f'{fam}: point {i} (G = {g}) of {seq} with per-point gradients {gs}: lifetime {a} / infinite {ia} in the batch, {b} / {ib} alone',
                             "import pandas as pd\nimport pylife.strength.fkm_nonlinear.assessment_nonlinear_standard as A\n"
                             f"p = pd.Series({dict(base_params())!r})\nseq = {seq!r}; gs = {list(gs)!r}\n"
                             "idx = pd.MultiIndex.from_product([range(len(seq)), range(len(gs))], names=['load_step', 'node_id'])\n"
                             "pb = p.copy(); pb['G'] = pd.Series(gs, index=pd.Index(range(len(gs)), name='node_id'))\n"
                             "multi = A.perform_fkm_nonlinear_assessment(pb, pd.Series([float(v) for v in seq for _ in gs], index=idx), calculate_P_RAM=True, calculate_P_RAJ=True)\n"
                             f"ps = p.copy(); ps['G'] = {g}\nsingle = A.perform_fkm_nonlinear_assessment(ps, pd.Series([float(v) for v in seq]), calculate_P_RAM=True, calculate_P_RAJ=True)\n"
                             f"print(multi['{keys[0]}'], single['{keys[0]}'])\n")
        # the labels of the G Series mean nothing ("the order of the G values has to match the order of the assessment points, the actual values of the index are
        # irrelevant", docstring of perform_fkm_nonlinear_assessment): ids that are not ascending, descending ids, repeated labels give the result of the plain labelling
        # point by point (added after seed C10-g sorted the gradients by their labels in calculate_nonlocal_parameters)
        n_ = len(gs)
        for lname, labels in (('ids-not-ascending', [30, 10, 20, 5][:n_]), ('descending', list(range(n_, 0, -1))), ('repeated', [0, 1, 0, 1][:n_])):
            prm_v = prm.copy()
            prm_v['G'] = pd.Series(list(gs), index=pd.Index(labels, name='node_id'))
            ctx.case(len(set(gs)) > 1, key=(tuple(seq), gs, lname))
            try:
                multi_v = assess(prm_v, batch_series(seq, ratios))
            except Exception as e:   # noqa
                ctx.fail(f'C10:batch-gradient-labels:{lname}:raises:{type(e).__name__}', f'assessment with per-point gradients {gs} labelled {labels} raises {type(e).__name__}: {str(e)[:160]}', {'sequence': seq, 'G': gs, 'labels': labels})
                continue
            for i, g in enumerate(gs):
                for fam, keys in (('P_RAM', KEYS_RAM), ('P_RAJ', KEYS_RAJ)):
                    a, b = float(val(multi_v, keys[0], i)), float(val(multi, keys[0], i))
                    ia, ib = bool(val(multi_v, keys[1], i)), bool(val(multi, keys[1], i))
                    if ia != ib or not (a == b or abs(a - b) <= 1e-9 * max(abs(a), abs(b))):
                        ctx.fail(f'C10:batch-gradient-labels:{fam}', f'{fam}: point {i} (G = {g}) of {seq}: lifetime {a} / infinite {ia} with the gradients {gs} labelled {labels}, {b} / {ib} with the labels 0..{n_ - 1}',
                                 {'sequence': seq, 'G': gs, 'labels': labels})
    # verdicts near the endurance limit: with per-point gradients the points have different endurance limits; at a load level just below the level at which the
    # point with the LARGEST limit turns finite, the points with smaller limits are finite already - every point must still get its own verdict (both families).
    # The level is found by bisection on single-point runs (added after seed C10-h compared every point with the smallest endurance limit of the batch)
    if ctx.shard == 0:
        seq = [100, -200, 100, -250, 200, 0, 200, -200]
        for gs in ((20.0, 0.2), (0.2, 20.0, 8.0)):
            g_hi = max(gs)
            lo_, hi_ = 0.02, 1.5

            def infinite(scale, g):
                r_ = assess(base_params(G=g), pd.Series([float(v) * scale for v in seq]), raj=False)
                return bool(val(r_, KEYS_RAM[1]))
            if not infinite(lo_, g_hi) or infinite(hi_, g_hi):
                ctx.count('endurance-bracket-not-found')
                continue
            for _ in range(14):
                mid = 0.5 * (lo_ + hi_)
                if infinite(mid, g_hi):
                    lo_ = mid
                else:
                    hi_ = mid
            for scale in (lo_ * 0.995, lo_ * 0.93):
                sseq = [float(v) * scale for v in seq]
                prm_b = base_params()
                prm_b['G'] = pd.Series(list(gs), index=pd.Index(range(len(gs)), name='node_id'))
                ctx.case(True, key=('near-endurance', gs, round(scale, 6)))
                try:
                    multi = assess(prm_b, batch_series(sseq, (1.0,) * len(gs)))
                except Exception as e:   # noqa
                    ctx.fail(f'C10:batch-gradient:near-endurance:raises:{type(e).__name__}', f'assessment near the endurance limit with per-point gradients {gs} raises {type(e).__name__}: {str(e)[:160]}', {'sequence': sseq, 'G': gs})
                    continue
                verdicts = []
                for i, g in enumerate(gs):
                    single = assess(base_params(G=g), pd.Series(sseq))
                    for fam, keys in (('P_RAM', KEYS_RAM), ('P_RAJ', KEYS_RAJ)):
                        ia, ib = bool(val(multi, keys[1], i)), bool(val(single, keys[1]))
                        if fam == 'P_RAM':
                            verdicts.append(ib)
                        if ia != ib:
                            ctx.fail(f'C10:batch-gradient:near-endurance:{fam}', f'{fam}: point {i} (G = {g}) of {sseq} with per-point gradients {gs}: infinite life {ia} in the batch, {ib} alone', {'sequence': sseq, 'G': gs, 'point': i})
                if len(set(verdicts)) < 2 and scale == lo_ * 0.995:
                    ctx.count('near-endurance level without mixed verdicts')
    ctx.sample({'sequence': [100, -200, 100, -250, 200, 0, 200, -200], 'G': (0.2, 10.0, 20.0)})


@bounded('C10', 'refinement-and-monotonicity', shards=8)
def b_mono(ctx):
    """lifetime unchanged when non-reversal samples / repeated values are added; never increases when all loads are scaled up, the surface is rougher
    or a smaller failure probability is demanded; N_10 <= N_50 <= N_90"""
    import numpy as np
    import pandas as pd
    from contracts.c04 import insertions, classify
    seqs = [[100, -200, 100, -250, 200, 0, 200, -200], [300, 0, 240, 60, 180, 120], [150, -250, 250, -100, 200, -300], [200, 600, 1000, 60, 1500], [-143, 150, -132, -9, 288]]
    if ctx.tier == 'thorough':
        seqs += [[100, 300, -300, 200, -100, 250, -250], [250, -50, 150, -250, 50, -150]]
    ctx.bound = f"{len(seqs)} load sequences; every single insertion of a non-reversal sample; values held for 2 / 3 / 5 samples; load scales 1, 1.1, 1.5, 2 (two seeded 80 / 40-reversal sequences: 1 .. 4 in 9 steps at c = 3); R_z 25 -> 250; P_A 2.3e-1 -> 1e-3 -> 7.2e-5 -> 1e-5"
    ctx.rule = "every comparison of two assessments is one non-trivial case"
    tasks = []
    for si, seq in enumerate(seqs):
        tasks.append(('refine', si))
        tasks.append(('scale', si))
        tasks.append(('rough', si))
        tasks.append(('prob', si))
    for kind, si in tasks:
        if not ctx.mine():
            continue
        seq = [float(v) for v in seqs[si]]
        prm = base_params()
        ref = assess(prm, pd.Series(seq))
        if kind == 'refine':
            from specs.rainflow_spec import TP

            def reversal_values(z):
                w = [0.0] + list(z) + list(z)
                return [w[p] for p in TP(w)], w[-1]
            for pos, v, y in insertions(seq):
                # a refinement in the sense of the statement adds no reversal anywhere in the assessed history: start from zero load, the sequence twice
                # (a first version used the periodic criterion of C04 only and alarmed on leading samples that change the start-up from zero load)
                if reversal_values(y) != reversal_values(seq):
                    continue
                if classify(y) == 'last-reversal-deferred-to-pass-2' or classify(seq) == 'last-reversal-deferred-to-pass-2':
                    ctx.count('skipped: C04 junction finding')
                    continue
                got = assess(prm, pd.Series(y))
                ctx.case(True, key=(si, pos, v))
                for fam, keys in (('P_RAM', KEYS_RAM), ('P_RAJ', KEYS_RAJ)):
                    a, b = float(val(got, keys[0])), float(val(ref, keys[0]))
                    # lifetimes are reported in cycles of the counted hystereses: the number of hystereses per pass is the same, so the value must agree
                    if bool(val(got, keys[1])) != bool(val(ref, keys[1])) or abs(a - b) > 1e-6 * max(abs(a), abs(b), 1):
                        ctx.fail(f'C10:refinement:{fam}', f'{fam}: inserting {v} at {pos} into {seq} changes the lifetime {b} -> {a}', {'sequence': seq, 'pos': pos, 'value': v})
            # repeated values: every value held for 2 / 3 samples, the first / the last value held for 3 and 5 samples (added after seed C10-b, which
            # stepped back over a trailing run of equal values only once)
            reps = [('every value twice', [v for v in seq for _ in range(2)]), ('every value three times', [v for v in seq for _ in range(3)]),
                    ('first value three times', [seq[0]] * 2 + seq), ('last value three times', seq + [seq[-1]] * 2), ('last value five times', seq + [seq[-1]] * 4)]
            for what, y in reps:
                if classify(y) == 'last-reversal-deferred-to-pass-2' or classify(seq) == 'last-reversal-deferred-to-pass-2':
                    ctx.count('skipped: C04 junction finding')
                    continue
                got = assess(prm, pd.Series(y))
                ctx.case(True, key=(si, what))
                for fam, keys in (('P_RAM', KEYS_RAM), ('P_RAJ', KEYS_RAJ)):
                    a, b = float(val(got, keys[0])), float(val(ref, keys[0]))
                    # the lifetime is reported in cycles = passes x number of hystereses per pass: repeated values add no hysteresis
                    if bool(val(got, keys[1])) != bool(val(ref, keys[1])) or not (a == b or abs(a - b) <= 1e-6 * max(abs(a), abs(b), 1)):
                        ctx.fail(f'C10:repeated-values:{fam}', f'{fam}: {what} in {seq} changes the lifetime {b} -> {a}', {'sequence': seq, 'variant': what})
        elif kind == 'scale':
            prev = ref
            for s_ in (1.1, 1.5, 2.0):
                got = assess(prm, pd.Series([v * s_ for v in seq]))
                ctx.case(True, key=(si, 'scale', s_))
                for fam, keys in (('P_RAM', KEYS_RAM), ('P_RAJ', KEYS_RAJ)):
                    a, b = float(val(got, keys[0])), float(val(prev, keys[0]))
                    if a > b * (1 + 1e-9):
                        ctx.fail(f'C10:load-monotone:{fam}', f'{fam}: scaling {seq} up to {s_} increases the lifetime {b} -> {a}', {'sequence': seq, 'scale': s_})
                    if bool(val(got, keys[1])) and not bool(val(prev, keys[1])):
                        ctx.fail(f'C10:load-monotone:{fam}', f'{fam}: scaling up turns finite life into infinite life', {'sequence': seq, 'scale': s_})
                prev = got
        elif kind == 'rough':
            smooth = assess(base_params(R_z=25), pd.Series(seq))
            rough = assess(base_params(R_z=250), pd.Series(seq))
            ctx.case(True, key=(si, 'rough'))
            for fam, keys in (('P_RAM', KEYS_RAM), ('P_RAJ', KEYS_RAJ)):
                if float(val(rough, keys[0])) > float(val(smooth, keys[0])) * (1 + 1e-9):
                    ctx.fail(f'C10:roughness-monotone:{fam}', f'{fam}: rougher surface increases the lifetime for {seq}', {'sequence': seq})
        else:
            prev = None
            for pa in (2.3e-1, 1e-3, 7.2e-5, 1e-5):
                got = assess(base_params(P_A=pa), pd.Series(seq))
                ctx.case(True, key=(si, 'P_A', pa))
                for fam, keys in (('P_RAM', KEYS_RAM), ('P_RAJ', KEYS_RAJ)):
                    if prev is not None and float(val(got, keys[0])) > float(val(prev, keys[0])) * (1 + 1e-9):
                        ctx.fail(f'C10:probability-monotone:{fam}', f'{fam}: smaller failure probability {pa} increases the lifetime for {seq}', {'sequence': seq, 'P_A': pa})
                prev = got
            for fam in ('P_RAM', 'P_RAJ'):
                try:
                    n10, n50, n90 = (float(val(ref, f'{fam}_lifetime_N_{q}')) for q in (10, 50, 90))
                except KeyError:
                    continue
                if not (n10 <= n50 * (1 + 1e-9) and n50 <= n90 * (1 + 1e-9)):
                    ctx.fail(f'C10:quantile-order:{fam}', f'{fam}: N_10, N_50, N_90 = {n10}, {n50}, {n90} not ordered for {seq}', {'sequence': seq})
    # long sequences under heavy loads: the damage sum reaches 1 after many passes, during the second pass, during the first pass - the lifetime has three regimes
    # and must fall monotonically through all of them (added after seed C10-e compared with the hysteresis count of the wrong pass in the regime "during the second pass")
    if ctx.shard == 0:
        import numpy as np
        for li, (nrev, sd) in enumerate(((80, 1), (40, 2))):
            rng = np.random.default_rng(sd)
            amps = rng.uniform(60, 200, nrev)
            longseq = [float(a_ if k_ % 2 == 0 else -a_ * rng.uniform(0.3, 1.0)) for k_, a_ in enumerate(amps)]
            prm2 = base_params(P_A=1e-5, P_L=50, c=3.0)
            prev = None
            for s_ in (1.0, 1.4, 1.8, 2.0, 2.1, 2.2, 2.5, 3.0, 4.0):
                got = assess(prm2, pd.Series([v * s_ for v in longseq]))
                ctx.case(True, key=('long', li, s_))
                for fam, keys in (('P_RAM', KEYS_RAM), ('P_RAJ', KEYS_RAJ)):
                    a = float(val(got, keys[0]))
                    if not bool(val(got, keys[1])) and not a > 0:
                        ctx.fail(f'C10:load-monotone:long-sequence:{fam}', f'{fam}: lifetime {a} cycles (finite life) for a {nrev}-reversal sequence scaled by {s_}', {'seed': sd, 'reversals': nrev, 'scale': s_})
                    if prev is not None and a > float(val(prev, keys[0])) * (1 + 1e-9):
                        ctx.fail(f'C10:load-monotone:long-sequence:{fam}', f'{fam}: scaling a {nrev}-reversal sequence up to {s_} increases the lifetime {float(val(prev, keys[0]))} -> {a}', {'seed': sd, 'reversals': nrev, 'scale': s_})
                prev = got
    ctx.sample({'sequence': [100, -200, 100, -250, 200, 0, 200, -200], 'comparison': 'scale 1 -> 1.1 -> 1.5 -> 2'})


META = {
    'level': 'exploration',
    'explanation': "bounded stand-in (labelled): every clause relates two runs of the pandas end-to-end pipeline perform_fkm_nonlinear_assessment; the relations are evaluated "
                   "on the real entry point for the listed sequences, batches, scales and parameters. One closed-form clause is proved: the P_RAJ lifetime quantile "
                   "N(P_A) is strictly increasing in P_A, hence N_10 <= N_50 <= N_90.",
    'not_decided': ["anything beyond the enumerated runs (sequences, batch compositions, parameter sets)"],
    'trusted_base': ['axioms of Phi^-1 / log10 for the quantile lemma'],
    'rule': "each comparison of two assessments is one case",
}
