"""C19 - mesh operators are exact on linear fields and respect mesh connectivity."""
import z3
from pv.api import obligation
from pv.bounded import bounded
from pv.sym import SV, RV
from pv.interp import Obj, PList

G3 = 'pylife/mesh/gradient.py::Gradient3D'


class ElementFrame:
    """stand-in for the per-element DataFrame handed to Gradient3D._compute_gradient_*: rows = nodes, columns x, y, z, value, grad_x, grad_y, grad_z.
    Supports exactly the accesses the real code makes (df.iloc[r, :3], df.iloc[:n, 3], df.iloc[r, 4:7] = ..., df['grad_x'] = 0.0)."""
    def __init__(self, coords, values):
        self.coords = coords          # list of (x, y, z) z3 terms
        self.values = values          # list of z3 terms
        self.grads = {}
        self.cols = {}

    def pv_setitem(self, idx, val):
        self.cols[idx] = val

    def pv_getattr(self, attr):
        if attr == 'iloc':
            return _Iloc(self)
        raise AttributeError(attr)


class _Iloc:
    def __init__(self, ef):
        self.ef = ef

    def pv_getitem(self, idx):
        r, c = idx
        if isinstance(r, int) and isinstance(c, slice) and c.start is None and c.stop == 3:
            return tuple(SV(t) for t in self.ef.coords[r])
        if isinstance(r, slice) and r.start is None and c == 3:
            return _Values(self.ef.values[:r.stop])
        raise KeyError(idx)

    def pv_setitem(self, idx, val):
        r, c = idx
        if isinstance(r, int) and isinstance(c, slice) and c.start == 4 and c.stop == 7:
            self.ef.grads[r] = val
            return
        raise KeyError(idx)


class _Values:
    def __init__(self, vals):
        self.vals = vals

    def pv_getattr(self, attr):
        if attr == 'iloc':
            return self
        raise AttributeError(attr)

    def pv_getitem(self, i):
        return SV(self.vals[i])


def linear_field(o, n):
    g = o.reals('g1 g2 g3')
    c = o.real('c0')
    coords = [tuple(o.real(f'x{a + 1}{j + 1}') for j in range(3)) for a in range(n)]
    vals = [g[0] * x + g[1] * y + g[2] * z + c for (x, y, z) in coords]
    return g, coords, vals


def run_element(o, method, n, label):
    g, coords, vals = linear_field(o, n)
    ef = ElementFrame(coords, vals)
    acc = Obj(o.cls(G3))
    ps = o.paths(lambda: o.I.call(o.method(acc, method), [ef]))
    rets = [p for p in ps if p.kind == 'return']
    return g, ef, ps, rets


@obligation('C19', 'gradient3d.simplex-exact', functions=[G3 + '._compute_gradient_simplex', G3 + '._compute_gradient_simplex_single_node', G3 + '._initialize_ansatz_function_derivative_simplex'])
def simplex_exact(o):
    """tetrahedral element: for nodal values f_a = g . x_a + c and a non-degenerate element (det J != 0) the computed gradient at every node is g
    (rational identity in the node coordinates, discharged by sympy with J^-1 = adj J / det J)"""
    g, coords, vals = linear_field(o, 4)

    def thunk():
        ef = ElementFrame(coords, vals)
        o.I.call(o.method(Obj(o.cls(G3)), '_compute_gradient_simplex'), [ef])
        return ef
    ps = o.paths(thunk)
    rets = [p for p in ps if p.kind == 'return']
    o.prove('two paths, both return: regular Jacobian / singular Jacobian', z3.BoolVal(len(ps) == 2 and len(rets) == 2))
    written = 0
    for i, p in enumerate(rets):
        o.take_side_obligations(p, f'simplex.path{i}')
        ef = p.result
        if ef.grads:
            written += 1
            o.prove('regular Jacobian: the gradient of all four nodes is written', z3.BoolVal(sorted(ef.grads) == [0, 1, 2, 3]))
            for node in sorted(ef.grads):
                res = as_list(ef.grads[node])
                for k in range(3):
                    o.prove(f'node {node}: d f / d x_{k + 1} == g_{k + 1}', term(res[k]) == g[k], under=p.pc, kind='poly', poly=True)
    o.prove('exactly one path writes gradients', z3.BoolVal(written == 1))
    o.trusted("sympy rational-function arithmetic (cancel / together) as back end of the exactness identities")


@obligation('C19', 'gradient3d.hexahedral-exact', functions=[G3 + '._compute_gradient_hexahedral', G3 + '._compute_gradient_hexahedral_single_node', G3 + '._initialize_ansatz_function_derivative_hexahedral'], tier='quick')
def hexahedral_exact(o):
    """hexahedral element with arbitrary (perturbed) corner positions: for f_a = g . x_a + c the gradient computed at each of the eight corners whose
    Jacobian is regular equals g (the code's explicit Jacobian entries; one rational identity per corner and direction, sympy)"""
    from pv import npmodel
    g, coords, vals = linear_field(o, 8)
    ef = ElementFrame(coords, vals)
    # the path of a non-degenerate element: every branch condition is evaluated on a concrete witness element (a unit cube with rationally perturbed corners and a
    # concrete linear field), whatever form the code's regularity test has (a first version fixed the path as "eight times the True branch": seed C19-c, which tests
    # the determinant before inverting, would only have been noticed as a changed path shape)
    import fractions
    cube = [(0, 0, 0), (1, 0, 0), (1, 1, 0), (0, 1, 0), (0, 0, 1), (1, 0, 1), (1, 1, 1), (0, 1, 1)]
    wit = []
    for a_, (cx, cy, cz) in enumerate(cube):
        for j, cc in enumerate((cx, cy, cz)):
            wit.append((coords[a_][j], z3.RealVal(fractions.Fraction(cc) + fractions.Fraction((7 * a_ + 3 * j) % 11 - 5, 97))))
    wit += [(g[0], z3.RealVal(2)), (g[1], z3.RealVal(-3)), (g[2], z3.RealVal(5)), (o.inputs['c0'], z3.RealVal(7))]
    undecided = []

    def oracle(cond):
        v = z3.simplify(z3.substitute(cond, *wit))
        if z3.is_true(v):
            return True
        if z3.is_false(v):
            return False
        undecided.append(cond)
        return True
    o.I.run_id += 1
    o.I.begin_path([])
    o.I.oracle = oracle
    o.I.keep_raw_conditions = True          # branch facts keep the determinant terms as the library models built them (they are abstracted below)
    try:
        o.I.call(o.method(Obj(o.cls(G3)), '_compute_gradient_hexahedral'), [ef])
    finally:
        o.I.oracle = None
        o.I.keep_raw_conditions = False
    pc = list(o.I.path.pc)
    for a in o.I.used_assumptions:
        o.trusted(npmodel.A_TEXT.get(a, a))
    o.shape('every branch condition is decided by the witness element', not undecided, [str(u)[:80] for u in undecided[:2]])
    dets = []
    for rec in o.I.inv_records:
        if not any(rec['det'].eq(d) for d in dets):
            dets.append(rec['det'])
    o.prove('a Jacobian determinant is formed at each of the eight corners', z3.BoolVal(len(dets) == 8))
    # the path is the one every non-degenerate element takes: each of its branch facts follows from "all eight corner Jacobians are regular" (the determinant
    # terms are abstracted to variables: the implication must hold whatever their values are, e.g. however small a regular determinant is)
    ds = [z3.Real(f'detJ_{k}') for k in range(len(dets))]
    regular = z3.And(*[d != 0 for d in ds]) if ds else z3.BoolVal(True)
    for k, fact in enumerate(pc):
        o.prove(f'branch fact {k} of the path holds for every element with regular corner Jacobians', z3.Implies(regular, z3.substitute(fact, *zip(dets, ds))), only=[])
    o.prove('all eight corners were written', z3.BoolVal(sorted(ef.grads) == list(range(8))))
    for node in sorted(ef.grads):
        res = as_list(ef.grads[node])
        for k in range(3):
            o.prove(f'corner {node}: d f / d x_{k + 1} == g_{k + 1}', term(res[k]) == g[k], under=pc, kind='poly', poly=True)
    # the same element routine on an accessor object that has processed a tetrahedron before (mixed meshes: the element routines are methods of one object and are
    # called element by element in id order; whatever they keep on the object between calls must not change the result) - added after seed C19-d set up the hexahedral
    # ansatz functions "only once".  Two corners, one identity per direction.
    acc = Obj(o.cls(G3))
    unit_tet = [(0, 0, 0), (1, 0, 0), (0, 1, 0), (0, 0, 1)]
    tet = ElementFrame([tuple(z3.RealVal(v) for v in p) for p in unit_tet], [z3.RealVal(2 * x - 3 * y + 5 * z_ + 7) for x, y, z_ in unit_tet])
    ef2 = ElementFrame(coords, vals)
    o.I.run_id += 1
    o.I.begin_path([])
    o.I.oracle = oracle
    o.I.keep_raw_conditions = True
    try:
        o.I.call(o.method(acc, '_compute_gradient_simplex'), [tet])
        o.I.call(o.method(acc, '_compute_gradient_hexahedral'), [ef2])
    finally:
        o.I.oracle = None
        o.I.keep_raw_conditions = False
    pc2 = list(o.I.path.pc)
    o.prove('after a tetrahedron on the same object: all eight corners were written', z3.BoolVal(sorted(ef2.grads) == list(range(8))))
    for node in (0, 6):
        if node in ef2.grads:
            res = as_list(ef2.grads[node])
            for k in range(3):
                o.prove(f'after a tetrahedron on the same object: corner {node}: d f / d x_{k + 1} == g_{k + 1}', term(res[k]) == g[k], under=pc2, kind='poly', poly=True)
    o.trusted("sympy rational-function arithmetic (cancel / together) as back end of the exactness identities")
    o.note("corners with a singular Jacobian are skipped by the code (gradient stays 0.0): outside 'non-degenerate mesh'")


def as_list(v):
    return list(v.items) if hasattr(v, 'items') and not isinstance(v, dict) else list(v)


def term(v):
    from pv.npmodel import lift
    return lift(v).t if not z3.is_expr(v) else v


# ---------------------------------------------------------------------------------------------
def block_mesh(nx, ny, nz, rng, perturb=0.15, node_ids='contiguous', elem_ids='contiguous', shuffle=False, tets=False):
    """hexahedral (or tetrahedral, by splitting each cell into 6) block mesh as a pyLife mesh frame with index (element_id, node_id)"""
    import numpy as np
    import pandas as pd
    pts = {}
    for i in range(nx + 1):
        for j in range(ny + 1):
            for k in range(nz + 1):
                p = np.array([i, j, k], dtype=float)
                p += rng.uniform(-perturb, perturb, 3)
                pts[(i, j, k)] = p
    keys = sorted(pts)
    n = len(keys)
    if node_ids == 'contiguous':
        ids = list(range(1, n + 1))
    elif node_ids == 'shifted':
        ids = list(range(101, 101 + n))
    elif node_ids == 'gapped':
        ids = [3 * q + 2 for q in range(n)]
    else:
        ids = list(rng.permutation(np.arange(1, n + 1) * 7))
    nid = dict(zip(keys, ids))
    rows = []
    eid = 0
    hexorder = [(0, 0, 0), (1, 0, 0), (1, 1, 0), (0, 1, 0), (0, 0, 1), (1, 0, 1), (1, 1, 1), (0, 1, 1)]
    tetsplit = [(0, 1, 2, 6), (0, 2, 3, 6), (0, 3, 7, 6), (0, 7, 4, 6), (0, 4, 5, 6), (0, 5, 1, 6)]
    for i in range(nx):
        for j in range(ny):
            for k in range(nz):
                corners = [(i + a, j + b, k + c) for a, b, c in hexorder]
                cells = [[corners[q] for q in t] for t in tetsplit] if tets else [corners]
                for cell in cells:
                    eid += 1
                    e = {'contiguous': eid, 'shifted': 1000 + eid, 'gapped': 5 * eid, 'permuted': 10_000 - 13 * eid}[elem_ids]
                    for cnr in cell:
                        rows.append((e, nid[cnr], *pts[cnr]))
    df = pd.DataFrame(rows, columns=['element_id', 'node_id', 'x', 'y', 'z']).set_index(['element_id', 'node_id'])
    if shuffle:
        # keep the node order within an element (connectivity), shuffle the elements
        order = list(dict.fromkeys(df.index.get_level_values('element_id')))
        rng.shuffle(order)
        df = pd.concat([df.xs(e, level='element_id', drop_level=False) for e in order])
    return df


@bounded('C19', 'gradients-linear-field', shards=8)
def b_gradients(ctx):
    """both gradient operators on perturbed hexahedral / tetrahedral block meshes with contiguous, shifted, gapped and permuted node / element ids and shuffled
    element order: the nodal gradient of a linear field equals its constant gradient at every node"""
    import itertools
    import warnings
    import numpy as np
    import pylife.mesh   # noqa
    warnings.simplefilter('ignore')
    sizes = [(2, 1, 1), (2, 2, 1)] if ctx.tier == 'quick' else [(2, 1, 1), (2, 2, 1), (2, 2, 2), (3, 2, 2)]
    numberings = ['contiguous', 'shifted', 'gapped', 'permuted']
    ctx.bound = f"block meshes {sizes} (hexahedra, and each cell split into 6 tetrahedra), node positions perturbed by <= 0.15, node ids x element ids in {numberings}^2, element order shuffled / not, 2 linear fields; the contiguous meshes also with coordinates scaled by 1e-3 and 1e3; assemblies of a hexahedral and a tetrahedral part with 3 relative element-id orders x 2 row orders"
    ctx.rule = "non-trivial: ids not 1..N in order, or scaled coordinates; distinct by (operator, mesh, numbering, scale)"
    ctx.exhaustive = True
    fields = [(np.array([1.0, -2.0, 0.5]), 3.0), (np.array([0.0, 0.0, 7.0]), -1.0)]
    for size, nn, en, shuffle, tets in itertools.product(sizes, numberings, numberings, (False, True), (False, True)):
        if not ctx.mine():
            continue
        rng = np.random.default_rng(ctx.seed * 0 + 5)
        mesh0 = block_mesh(*size, rng, node_ids=nn, elem_ids=en, shuffle=shuffle, tets=tets)
        # the unit of length is the user's: the same mesh in millimetre-sized and kilometre-sized coordinates (added after seed C19-c, which skipped corners whose
        # Jacobian determinant is small in absolute terms)
        scales = (1.0, 1e-3, 1e3) if (nn == 'contiguous' and en == 'contiguous' and not shuffle) else (1.0,)
        for (g, c), scale in itertools.product(fields, scales):
            mesh = mesh0.copy()
            mesh[['x', 'y', 'z']] = mesh[['x', 'y', 'z']] * scale
            df = mesh.copy()
            df['f'] = df[['x', 'y', 'z']].to_numpy() @ g + c
            if scale == 1.0 and nn == 'gapped':
                df = df[['f', 'z', 'y', 'x']].assign(note=1.0)      # the mesh frame is identified by its column names: another column order, a further column
            for op in ('gradient_3D', 'gradient'):
                if op == 'gradient' and tets and size != (2, 1, 1):
                    continue
                ctx.case(nn != 'contiguous' or en != 'contiguous' or shuffle or scale != 1.0, key=(op, size, nn, en, shuffle, tets, tuple(g), scale))
                try:
                    res = getattr(df, op).gradient_of('f')
                except Exception as e:   # noqa
                    ctx.fail(f'C19:{op}:raises:{type(e).__name__}:node-ids-{nn}', f'{op}.gradient_of raises {type(e).__name__}: {e} (mesh {size}, node ids {nn}, element ids {en}, shuffled {shuffle}, tets {tets})',
                             {'mesh': size, 'node_ids': nn, 'elem_ids': en, 'shuffle': shuffle, 'tets': tets})
                    continue
                got = res[['df_dx', 'df_dy', 'df_dz']].to_numpy()
                nodes = set(df.index.get_level_values('node_id'))
                if set(res.index) != nodes:
                    ctx.fail(f'C19:{op}:nodes:node-ids-{nn}', f'{op}: result covers nodes {sorted(set(res.index))[:5]}..., mesh has {sorted(nodes)[:5]}...', {'mesh': size, 'node_ids': nn})
                    continue
                if not np.allclose(got, g, rtol=1e-7, atol=1e-7):
                    worst = np.abs(got - g).max()
                    ctx.fail(f'C19:{op}:value:node-ids-{nn}', f'{op}: gradient of a linear field deviates by {worst:.3e} (mesh {size} x {scale}, node ids {nn}, element ids {en}, shuffled {shuffle}, tets {tets})',
                             {'mesh': size, 'node_ids': nn, 'elem_ids': en, 'shuffle': shuffle, 'tets': tets, 'scale': scale})
    # assemblies that mix hexahedra and tetrahedra in one mesh frame (two separate parts), the element ids of the two kinds in every relative order - the element
    # routines are methods of one accessor object and run element by element in id order (added after seed C19-d kept the hexahedral ansatz functions "set up once")
    if ctx.shard == 0:
        import pandas as pd
        rng = np.random.default_rng(5)
        hexes = block_mesh(2, 1, 1, rng).reset_index()
        tets = block_mesh(1, 1, 1, rng, tets=True).reset_index()
        tets['node_id'] += 1000
        tets['x'] += 10.0
        nh, nt = hexes.element_id.nunique(), tets.element_id.nunique()
        orders = {'hexahedra-first': (list(range(1, nh + 1)), list(range(101, 101 + nt))), 'tetrahedra-first': (list(range(101, 101 + nh)), list(range(1, nt + 1))),
                  'interleaved': ([1, 50][:nh], list(range(2, 2 + nt)))}
        for oname, (hid, tid) in orders.items():
            h2, t2 = hexes.copy(), tets.copy()
            h2['element_id'] = h2.element_id.map(dict(zip(sorted(hexes.element_id.unique()), hid)))
            t2['element_id'] = t2.element_id.map(dict(zip(sorted(tets.element_id.unique()), tid)))
            for first in ('hex-rows-first', 'tet-rows-first'):
                mesh = pd.concat([h2, t2] if first == 'hex-rows-first' else [t2, h2]).set_index(['element_id', 'node_id'])
                for g, c in fields:
                    df = mesh.copy()
                    df['f'] = df[['x', 'y', 'z']].to_numpy() @ g + c
                    ctx.case(True, key=('mixed', oname, first, tuple(g)))
                    try:
                        res = df.gradient_3D.gradient_of('f')
                    except Exception as e:   # noqa
                        ctx.fail(f'C19:gradient_3D:mixed-mesh:raises:{type(e).__name__}', f'gradient_3D on a mesh of hexahedra and tetrahedra ({oname}, {first}) raises {type(e).__name__}: {e}', {'order': oname})
                        continue
                    got = res[['df_dx', 'df_dy', 'df_dz']].to_numpy()
                    if set(res.index) != set(df.index.get_level_values('node_id')) or not np.allclose(got, g, rtol=1e-7, atol=1e-7):
                        ctx.fail(f'C19:gradient_3D:mixed-mesh:{oname}', f'gradient_3D on a mesh of hexahedra and tetrahedra (element ids {oname}, {first}): gradient of a linear field deviates by {np.abs(got - g).max():.3e}',
                                 {'order': oname, 'rows': first})
    ctx.sample({'mesh': (2, 2, 1), 'node_ids': 'gapped', 'field': 'f = x - 2y + 0.5z + 3'})


@bounded('C19', 'mapping-surface-hotspots', shards=4)
def b_other(ctx):
    """mesh mapping onto the same points returns the field, linear fields are reproduced at interior points; surface detection flags exactly the boundary nodes of a
    hexahedral block mesh; hot spots: exactly the entries >= fraction * max are labelled, labels = connected components under shared-node / shared-element
    adjacency, numbered by descending peak value"""
    import itertools
    import warnings
    import numpy as np
    import pandas as pd
    import pylife.mesh   # noqa
    warnings.simplefilter('ignore')
    rng = np.random.default_rng(11)
    ctx.bound = "block meshes (2,2,2), (3,2,2), (3,3,2); 3 seeded value fields; threshold fractions {0.3, 0.6, 0.9, 1.0}; numberings contiguous / gapped / permuted with shuffled elements; nodal and element-nodal values"
    ctx.rule = "each (mesh, numbering, field, threshold) is one case"
    sizes = [(2, 2, 2), (3, 2, 2)] if ctx.tier == 'quick' else [(2, 2, 2), (3, 2, 2), (3, 3, 2), (4, 3, 2)]
    for idx, (size, nn) in enumerate(itertools.product(sizes, ('contiguous', 'gapped', 'permuted'))):
        if idx % ctx.nshards != ctx.shard:
            continue
        mesh = block_mesh(*size, np.random.default_rng(3), perturb=0.0, node_ids=nn, elem_ids=nn, shuffle=(nn == 'permuted'))
        # surface
        try:
            surf = mesh.surface_3D.is_at_surface()
            xyz = mesh[['x', 'y', 'z']].to_numpy()
            boundary = ((xyz[:, 0] == 0) | (xyz[:, 0] == size[0]) | (xyz[:, 1] == 0) | (xyz[:, 1] == size[1]) | (xyz[:, 2] == 0) | (xyz[:, 2] == size[2]))
            ctx.case(True, key=('surface', size, nn))
            # the result is labelled by (element_id, node_id), rows in sorted order: compare by label
            if set(surf.index) != set(mesh.index) or not np.array_equal(np.asarray(surf.reindex(mesh.index), dtype=bool), boundary):
                ctx.fail(f'C19:surface:node-ids-{nn}', f'is_at_surface differs from the boundary nodes of the block mesh {size} (node ids {nn})', {'mesh': size, 'node_ids': nn})
        except Exception as e:   # noqa
            ctx.fail(f'C19:surface:raises:{type(e).__name__}:node-ids-{nn}', f'is_at_surface raises {type(e).__name__}: {e} (mesh {size}, ids {nn})', {'mesh': size, 'node_ids': nn})
        # mapping
        g, c = np.array([1.0, -2.0, 0.5]), 3.0
        src = mesh.copy()
        src['f'] = src[['x', 'y', 'z']].to_numpy() @ g + c
        try:
            same = mesh.meshmapper.process(src, 'f')
            ctx.case(True, key=('mapping', size, nn))
            if not np.allclose(np.asarray(same['f'], dtype=float), src['f'].to_numpy(), rtol=1e-9, atol=1e-9):
                ctx.fail(f'C19:mapping-identity:node-ids-{nn}', f'mapping the field of mesh {size} onto the same points does not return the field', {'mesh': size, 'node_ids': nn})
            inner = pd.DataFrame({'x': [0.5, 1.2], 'y': [0.7, 1.1], 'z': [0.4, 0.9]}, index=pd.MultiIndex.from_tuples([(1, 1), (1, 2)], names=['element_id', 'node_id']))
            mapped = inner.meshmapper.process(src, 'f')
            want = inner[['x', 'y', 'z']].to_numpy() @ g + c
            if not np.allclose(np.asarray(mapped['f'], dtype=float), want, rtol=1e-9, atol=1e-9):
                ctx.fail(f'C19:mapping-linear:node-ids-{nn}', 'linear field not reproduced at interior points', {'mesh': size, 'node_ids': nn})
            # target sets that are degenerate as a point cloud: a single interior point, points of a section plane z = const, points on a line
            # (added after seed C19-b chose the interpolation columns from the dimension of the TARGET set)
            targets = {'single-point': [(0.37, 0.52, 0.61)], 'section-plane': [(0.3, 0.4, 0.43), (1.2, 0.7, 0.43), (0.9, 1.3, 0.43), (1.6, 0.2, 0.43)],
                       'line': [(0.5, 0.6, 0.2), (0.5, 0.6, 0.7), (0.5, 0.6, 1.4)]}
            for tname, pts in targets.items():
                pts = [p_ for p_ in pts if all(0 < p_[k] < size[k] for k in range(3))]
                if not pts:
                    continue
                tgt = pd.DataFrame(pts, columns=['x', 'y', 'z'], index=pd.MultiIndex.from_tuples([(1, q + 1) for q in range(len(pts))], names=['element_id', 'node_id']))
                ctx.case(True, key=('mapping', size, nn, tname))
                try:
                    mp = tgt.meshmapper.process(src, 'f')
                    w2 = tgt[['x', 'y', 'z']].to_numpy() @ g + c
                    if not np.allclose(np.asarray(mp['f'], dtype=float), w2, rtol=1e-9, atol=1e-9):
                        ctx.fail(f'C19:mapping-linear:{tname}', f'linear field not reproduced on the target set {tname} {pts} (mesh {size}): got {np.asarray(mp["f"]).tolist()}, want {w2.tolist()}',
                                 {'mesh': size, 'node_ids': nn, 'targets': pts})
                except Exception as e:   # noqa
                    ctx.fail(f'C19:mapping:raises:{tname}:{type(e).__name__}', f'meshmapper raises {type(e).__name__}: {e} on the target set {tname}', {'mesh': size, 'targets': pts})
        except Exception as e:   # noqa
            ctx.fail(f'C19:mapping:raises:{type(e).__name__}', f'meshmapper raises {type(e).__name__}: {e}', {'mesh': size, 'node_ids': nn})
        # hot spots
        for fi in range(4):
            vals = rng.uniform(0, 1, len(mesh)) ** 3
            if fi == 3:
                # a field whose maximum is NEGATIVE (compressive / minimum principal stress): "at or above limit_frac x max" is meant literally, fractions above
                # one widen the region (added after seed C19-i divided by the maximum, which reverses the comparison for a negative maximum)
                vals = -0.5 - vals
            # nodal values: one value per node (mesh rows of one node share it)
            # fields 0 and 1 nodal (rows of one node share the value), field 2 element-nodal (one value per row)
            node_val = pd.Series(vals, index=mesh.index).groupby('node_id').transform('first') if fi in (0, 1, 3) else pd.Series(vals, index=mesh.index)
            hs = mesh.copy()
            hs['v'] = node_val
            for frac in ((0.3, 0.6, 0.9, 1.0) if fi < 3 else (0.9, 1.0, 1.25, 2.0)):
                ctx.case(True, key=('hotspot', size, nn, fi, frac))
                try:
                    lab = hs.hotspot.calc('v', frac)
                except Exception as e:   # noqa
                    ctx.fail(f'C19:hotspot:raises:{type(e).__name__}', f'hotspot.calc raises {type(e).__name__}: {e}', {'mesh': size, 'frac': frac})
                    continue
                lab = np.asarray(lab)
                above = hs['v'].to_numpy() >= frac * hs['v'].max()
                if not np.array_equal(lab > 0, above):
                    ctx.fail('C19:hotspot:threshold', f'labelled entries differ from entries >= {frac} * max (mesh {size})', {'mesh': size, 'frac': frac})
                    continue
                # components of the entries above the limit: rows adjacent if they share the node id or the element id
                rows = [r for r in range(len(hs)) if above[r]]
                parent = {r: r for r in rows}

                def find(r):
                    while parent[r] != r:
                        parent[r] = parent[parent[r]]
                        r = parent[r]
                    return r
                eids = hs.index.get_level_values('element_id').to_numpy()
                nids = hs.index.get_level_values('node_id').to_numpy()
                for key in (eids, nids):
                    groups = {}
                    for r in rows:
                        groups.setdefault(key[r], []).append(r)
                    for grp in groups.values():
                        for a, b in zip(grp[:-1], grp[1:]):
                            parent[find(a)] = find(b)
                comps = {}
                for r in rows:
                    comps.setdefault(find(r), set()).add(r)
                comps = list(comps.values())
                peaks = sorted(((hs['v'].to_numpy()[list(cmp_)].max(), cmp_) for cmp_ in comps), key=lambda t: -t[0])
                ok = len(set(lab[lab > 0])) == len(comps)
                for rank, (pk, cmp_) in enumerate(peaks, start=1):
                    labs = set(lab[list(cmp_)])
                    if len(labs) != 1:
                        ok = False
                    elif len({p for p, _ in peaks}) == len(peaks) and labs != {rank}:
                        ok = False
                if not ok:
                    ctx.fail('C19:hotspot:components', f'hot spot labels are not the connected components numbered by descending peak (mesh {size}, fraction {frac})', {'mesh': size, 'frac': frac, 'field': fi})
    ctx.sample({'mesh': (2, 2, 2), 'operator': 'surface_3D / meshmapper / hotspot'})


META = {
    'level': 'other',
    'explanation': "mixed. Proved: the real element routines of Gradient3D, run symbolically on an element-frame stand-in, reproduce the constant gradient of a linear field at every "
                   "node of an arbitrary non-degenerate tetrahedron and at every regular corner of an arbitrary (perturbed) hexahedron - rational identities discharged by sympy over "
                   "the assumed contract of np.linalg.inv. The least-squares operator, id / row-order handling (pandas group-by), mapping (scipy griddata), surface detection and "
                   "hot-spot region growing are bounded on generated block meshes with contiguous, shifted, gapped and permuted numberings.",
    'not_decided': ["least-squares gradient, mapping, surface and hot spots beyond the generated meshes", "quadratic elements (mid-side nodes are ignored by the element routines)"],
    'trusted_base': ['assumed contract of np.linalg.inv', 'sympy cancel/together', 'element-frame stand-in for pandas iloc access', 'floats = reals'],
}
