"""Ghost values for contracts over code that talks to libraries the generator does not model.

Havoc      an arbitrary Python object.  Every operation on it (call, attribute, item, arithmetic, comparison, truth test, iteration) may raise or
           return another arbitrary object; a failing operation forks the path (decision on a fresh Boolean), so that *every* crash point of the
           interpreted function is explored.  Nothing is assumed about a Havoc value.
HavocNS    a library namespace all of whose members are Havoc (numpy / pandas in code whose numeric content is irrelevant to the contract).
GhostFile  an abstract HDF5 file: a tree of groups / datasets with attributes.  The part of the tree that existed before the call is unknown: the first
           question about a child of an old group introduces a fresh Boolean `present`.  Operations follow h5py: item access raises KeyError on an absent
           path, create_group / create_dataset raise on an existing name, del removes the whole subtree, attrs is a map.  Every operation may also fail
           for an unknown reason, before it has had any effect; create_dataset may in addition fail after the (then partial) dataset exists.
           Every mutation is logged for frame conditions.
"""
import z3

from .interp import PyRaise, Unsupported
from .sym import SV


class World:
    def __init__(self, I, can_fail=True):
        """can_fail=False explores only the executions in which no ghost operation raises - sufficient (and sound) for contracts that constrain returning paths only"""
        self.I = I
        self.failures = 0
        self.in_generic_loop = 0
        self.can_fail = can_fail

    def may_fail(self, what, kinds=('Exception', 'KeyError')):
        """fork: the operation raises (one path per kind of exception) / the operation succeeds"""
        I = self.I
        if not self.can_fail:
            return
        self.failures += 1
        if I.decide(I.fresh('fails', 'bool')):
            kind = kinds[0]
            for k in kinds[1:]:
                if I.decide(I.fresh('as_' + k, 'bool')):
                    kind = k
                    break
            raise PyRaise(kind, f'ghost: {what} fails')


class Havoc:
    pv_havoc = True

    def __init__(self, world, label='?'):
        self.world = world
        self.label = label

    def _new(self, what):
        return Havoc(self.world, what)

    def __call__(self, *args, **kwargs):
        self.world.may_fail(f'call of {self.label}')
        return self._new(self.label + '()')

    def pv_getattr(self, attr):
        self.world.may_fail(f'{self.label}.{attr}')
        return self._new(f'{self.label}.{attr}')

    def pv_getitem(self, idx):
        self.world.may_fail(f'{self.label}[...]')
        return self._new(self.label + '[]')

    def pv_setitem(self, idx, val):
        self.world.may_fail(f'{self.label}[...] = ...')

    def pv_setattr(self, attr, val):
        self.world.may_fail(f'{self.label}.{attr} = ...')

    def pv_binop(self, other):
        self.world.may_fail(f'arithmetic on {self.label}')
        return self._new('op')

    def pv_compare(self, other):
        self.world.may_fail(f'comparison of {self.label}')
        return self._new('cmp')

    def pv_contains(self, item):
        self.world.may_fail(f'in {self.label}')
        return SV(self.world.I.fresh('contains', 'bool'))

    def pv_truth(self):
        self.world.may_fail(f'truth of {self.label}')
        return self.world.I.fresh('truth', 'bool')

    def pv_len(self):
        self.world.may_fail(f'len of {self.label}')
        n = self.world.I.fresh('len', 'int')
        self.world.I.assume(n >= 0)
        return SV(n)

    def pv_isinstance(self, cls):
        return SV(self.world.I.fresh('isinstance', 'bool'))

    def pv_iter(self):
        self.world.may_fail(f'iter of {self.label}')
        return self

    def __repr__(self):
        return f'Havoc({self.label})'


class HavocNS:
    """library namespace: members are arbitrary objects"""
    def __init__(self, world, name):
        self.world = world
        self.name = name

    def get(self, attr):
        return Havoc(self.world, f'{self.name}.{attr}')

    def pv_getattr(self, attr):
        return self.get(attr)


# ---------------------------------------------------------------------------------------------
class Entry:
    def __init__(self, present, node):
        self.present = present      # python bool or z3 Bool
        self.node = node


class GAttrs:
    def __init__(self, node):
        self.node = node
        self.values = {}

    def pv_getattr(self, attr):
        if attr == 'create':
            return self.create
        raise Unsupported(f'attrs.{attr}')

    def create(self, name, value, *a, **k):
        self.node.world.may_fail(f'attrs.create({name})')
        self._set(name, value)

    def _set(self, name, value):
        self.values[name] = value
        self.node.file.log.append(('attr', self.node.path, name, self.node.origin))

    def pv_setitem(self, name, value):
        self.node.world.may_fail(f'attrs[{name}] = ...')
        self._set(name, value)

    def pv_getitem(self, name):
        w = self.node.world
        w.may_fail(f'attrs[{name}]')
        if name in self.values:
            return self.values[name]
        if self.node.origin == 'new':
            raise PyRaise('KeyError', f'attribute {name}')
        # attribute of an object that existed before: unknown; counters are integers
        if name == 'MYSIZE':
            v = SV(w.I.fresh(f'old_{name}', 'int'))
            self.node.initial_attrs[name] = v
        else:
            v = Havoc(w, f'attrs[{name}]')
        self.values[name] = v
        return v


class GNode:
    """group or dataset of the abstract HDF5 file"""
    def __init__(self, file, origin, path, kind='group'):
        self.file = file
        self.world = file.world
        self.origin = origin        # 'old': existed before the call (content unknown) / 'new': created by the call (content known)
        self.path = path
        self.kind = kind
        self.children = {}
        self.attrs = GAttrs(self)
        self.initial_attrs = {}
        self.partial = False

    # -- navigation
    def _entry(self, name):
        e = self.children.get(name)
        if e is None:
            if self.origin == 'old':
                node = GNode(self.file, 'old', f'{self.path}/{name}')
                e = Entry(self.world.I.fresh('present', 'bool'), node)
                self.file.initial[node.path] = e.present
            else:
                e = Entry(False, None)
            self.children[name] = e
        return e

    def _resolve(self, path, for_what):
        if not isinstance(path, str):
            raise Unsupported(f'h5 path is not a concrete string: {path!r}')
        node = self.file.root if path.startswith('/') else self
        for part in [p for p in path.split('/') if p]:
            e = node._entry(part)
            p = e.present
            if not (p if isinstance(p, bool) else self.world.I.decide(p)):
                raise PyRaise('KeyError', f'{for_what}: {node.path}/{part} does not exist')
            if not isinstance(p, bool):
                e.present_known = True
            node = e.node
        return node

    def pv_getitem(self, path):
        self.world.may_fail(f'{self.path}[{path}]')
        return self._resolve(path, 'getitem')

    def pv_contains(self, name):
        self.world.may_fail(f'{name} in {self.path}')
        if not isinstance(name, str) or '/' in name:
            raise Unsupported('in with a path')
        p = self._entry(name).present
        return p if isinstance(p, bool) else SV(p)

    def pv_len(self):
        self.world.may_fail(f'len({self.path})')
        n = self.world.I.fresh('nchildren', 'int')
        self.world.I.assume(n >= 0)
        return SV(n)

    def pv_truth(self):
        return True

    def pv_delitem(self, name):
        self._mutating()
        # assumption (listed): deleting an existing child does not fail and removes the whole subtree
        if not isinstance(name, str) or '/' in name:
            raise Unsupported('del with a path')
        e = self._entry(name)
        p = e.present
        if not (p if isinstance(p, bool) else self.world.I.decide(p)):
            raise PyRaise('KeyError', f'del: {self.path}/{name} does not exist')
        self.file.log.append(('delete', f'{self.path}/{name}', None, e.node.origin))
        self.children[name] = Entry(False, None)

    def _mutating(self):
        if self.world.in_generic_loop:
            raise Unsupported('HDF5 mutation inside a loop without invariant')

    def pv_getattr(self, attr):
        if attr == 'attrs':
            return self.attrs
        if attr == 'create_group':
            return self.create_group
        if attr == 'create_dataset':
            return self.create_dataset
        if attr == 'keys':
            return lambda: Havoc(self.world, 'keys')
        raise Unsupported(f'h5 attribute {attr}')

    def _create(self, name, kind):
        if not isinstance(name, str) or '/' in name:
            raise Unsupported('create with a path')
        e = self._entry(name)
        p = e.present
        if p if isinstance(p, bool) else self.world.I.decide(p):
            raise PyRaise('ValueError', f'{self.path}/{name} already exists')
        node = GNode(self.file, 'new', f'{self.path}/{name}', kind)
        self.children[name] = Entry(True, node)
        self.file.log.append(('create', node.path, kind, 'new'))
        return node

    def create_group(self, name, *a, **k):
        self._mutating()
        self.world.may_fail(f'create_group({name})')
        return self._create(name, 'group')

    def create_dataset(self, name, *a, **k):
        self._mutating()
        self.world.may_fail(f'create_dataset({name})')
        node = self._create(name, 'dataset')
        # writing the data may fail after the dataset has been created
        node.partial = True
        self.world.may_fail(f'writing the data of {name}')
        node.partial = False
        return node


class GhostFile:
    def __init__(self, world, layout):
        """layout: nested dict of the groups known to exist (e.g. {'VMAP': {'GEOMETRY': {}, 'VARIABLES': {}}}); everything else is unknown"""
        self.world = world
        self.log = []
        self.initial = {}
        self.root = GNode(self, 'old', '')

        def fill(node, d):
            for k, v in d.items():
                child = GNode(self, 'old', f'{node.path}/{k}')
                node.children[k] = Entry(True, child)
                fill(child, v)
        fill(self.root, layout)
        self.opened = 0

    def open(self, *a, **k):
        self.world.may_fail('h5py.File', kinds=('Exception', 'OSError'))
        self.opened += 1
        return self.root

    def lookup(self, path):
        """(present, node) of a path in the current state, without forking; None if never touched"""
        node = self.root
        parts = [p for p in path.split('/') if p]
        for i, part in enumerate(parts):
            e = node.children.get(part)
            if e is None:
                return None
            if i == len(parts) - 1:
                return e
            if e.node is None:
                return Entry(False, None)
            node = e.node
        return Entry(True, node)


class H5NS:
    def __init__(self, world, gfile):
        self.world = world
        self.gfile = gfile

    def get(self, attr):
        if attr == 'File':
            return self.gfile.open
        return Havoc(self.world, f'h5py.{attr}')

    def pv_getattr(self, attr):
        return self.get(attr)
