"""Source loading: the verified text is the text in /repo's working tree, re-read on every run.

* .py  : ast.parse of the file, nothing rewritten.
* .pyx : mechanical Cython -> Python stripping (DESIGN 2.1), then ast.parse.  The stripping is
         token/line based and records what it dropped (C types -> side table, decorators that
         switch bounds checking off -> 'unchecked_index' flag per function).
"""
import ast
import hashlib
import os
import re

REPO = os.environ.get('PV_REPO', '/repo')
SRC = os.path.join(REPO, 'src')

_cache = {}


class ModuleInfo:
    def __init__(self, modname, path, source, tree, pyx_meta=None):
        self.name = modname
        self.path = path
        self.source = source
        self.tree = tree
        self.pyx_meta = pyx_meta or {}
        self.defs = {}      # top level name -> ast node (FunctionDef / ClassDef / Assign value)
        self.imports = {}   # local name -> ('module', modname) | ('from', modname, name)
        self.consts = {}    # top level simple assignments name -> ast expr
        self._index()

    def _index(self):
        pkg = self.name.rsplit('.', 1)[0] if '.' in self.name else ''
        is_pkg = os.path.basename(self.path).startswith('__init__')
        for node in self.tree.body:
            if isinstance(node, (ast.FunctionDef, ast.ClassDef)):
                self.defs[node.name] = node
            elif isinstance(node, ast.Import):
                for a in node.names:
                    self.imports[(a.asname or a.name).split('.')[0]] = ('module', a.name if a.asname else a.name.split('.')[0])
            elif isinstance(node, ast.ImportFrom):
                if node.level:
                    base = self.name if is_pkg else pkg
                    for _ in range(node.level - 1):
                        base = base.rsplit('.', 1)[0]
                    mod = base + ('.' + node.module if node.module else '')
                else:
                    mod = node.module
                for a in node.names:
                    self.imports[a.asname or a.name] = ('from', mod, a.name)
            elif isinstance(node, ast.Assign) and len(node.targets) == 1 and isinstance(node.targets[0], ast.Name):
                self.consts[node.targets[0].id] = node.value

    def sha256(self):
        return hashlib.sha256(self.source.encode()).hexdigest()

    def function_source(self, qualname):
        node = self.find(qualname)
        return ast.get_source_segment(self.source, node)

    def find(self, qualname):
        """'Class.method', 'func', 'func.<locals>.inner'"""
        parts = [p for p in qualname.split('.') if p != '<locals>']
        body = self.tree.body
        node = None
        for p in parts:
            node = None
            for n in body:
                if isinstance(n, (ast.FunctionDef, ast.ClassDef)) and n.name == p:
                    node = n
                    break
            if node is None:
                # nested defs may sit deeper in the body (inside with / if)
                for n in body:
                    for sub in ast.walk(n):
                        if isinstance(sub, (ast.FunctionDef, ast.ClassDef)) and sub.name == p:
                            node = sub
                            break
                    if node is not None:
                        break
            if node is None:
                raise KeyError(f"{self.name}: {qualname} not found")
            body = node.body
        return node


def module_path(modname):
    rel = modname.replace('.', '/')
    for cand in (rel + '.py', rel + '/__init__.py', rel + '.pyx'):
        p = os.path.join(SRC, cand)
        if os.path.exists(p):
            return p
    raise FileNotFoundError(modname)


def load_module(modname):
    """modname like 'pylife.materiallaws.rambgood' or 'pylife.stress.rainflow.extension'"""
    if modname in _cache:
        return _cache[modname]
    path = module_path(modname)
    src = open(path, encoding='utf-8').read()
    meta = None
    if path.endswith('.pyx'):
        py, meta = strip_pyx(src)
        tree = ast.parse(py, filename=path)
        mi = ModuleInfo(modname, path, py, tree, meta)
        mi.original_source = src
    else:
        tree = ast.parse(src, filename=path)
        mi = ModuleInfo(modname, path, src, tree)
        mi.original_source = src
    _cache[modname] = mi
    return mi


def clear_cache():
    _cache.clear()


# --------------------------------------------------------------------------------------------
# Cython stripping
# --------------------------------------------------------------------------------------------
_CTYPES = r'(?:double|float|int|long|size_t|Py_ssize_t|unsigned\s+int|bint)'
_MV = r'(?:\s*\[\s*:(?::\s*1)?\s*(?:,\s*:(?::\s*1)?\s*)*\])?'


def strip_pyx(src):
    """Return (python_source, meta).  Line numbers are preserved (one output line per input line).
    meta = {'ctypes': {func: {var: ctype}}, 'unchecked': {func: bool}, 'dropped': [...]}"""
    out = []
    meta = {'ctypes': {}, 'unchecked': {}, 'dropped': []}
    cur_func = None
    pending_unchecked = False
    lines = src.split('\n')
    i = 0
    # join multi-line def signatures first (token aware enough: count parentheses)
    while i < len(lines):
        line = lines[i]
        stripped = line.strip()
        indent = line[:len(line) - len(line.lstrip())]
        if re.match(r'^(c?p?def)\s+.*\($', stripped) or (re.match(r'^(def|cpdef|cdef)\s', stripped) and stripped.count('(') > stripped.count(')')):
            j = i
            buf = line
            while buf.count('(') > buf.count(')') and j + 1 < len(lines):
                j += 1
                buf += ' ' + lines[j].strip()
            lines[i] = buf
            for k in range(i + 1, j + 1):
                lines[k] = indent + '    # (joined)' if False else ''
            line = lines[i]
            stripped = line.strip()
        if stripped.startswith('cimport ') or re.match(r'^from\s+\S+\s+cimport\s', stripped):
            meta['dropped'].append(f"L{i+1}: {stripped}")
            if 'fabs' in stripped:
                out.append(indent + 'from math import fabs')
            else:
                out.append('')
            i += 1
            continue
        m = re.match(r'^@cython\.(boundscheck|wraparound)\((False|True)\)', stripped)
        if m:
            if m.group(2) == 'False':
                pending_unchecked = True
            meta['dropped'].append(f"L{i+1}: {stripped.split('#')[0].strip()}")
            out.append('')
            i += 1
            continue
        m = re.match(r'^(def|cpdef)\s+(?:' + _CTYPES + r'\s+)?(\w+)\s*\((.*)\)\s*:\s*(#.*)?$', stripped)
        if m:
            kind, name, params = m.group(1), m.group(2), m.group(3)
            cur_func = name
            meta['ctypes'][name] = {}
            meta['unchecked'][name] = pending_unchecked
            pending_unchecked = False
            newparams = []
            for p in [q.strip() for q in params.split(',') if q.strip()]:
                pm = re.match(r'^(' + _CTYPES + r')' + _MV + r'\s+(\w+)(\s*=.*)?$', p)
                if pm:
                    ctype = pm.group(1) + ('[]' if '[' in p.split(pm.group(2))[0] else '')
                    meta['ctypes'][name][pm.group(2)] = ctype
                    newparams.append(pm.group(2) + (pm.group(3) or ''))
                else:
                    newparams.append(p)
            out.append(f"{indent}def {name}({', '.join(newparams)}):")
            i += 1
            continue
        m = re.match(r'^cdef\s+(' + _CTYPES + r')(' + _MV + r')\s+(\w+)\s*(=\s*(.*))?$', stripped)
        if m:
            ctype, mv, var, _, rhs = m.group(1), m.group(2), m.group(3), m.group(4), m.group(5)
            if cur_func is not None:
                meta['ctypes'][cur_func][var] = ctype + ('[]' if mv.strip() else '')
            if rhs is not None:
                out.append(f"{indent}{var} = {rhs}")
            else:
                out.append(f"{indent}pass")
            i += 1
            continue
        if stripped.startswith('cdef ') or stripped.startswith('cpdef '):
            raise SyntaxError(f"pyx stripping: unhandled Cython line {i+1}: {stripped}")
        out.append(line)
        i += 1
    return '\n'.join(out), meta
