"""Contract-side API: obligation generators, discharge ladder, verdicts.

A *generator* is a python function registered with @obligation(prop, name, functions=[...]).
It receives an OB, symbolically executes real pyLife functions through it and states goals.
Each goal (and every side obligation raised during symbolic execution: safety, call-pre, deriv,
inv-init, inv-preserve, variant, assert, mask-align, frame) becomes one *item* that the ladder
z3 -> cvc5 -> z3/nlsat discharges.
"""
import hashlib
import os
import subprocess
import tempfile
import time
import traceback
import z3

from . import sym, extract
from .sym import SV, RV, and_, or_
from .interp import (Interp, explore, Unsupported, PyRaise, PathEnd, Obj, Rec, SArr, PList, Func, ClassV,
                     LoopSpec, Spec, Opaque)
from . import npmodel

REGISTRY = {}      # prop -> {name: Gen}


class Gen:
    def __init__(self, prop, name, fn, functions, doc, tier):
        self.prop = prop
        self.name = name
        self.fn = fn
        self.functions = functions
        self.doc = doc
        self.tier = tier


def obligation(prop, name, functions=(), tier='quick'):
    def deco(fn):
        REGISTRY.setdefault(prop, {})[name] = Gen(prop, name, fn, list(functions), (fn.__doc__ or '').strip(), tier)
        return fn
    return deco


def is_nonlinear(t):
    """does t contain a product / quotient of two non-numeral terms, or an uninterpreted theory function?"""
    if isinstance(t, bool):
        return False
    seen, stack = set(), [t]
    while stack:
        x = stack.pop()
        if x.get_id() in seen:
            continue
        seen.add(x.get_id())
        if z3.is_app(x):
            k = x.decl().kind()
            ch = x.children()
            if k == z3.Z3_OP_MUL and sum(1 for c in ch if not (z3.is_rational_value(c) or z3.is_int_value(c))) >= 2:
                return True
            if k in (z3.Z3_OP_DIV, z3.Z3_OP_IDIV, z3.Z3_OP_MOD, z3.Z3_OP_POWER) and not (z3.is_rational_value(ch[1]) or z3.is_int_value(ch[1])):
                return True
            stack.extend(ch)
        elif z3.is_quantifier(x):
            stack.append(x.body())
    return False


def _snapshot(obj):
    if isinstance(obj, SArr):
        return (obj.a, obj.n)
    if isinstance(obj, Obj):
        return {k: (v, _snapshot(v)) for k, v in obj.fields.items()}
    if isinstance(obj, Rec):
        return {k: (v, _snapshot(v)) for k, v in obj.fields.items()}
    if isinstance(obj, PList):
        return [(v, _snapshot(v)) for v in obj.items]
    return None


def _restore(obj, snap):
    if isinstance(obj, SArr):
        obj.a, obj.n = snap
    elif isinstance(obj, (Obj, Rec)):
        obj.fields = {k: v for k, (v, _) in snap.items()}
        for k, (v, sn) in snap.items():
            _restore(v, sn)
    elif isinstance(obj, PList):
        obj.items = [v for v, _ in snap]
        for v, sn in snap:
            _restore(v, sn)


def _z(b):
    return z3.BoolVal(b) if isinstance(b, bool) else b


class Item:
    def __init__(self, name, kind, hyps, goal, lineno=None, expect='proved', replay=None, note=None, poly=False, pairs=True):
        self.pairs = pairs
        self.name = name
        self.kind = kind
        self.hyps = [_z(h) for h in hyps]
        self.goal = _z(goal)
        self.lineno = lineno
        self.expect = expect     # 'proved' | 'refuted' (canary)
        self.replay = replay
        self.note = note
        self.poly = poly


class Unbound(Exception):
    pass


def fn_ref(ref):
    """'pylife/materiallaws/rambgood.py::RambergOsgood.strain' or 'pylife.materiallaws.rambgood::X'"""
    mod, qual = ref.split('::')
    if mod.endswith('.py') or mod.endswith('.pyx'):
        mod = mod.rsplit('.', 1)[0].replace('/', '.')
    return mod, qual


class OB:
    def __init__(self, prop, name):
        self.prop = prop
        self.name = name
        self.I = Interp()
        self.hyps = []
        self.pre = []
        self.items = []
        self.inputs = {}         # name -> z3 const (contract level variables, for models/replay)
        self.safety_on = True
        self.skip_kinds = set()  # side-obligation kinds already discharged by another generator
        self.side_hints = []     # (label substring | kind, [proved facts], hide_nonlinear): hints for engine-generated obligations
        self.safety_exempt = []  # substrings of safety labels that are not enforced (with reason)
        self.assumptions = []
        self.functions = set()
        self.notes = []
        self._k = 0
        self._names = {}
        self._seen_side = set()
        self.tracked = []        # mutable symbolic inputs (arrays, objects, records) reset at the start of every path
        self.results = {}
        self._realfn = None
        self._rtol = 1e-9
        self.defs = {}

    # ---- variables
    def real(self, name):
        c = z3.Real(name)
        self.inputs[name] = c
        return c

    def reals(self, names):
        return [self.real(n) for n in names.split()]

    def int(self, name):
        c = z3.Int(name)
        self.inputs[name] = c
        return c

    def ints(self, names):
        return [self.int(n) for n in names.split()]

    def bool(self, name):
        c = z3.Bool(name)
        self.inputs[name] = c
        return c

    def assume(self, *conds):
        for c in conds:
            self.hyps.append(_z(c))
            self.pre.append(_z(c))

    def note(self, text):
        self.notes.append(text)

    def trusted(self, text):
        if text not in self.assumptions:
            self.assumptions.append(text)

    # ---- values
    def elem(self, t, kind='ndarray'):
        """generic element of an array/Series"""
        return SV(t, kind=kind)

    def scalar(self, t):
        return SV(t, kind='scalar')

    def xreal(self, name, kind='scalar'):
        """extended real input: finite value or +inf"""
        v = self.real(name)
        p = self.bool(name + '_isinf')
        return SV(v, pinf=p, kind=kind)

    def rec(self, kind='series', **fields):
        return self.track(Rec(fields, kind))

    def array(self, name, elem='real', n=None, kind='ndarray', unchecked=False):
        sort = z3.RealSort() if elem == 'real' else z3.IntSort()
        a = z3.Array(name, z3.IntSort(), sort)
        if n is None:
            n = self.int(name + '_len')
            self.assume(n >= 0)
        r = SArr(a, n, elem, kind, unchecked)
        self.tracked.append(r)
        return r

    def track(self, obj):
        self.tracked.append(obj)
        return obj

    # ---- real code access
    def module(self, modname):
        return extract.load_module(modname)

    def cls(self, ref):
        mod, qual = fn_ref(ref)
        m = extract.load_module(mod)
        node = m.find(qual)
        self.functions.add((m.name, qual))
        return self.I.get_class(m, node)

    def func(self, ref, closure_of=None):
        mod, qual = fn_ref(ref)
        m = extract.load_module(mod)
        try:
            node = m.find(qual)
        except KeyError as e:
            raise Unbound(str(e))
        self.functions.add((m.name, qual))
        cls = None
        if '.' in qual and '<locals>' not in qual:
            cname = qual.split('.')[0]
            cls = self.I.get_class(m, m.find(cname))
        return Func(node, m, None, f"{m.name}::{qual}", None, cls)

    def new(self, ref, *args, **kwargs):
        """instantiate a repository class by running its real __init__ (single path expected)"""
        c = self.cls(ref)
        return self.run1(lambda: self.I.instantiate(c, list(args), kwargs), label=f"{c.name}.__init__")

    def method(self, obj, name):
        c, node = obj.cls.lookup(name)
        if node is None:
            raise Unbound(f"{obj.cls.name}.{name} not found")
        self.functions.add((c.mod.name, f"{c.name}.{name}"))
        return Func(node, c.mod, None, f"{c.mod.name}::{c.name}.{name}", obj, c)

    def loop(self, ref, ordinal, invariant, variant=None):
        mod, qual = fn_ref(ref)
        m = extract.load_module(mod)
        self.I.loops[(f"{m.name}::{qual}", ordinal)] = LoopSpec(invariant, variant)

    def spec(self, ref, apply, pre=None):
        mod, qual = fn_ref(ref)
        m = extract.load_module(mod)
        self.I.specs[f"{m.name}::{qual}"] = Spec(pre, apply)

    # ---- running
    def paths(self, thunk, max_paths=400):
        saved = list(self.hyps)
        # contract hypotheses are visible to the path pruner
        snaps = [(obj, _snapshot(obj)) for obj in self.tracked]

        def wrapped():
            # contract-created mutable inputs start every path in their initial state
            for obj, snap in snaps:
                _restore(obj, snap)
            self.I.external_calls = []
            for h in saved:
                self.I.assume(h)
            return thunk()
        try:
            ps = explore(self.I, wrapped, max_paths=max_paths)
        except Unsupported as e:
            raise Unbound(str(e))
        for p in ps:
            k = len(saved)
            p.pc = p.pc[k:] if len(p.pc) >= k else p.pc
            p.dec_idx = {i - k for i in p.dec_idx if i >= k}
            for ob in p.obs:
                ob.hyps = ob.hyps[k:]
        for a in self.I.used_assumptions:
            self.trusted(npmodel.A_TEXT.get(a, a))
        return ps

    def _side_name(self, label, ob):
        import re
        txt = re.sub(r'\(?,? ?line \d+\)?', '', ob.label).strip()
        base = f"{label}.{ob.kind}[{txt}]"
        k = self._names.get(base, 0) + 1
        self._names[base] = k
        return f"{base}#{k}"

    def take_side_obligations(self, path, label):
        for ob in path.obs:
            if ob.kind in self.skip_kinds:
                continue
            if ob.kind == 'safety' and (not self.safety_on or any(s in ob.label for s in self.safety_exempt)):
                continue
            key = (ob.kind, ob.goal.get_id(), tuple(h.get_id() for h in ob.hyps if hasattr(h, 'get_id')), len(self.hyps))
            if key in self._seen_side:
                continue
            self._seen_side.add(key)
            hyps = self.hyps + ob.hyps
            for sub, facts, hide in self.side_hints:
                if sub in ob.label or sub == ob.kind:
                    if hide:
                        hyps = [h for h in hyps if not is_nonlinear(h)]
                    hyps = hyps + list(facts)
            self.items.append(Item(self._side_name(label, ob), ob.kind, hyps, ob.goal, ob.lineno,
                                   note=ob.label, replay=self._replayer(), pairs=(ob.kind != 'deriv')))

    def named(self, name, value):
        """give a result of the real function a name: the goal is then stated over the constant
        `name`, which lets a counter-model be replayed against the real code (set_replay)"""
        if isinstance(value, SV):
            if value.has_inf:
                raise Unbound("named result with infinity flags")
            t = value.t
        else:
            t = value
        if z3.is_bool(t):
            c = z3.Bool(name)
        elif z3.is_int(t):
            c = z3.Int(name)
        else:
            c = z3.Real(name)
        self.hyps.append(c == t)
        self.defs[name] = self.hyps[-1]
        self.results[name] = c
        return c

    def set_replay(self, realfn, rtol=1e-9):
        """realfn(env: {input name: float}) -> {result name: float} by running the real pyLife code"""
        self._realfn = realfn
        self._rtol = rtol

    def _replayer(self):
        realfn = self._realfn
        if realfn is None:
            return None
        inputs = dict(self.inputs)
        rtol = self._rtol

        ob = self

        def replay(item, model):
            env = {k: model.get(k, 0.0) for k in inputs}
            first = replay_at(item, env)
            if first.get('reproduced'):
                return first
            # the solver's model may rest on a non-standard interpretation of an uninterpreted function, or sit on a
            # measure-zero coincidence: search a few seeded random inputs that satisfy the contract's precondition
            import random
            rng = random.Random(int(os.environ.get('VERIF_SEED', '0')) + 4711)
            for _ in range(24):
                env2 = pick_inputs(ob, rng)
                if env2 is None:
                    break
                r = replay_at(item, env2)
                if r.get('reproduced'):
                    r['note'] = 'failing input found by seeded search over the precondition (the solver model itself did not replay)'
                    r['solver_model_replay'] = first
                    return r
            return first

        def replay_at(item, env):
            try:
                outs = realfn(dict(env))
            except Exception as e:   # noqa
                return {'reproduced': False, 'inputs': env, 'error': f"real code raised {type(e).__name__}: {e}"}
            full = dict(env)
            full.update(outs)
            skipped = 0
            for h in item.hyps:
                try:
                    if not sym.evalf(h, full, rtol=rtol):
                        return {'reproduced': False, 'inputs': env, 'outputs': _jsonable(outs),
                                'reason': 'a hypothesis does not hold for the float inputs / real outputs: ' + str(h)[:200]}
                except sym.EvalError:
                    skipped += 1
            try:
                ok = sym.evalf(item.goal, full, rtol=rtol)
            except sym.EvalError as e:
                return {'reproduced': False, 'inputs': env, 'outputs': _jsonable(outs), 'reason': f'goal not evaluable on real outputs: {e}'}
            return {'reproduced': not ok, 'inputs': env, 'outputs': _jsonable(outs), 'hyps_skipped': skipped}
        return replay

    def run1(self, thunk, label=None, allow_raise=False):
        """exactly one feasible normally-returning path; its path condition joins the hypotheses"""
        ps = self.paths(thunk)
        rets = [p for p in ps if p.kind == 'return']
        if len(rets) == 0:
            kinds = [(p.kind, getattr(p.exc, 'exc_type', None), getattr(p.exc, 'lineno', None)) for p in ps]
            # the function does not return normally on any path under the contract's precondition: each raising path is a failed no-raise obligation
            for p in ps:
                if p.kind == 'raise' and not allow_raise:
                    self.items.append(Item(f"{label or 'run'}.no-raise[{p.exc.exc_type}]", 'no-raise', self.hyps + p.pc, z3.BoolVal(False),
                                           p.exc.lineno, note=f"raises {p.exc.exc_type} at line {p.exc.lineno}", replay=self._replayer()))
            raise Unbound(f"{label or self.name}: no returning path, got {kinds}")
        if len(rets) > 1:
            result, conds = self._merge(rets)
            if not allow_raise:
                for p in ps:
                    if p.kind == 'raise':
                        self.items.append(Item(f"{label or 'run'}.no-raise[{p.exc.exc_type}]", 'no-raise', self.hyps + p.pc, z3.BoolVal(False),
                                               p.exc.lineno, note=f"raises {p.exc.exc_type} at line {p.exc.lineno}"))
            for p in ps:
                if p.kind in ('return', 'end'):
                    self.take_side_obligations(p, label or 'run')
            self.hyps.append(or_(*conds))
            for p, c in zip(rets, conds):
                for i, a in enumerate(p.pc):
                    if i not in p.dec_idx:
                        f = z3.Implies(c, a)
                        if not any(f.eq(h) for h in self.hyps[-40:]):
                            self.hyps.append(f)
            return result
        if not allow_raise and any(p.kind == 'raise' for p in ps):
            # a raising path that is feasible under the contract's precondition
            for p in ps:
                if p.kind == 'raise':
                    self._k += 1
                    self.items.append(Item(f"{label or 'run'}.no-raise[{p.exc.exc_type}]", 'no-raise', self.hyps + p.pc, z3.BoolVal(False),
                                           p.exc.lineno, note=f"raises {p.exc.exc_type} at line {p.exc.lineno}"))
        p = rets[0]
        self.take_side_obligations(p, label or 'run')
        for ps_ in ps:
            if ps_.kind == 'end':
                self.take_side_obligations(ps_, label or 'run')
        self.hyps.extend(p.pc)
        return p.result

    def _merge(self, rets):
        """merge the results of several returning paths into one value: ite over the path conditions"""
        conds = [and_(*[c for i, c in enumerate(p.pc) if i in p.dec_idx]) for p in rets]

        def merge(vals):
            v0 = vals[0]
            if all(isinstance(v, SV) for v in vals):
                r = vals[-1]
                for c, v in zip(reversed(conds[:-1]), reversed(vals[:-1])):
                    x = npmodel.ite(self.I, c, v, r, use_ctx=False)
                    r = SV(x.t, x.pinf, x.ninf, None, npmodel.merge_kind(v, r), v.index)
                return r
            if all(isinstance(v, tuple) for v in vals) and len({len(v) for v in vals}) == 1:
                return tuple(merge([v[i] for v in vals]) for i in range(len(v0)))
            if all(isinstance(v, PList) for v in vals) and len({len(v.items) for v in vals}) == 1:
                return PList([merge([v.items[i] for v in vals]) for i in range(len(v0.items))], v0.kind)
            if all(isinstance(v, (int, float, str, bool, type(None))) for v in vals) and len(set(map(repr, vals))) == 1:
                return v0
            if all((isinstance(v, (int, float)) and not isinstance(v, bool)) or isinstance(v, SV) for v in vals):
                # python numbers on some paths, symbolic values on others
                return merge([v if isinstance(v, SV) else SV(float(v)) for v in vals])
            raise Unbound(f"cannot merge path results of types {[type(v).__name__ for v in vals]}")
        return merge([p.result for p in rets]), conds

    def prove(self, label, goal, under=None, kind='post', expect='proved', replay=None, poly=False, only=None, hide_nonlinear=False, pairs=True):
        """under: extra hypotheses (stated by the contract, e.g. a path condition).
        only: lemma boundary - discharge the goal from these formulas alone; each must be a current hypothesis
        or the goal of an earlier item of this generator (checked), so nothing is assumed that is not proved."""
        if hide_nonlinear:
            hyps = [h for h in self.hyps if not is_nonlinear(h)] + (list(under) if under else [])
            if replay is None:
                replay = self._replayer()
            self.items.append(Item(label, kind, hyps, goal, expect=expect, replay=replay, poly=poly, pairs=pairs))
            return goal
        if only is not None:
            have = {h.get_id() for h in self.hyps if hasattr(h, 'get_id')}
            have |= {it.goal.get_id() for it in self.items if it.expect == 'proved'}
            for h in only:
                if _z(h).get_id() not in have:
                    raise ValueError(f"{label}: hypothesis given in only= is neither a contract hypothesis nor an earlier goal: {h}")
            hyps = list(only)
        else:
            hyps = list(self.hyps) + (list(under) if under else [])
        if replay is None:
            replay = self._replayer()
        self.items.append(Item(label, kind, hyps, goal, expect=expect, replay=replay, poly=poly, pairs=pairs))
        return goal

    def shape(self, label, ok, detail=''):
        """path-shape obligation (e.g. 'exactly one returning path'): an item of its own, so that a change of the code's control structure that breaks the
        contract's frame of reference fails a named obligation instead of crashing the generator; the generator stops cleanly when it fails"""
        self.items.append(Item(label, 'shape', [], z3.BoolVal(bool(ok)), note=str(detail)[:300]))
        if not ok:
            raise Unbound(f"{label}: {detail}")

    def prove_pos_identity(self, label, A, B, under=None, cond=None):
        """A == B for positive terms built from products, quotients, 10**u and log10: discharged after log-normalisation (sym.logform).
        Obligations: every opaque atom is > 0 (ordinary hypotheses), and the normal forms agree (a polynomial identity over the atoms' logs,
        proved with no hypotheses besides `cond`-itions that pick ite branches)."""
        atoms = {}
        la, lb = sym.logform(A, atoms), sym.logform(B, atoms)
        for a in atoms.values():
            if z3.is_rational_value(a) or z3.is_int_value(a):
                if not (float(a.as_fraction()) > 0):
                    raise ValueError(f"{label}: non-positive numeral factor {a}")
                continue
            self.prove(f'{label}: factor {str(a)[:60]} > 0', a > 0, under=under, pairs=False)
        self.items.append(Item(f'{label}: log-normal forms agree', 'post', list(cond or []), la == lb, replay=None, pairs=False))
        self.trusted("log-normalisation rewriter (lg(ab) = lg a + lg b, lg(a/b) = lg a - lg b, lg(10**u) = u on terms whose atoms are proved positive)")
        return A == B

    def instance(self, lemma, *subst):
        """instance of a lemma that was proved in this generator from NO hypotheses (only=[]), hence universally valid in its free constants:
        substituting terms for constants gives a valid formula, which is added to the hypotheses"""
        ok = [it for it in self.items if it.expect == 'proved' and it.goal.get_id() == _z(lemma).get_id() and len(it.hyps) == 0]
        if not ok:
            raise ValueError("instance(): the lemma is not an earlier goal proved without hypotheses")
        inst = z3.substitute(lemma, *subst)
        self.hyps.append(inst)
        return inst

    def hint(self, which, facts, hide_nonlinear=False):
        """use already proved facts (goals of earlier items / hypotheses) when discharging engine-generated side
        obligations whose label contains `which`; optionally hide the nonlinear hypotheses from the solver"""
        have = {h.get_id() for h in self.hyps if hasattr(h, 'get_id')}
        have |= {it.goal.get_id() for it in self.items if it.expect == 'proved'}
        for f in facts:
            if _z(f).get_id() not in have:
                raise ValueError(f"hint {which}: fact is neither a hypothesis nor an earlier goal: {f}")
        self.side_hints.append((which, list(facts), hide_nonlinear))

    def define(self, name, term):
        """fresh constant with a defining hypothesis (hides a sub-term behind a name: lemma boundary)"""
        c = z3.Real(name) if not z3.is_int(term) else z3.Int(name)
        d = c == term
        self.hyps.append(d)
        return c, d

    def canary(self, label, goal, under=None):
        """a deliberately false statement: must be refuted (guards against vacuity / unsound engine)"""
        self.prove(label, goal, under, kind='canary', expect='refuted')


# --------------------------------------------------------------------------------------------
# discharge
# --------------------------------------------------------------------------------------------
Z3_TIMEOUT_MS = int(os.environ.get('PV_Z3_TIMEOUT_MS', '20000'))
CVC5_TIMEOUT_S = int(os.environ.get('PV_CVC5_TIMEOUT_S', '30'))
CVC5 = '/usr/bin/cvc5'


def smt2_text(assertions):
    s = z3.Solver()
    for a in assertions:
        s.add(a)
    return "(set-logic ALL)\n" + s.to_smt2()


def run_cvc5(text, timeout_s):
    with tempfile.NamedTemporaryFile('w', suffix='.smt2', delete=False) as f:
        f.write(text)
        fn = f.name
    try:
        r = subprocess.run([CVC5, '--lang=smt2', f'--tlimit={timeout_s * 1000}', fn], capture_output=True, text=True,
                           timeout=timeout_s + 10)
        out = r.stdout.strip().split('\n')[0] if r.stdout.strip() else ''
        if out in ('sat', 'unsat', 'unknown'):
            return out
        return 'unknown'
    except subprocess.TimeoutExpired:
        return 'unknown'
    finally:
        os.unlink(fn)


def has_quantifier(fs):
    seen = set()
    stack = list(fs)
    while stack:
        t = stack.pop()
        if t.get_id() in seen:
            continue
        seen.add(t.get_id())
        if z3.is_quantifier(t):
            return True
        stack.extend(t.children())
    return False


def check_sat(assertions, timeout_ms=None, want_model=False, use_cvc5=True):
    """ladder; returns (status, model|None, backend, seconds)"""
    t0 = time.time()
    timeout_ms = timeout_ms or Z3_TIMEOUT_MS
    s = z3.Solver()
    s.set('timeout', timeout_ms)
    for a in assertions:
        s.add(a)
    r = s.check()
    if r == z3.unsat:
        return 'unsat', None, 'z3', time.time() - t0
    if r == z3.sat:
        return 'sat', s.model(), 'z3', time.time() - t0
    quant = has_quantifier(assertions)
    if not quant:
        try:
            t = z3.Then('simplify', 'purify-arith', 'qfnra-nlsat') if False else z3.Tactic('qfnra-nlsat')
            s2 = t.solver()
            s2.set('timeout', timeout_ms)
            for a in assertions:
                s2.add(a)
            r2 = s2.check()
            if r2 == z3.unsat:
                return 'unsat', None, 'z3-nlsat', time.time() - t0
            if r2 == z3.sat:
                return 'sat', s2.model(), 'z3-nlsat', time.time() - t0
        except z3.Z3Exception:
            pass
    if use_cvc5 and os.path.exists(CVC5):
        try:
            out = run_cvc5(smt2_text(assertions), CVC5_TIMEOUT_S)
        except Exception:
            out = 'unknown'
        if out == 'unsat':
            return 'unsat', None, 'cvc5', time.time() - t0
        if out == 'sat':
            return 'sat', None, 'cvc5', time.time() - t0
    return 'unknown', None, 'none', time.time() - t0


def _implied(hyps, cond, timeout=1500):
    s = z3.Solver()
    s.set('timeout', timeout)
    for h in hyps:
        s.add(h)
    s.add(z3.Not(cond))
    return s.check() == z3.unsat


def sympy_identity(hyps, goal, time_limit=60):
    """sympy back end for equalities between terms built from + - * / 10**u log10 sqrt and ite: constants get sign assumptions that z3 derives
    from the hypotheses, ite conditions are resolved by z3 under the hypotheses, then lhs - rhs is simplified to 0 (powsimp / expand).
    Returns True (identity established), False (could not) - never a refutation."""
    import sympy as sp
    if not z3.is_eq(goal):
        return False
    lhs, rhs = goal.arg(0), goal.arg(1)
    simple_hyps = [h for h in hyps if not has_quantifier([h])]
    syms = {}

    def const(c):
        name = c.decl().name()
        if name not in syms:
            if name == 'LN10':
                syms[name] = (sp.log(10), 1)
            elif _implied(simple_hyps, c > 0):
                syms[name] = (sp.Symbol(name.replace('!', '_'), positive=True), 1)
            elif _implied(simple_hyps, c < 0):
                syms[name] = (sp.Symbol(name.replace('!', '_') + '_neg', positive=True), -1)
            else:
                syms[name] = (sp.Symbol(name.replace('!', '_'), real=True), 1)
        sym_, sg = syms[name]
        return sg * sym_

    cache = {}

    def conv(t):
        k = t.get_id()
        if k in cache:
            return cache[k]
        r = conv_(t)
        cache[k] = r
        return r

    def conv_(t):
        if z3.is_int_value(t):
            return sp.Integer(t.as_long())
        if z3.is_rational_value(t):
            return sp.Rational(t.numerator_as_long(), t.denominator_as_long())
        if not z3.is_app(t):
            raise ValueError('quantifier')
        kind = t.decl().kind()
        ch = t.children()
        if kind == z3.Z3_OP_UNINTERPRETED:
            if t.decl().arity() == 0:
                return const(t)
            name = t.decl().name()
            if name == 'ex':
                return sp.exp(conv(ch[0]) * sp.log(10))
            if name == 'lg':
                return sp.log(conv(ch[0])) / sp.log(10)
            if name == 'sq':
                return sp.sqrt(conv(ch[0]))
            raise ValueError(f'uninterpreted {name}')
        if kind == z3.Z3_OP_ADD:
            return sp.Add(*[conv(c) for c in ch])
        if kind == z3.Z3_OP_SUB:
            r = conv(ch[0])
            for c in ch[1:]:
                r = r - conv(c)
            return r
        if kind == z3.Z3_OP_UMINUS:
            return -conv(ch[0])
        if kind == z3.Z3_OP_MUL:
            return sp.Mul(*[conv(c) for c in ch])
        if kind == z3.Z3_OP_DIV:
            return conv(ch[0]) / conv(ch[1])
        if kind == z3.Z3_OP_POWER:
            return conv(ch[0]) ** conv(ch[1])
        if kind == z3.Z3_OP_TO_REAL:
            return conv(ch[0])
        if kind == z3.Z3_OP_ITE:
            if _implied(simple_hyps, ch[0]):
                return conv(ch[1])
            if _implied(simple_hyps, z3.Not(ch[0])):
                return conv(ch[2])
            raise ValueError('undetermined ite')
        raise ValueError(f'operator {t.decl().name()}')

    try:
        d = conv(lhs) - conv(rhs)
    except ValueError:
        return False
    import signal

    class _TO(Exception):
        pass

    def handler(signum, frame):
        raise _TO()
    old = signal.signal(signal.SIGALRM, handler)
    signal.alarm(time_limit)
    try:
        for strat in (lambda e: sp.cancel(sp.together(e)) if not e.has(sp.exp, sp.log) else e,
                      lambda e: sp.expand(sp.expand_log(e, force=True)),
                      lambda e: sp.powsimp(sp.expand(sp.expand_log(e, force=True)), force=True),
                      lambda e: sp.simplify(sp.powsimp(sp.expand(sp.expand_log(e, force=True)), force=True))):
            if strat(d) == 0:
                return True
        return False
    except _TO:
        return False
    finally:
        signal.alarm(0)
        signal.signal(signal.SIGALRM, old)


def discharge(item, second_solver=False):
    """-> dict(verdict, backend, time, model, confirmed)"""
    fs = list(item.hyps) + [item.goal]
    axioms = sym.instantiate_axioms(fs, pairs=getattr(item, 'pairs', True))
    neg = z3.Not(item.goal)
    assertions = list(item.hyps) + axioms + [neg]
    if item.kind == 'deriv' or getattr(item, 'poly', False):
        # derivative / power-algebra identities: computer algebra first (fast and stable), the SMT ladder only if that does not settle it
        t0 = time.time()
        try:
            ok = sympy_identity(item.hyps, item.goal)
        except Exception:   # noqa
            ok = False
        if ok:
            return {'name': item.name, 'kind': item.kind, 'backend': 'sympy', 'time_s': round(time.time() - t0, 4), 'lineno': item.lineno,
                    'note': item.note, 'expect': item.expect, 'n_axioms': 0, 'verdict': 'proved',
                    'sha': hashlib.sha256(smt2_text(assertions).encode()).hexdigest()[:16]}
    status, model, backend, secs = check_sat(assertions)
    res = {'name': item.name, 'kind': item.kind, 'backend': backend, 'time_s': round(secs, 4), 'lineno': item.lineno,
           'note': item.note, 'expect': item.expect, 'n_axioms': len(axioms)}
    if status == 'unsat':
        res['verdict'] = 'proved'
        if second_solver and backend != 'cvc5':
            out = run_cvc5(smt2_text(assertions), CVC5_TIMEOUT_S)
            res['cvc5'] = out
            if out == 'sat':
                res['verdict'] = 'solver-disagreement'
    elif status == 'sat':
        res['verdict'] = 'refuted'
        if model is not None:
            res['model'] = model_dict(model)
            res['model_confirmed'] = confirm_model(item, model)
    else:
        res['verdict'] = 'undecided'
    res['sha'] = hashlib.sha256(smt2_text(assertions).encode()).hexdigest()[:16]
    return res


def _jsonable(d):
    out = {}
    for k, v in d.items():
        try:
            out[k] = float(v)
        except Exception:   # noqa
            out[k] = str(v)
    return out


def model_dict(m):
    out = {}
    for d in m.decls():
        if d.arity() == 0:
            try:
                out[d.name()] = sym.model_value(m, d())
            except Exception:
                out[d.name()] = str(m[d])
    return out


def confirm_model(item, model):
    """evaluate hypotheses and goal numerically (true analytic meaning of ex/lg/...) at the model's
    values for the 0-ary constants: a model that only exists thanks to a non-standard
    interpretation of an uninterpreted function is not a counterexample."""
    env = model_dict(model)
    try:
        for h in item.hyps:
            if has_quantifier([h]):
                return 'unknown'
            if not sym.evalf(h, env):
                return 'spurious'
        if has_quantifier([item.goal]):
            return 'unknown'
        g = sym.evalf(item.goal, env)
        return 'spurious' if g else 'confirmed'
    except sym.EvalError as e:
        return f'unknown ({e})'
    except Exception as e:   # noqa
        return f'unknown ({type(e).__name__})'


def run_generator(prop, name, second_solver=False):
    """executed in a worker process: build the items of one generator and discharge them"""
    gen = REGISTRY[prop][name]
    ob = OB(prop, name)
    t0 = time.time()
    out = {'prop': prop, 'generator': name, 'items': [], 'functions': [], 'assumptions': [], 'notes': [], 'status': 'ok'}
    try:
        gen.fn(ob)
    except Unbound as e:
        out['status'] = 'unbound'
        out['reason'] = str(e)
    except Unsupported as e:
        out['status'] = 'unbound'
        out['reason'] = str(e)
    except (KeyError, AttributeError) as e:
        # the contract names a function / field / variable the code no longer has: cannot be bound (reported, never an alarm)
        out['status'] = 'unbound'
        out['reason'] = f"contract refers to a name the code does not have: {type(e).__name__}: {e}"
        out['traceback'] = traceback.format_exc()
    except Exception as e:   # noqa
        out['status'] = 'error'
        out['reason'] = f"{type(e).__name__}: {e}"
        out['traceback'] = traceback.format_exc()
    out['functions'] = sorted(ob.functions)
    out['assumptions'] = ob.assumptions
    out['notes'] = ob.notes
    if True:
        # items generated before a generator stopped (unbound / error) are discharged as well
        for it in ob.items:
            try:
                r = discharge(it, second_solver)
            except Exception as e:   # noqa
                r = {'name': it.name, 'kind': it.kind, 'verdict': 'error', 'reason': f"{type(e).__name__}: {e}",
                     'expect': it.expect, 'traceback': traceback.format_exc()}
            r['goal'] = str(z3.simplify(it.goal))[:400] if it.goal is not None else ''
            r['n_hyps'] = len(it.hyps)
            r['has_replay'] = it.replay is not None
            if r['verdict'] in ('refuted', 'undecided') and it.replay is not None and it.expect == 'proved':
                try:
                    r['replay'] = it.replay(it, r.get('model') or {})
                except Exception as e:   # noqa
                    r['replay'] = {'reproduced': False, 'error': f"{type(e).__name__}: {e}"}
            out['items'].append(r)
        if ob._realfn is not None and ob.results and out['status'] == 'ok':
            try:
                out['crosscheck'] = crosscheck(ob)
            except Exception as e:   # noqa
                out['crosscheck'] = {'status': 'error', 'reason': f"{type(e).__name__}: {e}", 'traceback': traceback.format_exc()}
        if ob.items and out['status'] == 'ok':
            # vacuity: the contract hypotheses of the generator must be satisfiable together with the axioms
            hy = [_z(h) for h in ob.hyps]
            ax = sym.instantiate_axioms(hy)
            st, _, be, secs = check_sat(list(hy) + ax, timeout_ms=5000, use_cvc5=False)
            out['cover'] = st
    out['time_s'] = round(time.time() - t0, 3)
    return out


# moderate magnitudes only: the cross-check compares real floats with exact terms, extreme values only produce overflow artefacts
_POOL = [0.0, 1.0, -1.0, 0.5, -0.5, 0.25, 2.0, -2.0, 3.5, 0.1, -0.3, 0.7, 7.0, 12.5, 0.05, 0.9, 1.5, 4.0, -3.0, 0.6, 30.0]


def pick_inputs(ob, rng):
    """concrete inputs satisfying the contract-level preconditions: greedy random fixing of variables"""
    s = z3.Solver()
    s.set('timeout', 3000)
    for c in ob.pre:
        s.add(c)
    if s.check() != z3.sat:
        return None
    names = sorted(ob.inputs)
    rng.shuffle(names)
    for n in names:
        c = ob.inputs[n]
        if z3.is_bool(c):
            continue
        for _ in range(5):
            v = rng.choice(_POOL)
            if z3.is_int(c):
                v = int(v)
            s.push()
            s.add(c == (z3.IntVal(v) if z3.is_int(c) else RV(float(v))))
            if s.check() == z3.sat:
                break
            s.pop()
    if s.check() != z3.sat:
        return None
    m = s.model()
    return {n: sym.model_value(m, c) for n, c in ob.inputs.items()}


def crosscheck(ob, trials=4):
    """CPython cross-check of the encoding (DESIGN 2.8): the symbolic result terms, evaluated numerically
    at concrete inputs, must equal what the real function returns."""
    import random
    rng = random.Random(int(os.environ.get('VERIF_SEED', '0')) + 17)
    defs = {}
    for h in ob.hyps:
        if z3.is_eq(h) and h.arg(0).decl().arity() == 0 and h.arg(0).decl().name() in ob.results:
            defs[h.arg(0).decl().name()] = h.arg(1)
    done, mism, skipped, last_err = 0, [], 0, None
    for _ in range(trials):
        env = pick_inputs(ob, rng)
        if env is None:
            skipped += 1
            continue
        try:
            outs = ob._realfn(dict(env))
        except Exception as e:   # noqa
            skipped += 1
            last_err = f"{type(e).__name__}: {e}"
            continue
        # fresh constants of the symbolic run (newton roots, eigenvalues) take the real values when the
        # replay function reports them under the same name
        full = dict(env)
        full.update({k: v for k, v in outs.items() if k not in defs})
        for name, term in defs.items():
            if name not in outs:
                continue
            try:
                v = sym.evalf(term, full)
            except sym.EvalError:
                skipped += 1
                continue
            r = outs[name]
            try:
                r = float(r)
            except Exception:   # noqa
                pass
            done += 1
            if isinstance(v, bool) or isinstance(r, bool):
                ok = bool(v) == bool(r)
            else:
                ok = abs(v - r) <= 1e-9 + 1e-7 * max(abs(v), abs(r))
            if not ok:
                mism.append({'result': name, 'inputs': env, 'symbolic': v, 'real': r})
    if done == 0:
        return {'status': 'error', 'reason': f'no value could be compared (replay function broken?): {last_err}', 'compared': 0, 'skipped': skipped}
    return {'status': 'mismatch' if mism else 'ok', 'compared': done, 'skipped': skipped, 'mismatches': mism[:5]}
