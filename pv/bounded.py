"""Bounded stand-ins (DESIGN 2.9): executable contracts evaluated on the *real* functions over a
finite, completely enumerated domain.  Labelled `bounded` everywhere, never counted as proved.

A bounded check is a function  fn(ctx) -> None  registered with @bounded(prop, name, shards=k).
ctx.tier / ctx.seed / ctx.shard / ctx.nshards describe the run; the function calls
  ctx.case(nontrivial: bool, key=None)     once per evaluated case,
  ctx.fail(key, what, repro)               for every violated contract (repro: python source of a
                                           stand-alone reproduction, or a dict of inputs),
  ctx.sample(obj)                          to keep a few written-out cases,
and sets ctx.bound (text) and ctx.exhaustive.
"""
import os
import random
import time
import traceback

BREGISTRY = {}


class BGen:
    def __init__(self, prop, name, fn, shards, functions, doc, tiers):
        self.prop, self.name, self.fn, self.shards, self.functions, self.doc, self.tiers = prop, name, fn, shards, functions, doc, tiers


def bounded(prop, name, shards=1, functions=(), tiers=('quick', 'thorough')):
    def deco(fn):
        BREGISTRY.setdefault(prop, {})[name] = BGen(prop, name, fn, shards, list(functions), (fn.__doc__ or '').strip(), tiers)
        return fn
    return deco


class BCtx:
    def __init__(self, tier, seed, shard, nshards):
        self.tier = tier
        self.seed = seed
        self.shard = shard
        self.nshards = nshards
        self.rng = random.Random(seed * 1000003 + shard)
        self.evaluations = 0
        self.nontrivial_keys = set()
        self.nontrivial_count = 0
        self.failures = []
        self.samples = []
        self.bound = ''
        self.rule = ''
        self.exhaustive = False
        self.notes = []
        self.counted = {}
        self._i = 0

    def mine(self):
        """round-robin sharding helper: True if the current enumeration index belongs to this shard"""
        i = self._i
        self._i += 1
        return i % self.nshards == self.shard

    def case(self, nontrivial=True, key=None):
        self.evaluations += 1
        if nontrivial:
            if key is not None:
                self.nontrivial_keys.add(key)
            else:
                self.nontrivial_count += 1

    def count(self, what, n=1):
        self.counted[what] = self.counted.get(what, 0) + n

    def fail(self, key, what, repro=None):
        if len(self.failures) < 200:
            self.failures.append({'key': key, 'what': what, 'repro': repro})
        else:
            self.count('failures-not-listed')

    def sample(self, obj, limit=3):
        if len(self.samples) < limit:
            self.samples.append(obj)

    def note(self, text):
        if text not in self.notes:
            self.notes.append(text)


def anchored_modules(prop):
    """python modules of the files the property is anchored in (properties.jsonl), plus the modules named by the contract file (EXTRA_GUARDED)"""
    import json
    here = os.path.dirname(os.path.dirname(os.path.abspath(__file__)))
    mods = []
    try:
        for line in open(os.path.join(here, 'properties.jsonl')):
            d = json.loads(line)
            if d['id'] == prop:
                for f in d['anchors'].get('files', []):
                    if f.startswith('src/') and f.endswith('.py'):
                        mods.append(f[4:-3].replace('/', '.'))
    except Exception:   # noqa
        pass
    return mods


def run_bounded(prop, name, tier, seed, shard, nshards):
    g = BREGISTRY[prop][name]
    ctx = BCtx(tier, seed, shard, nshards)
    t0 = time.time()
    out = {'prop': prop, 'bounded': name, 'shard': shard, 'status': 'ok'}
    try:
        # the compiled rainflow kernels are the ones rebuilt from the CURRENT extension.pyx (pv/extbuild.py): installed before anything imports the detector modules
        # (`from pylife.rainflow_ext import ...` binds at import time).  Since the frame guards import the anchored modules first, the rainflow harnesses had been
        # running the .so lying in the source tree - found when seed C02-h (a change to the .pyx only) went unnoticed by the bounded part
        if os.environ.get('PV_EXT_SO') or any(m.startswith('pylife.stress.rainflow') for m in anchored_modules(prop)):
            from . import extbuild
            extbuild.install()
        if os.environ.get('PV_NO_GUARDS') != '1':
            from . import guards
            import sys
            cmod = sys.modules.get(g.fn.__module__)
            exempt = getattr(cmod, 'GUARD_EXEMPT', {})
            n_guarded = guards.install(ctx, prop, anchored_modules(prop), {k: v[0] for k, v in exempt.items()})
            for k, v in exempt.items():
                ctx.note(f"frame guard exemption {k}: {v[0]} - {v[1]}")
            ctx.note(f"frame guards on {n_guarded} public callables of the anchored modules (arguments and accessor payloads compared with snapshots around every outermost call)")
        g.fn(ctx)
    except Exception as e:   # noqa
        tb = traceback.extract_tb(e.__traceback__)
        repo_src = os.path.join(os.environ.get('PV_REPO', '/repo'), 'src') + os.sep
        inner = [f for f in tb if f.filename.startswith(repo_src)]
        if inner:
            # the code under contract raised on an input of the harness (on which it does not raise on the reference tree): a violated contract,
            # not a failure of the checker.  The rest of this shard's enumeration is lost, which is recorded.
            f = inner[-1]
            where = f"{os.path.relpath(f.filename, repo_src)}:{f.name}"
            ctx.fail(f"{prop}:raises:{type(e).__name__}:{where}", f"the code under contract raised {type(e).__name__}: {str(e)[:200]} in {where} (line {f.lineno}); "
                     f"the harness did not expect an exception here, the remaining cases of shard {shard} were not evaluated",
                     {'traceback': traceback.format_exc()[-3000:]})
            ctx.note(f"shard {shard} aborted by an exception of the code under contract")
        else:
            out['status'] = 'error'
            out['reason'] = f"{type(e).__name__}: {e}"
            out['traceback'] = traceback.format_exc()
    out.update({
        'evaluations': ctx.evaluations,
        'nontrivial': len(ctx.nontrivial_keys) + ctx.nontrivial_count,
        'nontrivial_keys': sorted(map(str, ctx.nontrivial_keys))[:0],
        'failures': ctx.failures,
        'samples': ctx.samples,
        'bound': ctx.bound,
        'rule': ctx.rule,
        'exhaustive': ctx.exhaustive,
        'notes': ctx.notes,
        'counted': ctx.counted,
        'time_s': round(time.time() - t0, 3),
    })
    return out
