"""Frame guards for the bounded stand-ins: while a harness runs, every PUBLIC function, method and property of the pyLife modules a property is anchored in is
wrapped (in this process only - no file of the repository is touched) so that around each OUTERMOST call

  * every argument that is a numpy array, pandas object, list or dict is compared with a deep snapshot taken before the call   (key <prop>:argument-modified:<fn>:<arg>)
  * the pandas payload `_obj` of a receiver that is a pyLife signal accessor is compared in the same way                      (key <prop>:receiver-modified:<fn>)

"The operation does not modify what it was given" is part of what every property statement means by "returns ..."; no clause of the 20 statements permits a
function to change its inputs (C13 and C14 say so explicitly).  Methods whose documented purpose is to change their receiver (detectors, recorders, exporters) are
not affected: only the `_obj` payload of accessors is compared, never other attributes.  Added after seeds C15-d (in-place `*=` on the caller's density array) and
C11-d (`gassner()` writing ND into the receiver's own series)."""
import functools
import importlib
import inspect
import types

_state = {'depth': 0, 'ctx': None, 'prop': None, 'calls': 0, 'installed': [], 'exempt': {}}


def _snap(x, depth=0):
    import numpy as np
    import pandas as pd
    if isinstance(x, np.ndarray):
        return ('nd', x.copy())
    if isinstance(x, (pd.Series, pd.DataFrame)):
        return ('pd', x.copy(deep=True), x.index.copy(deep=True), list(x.index.names))
    if isinstance(x, pd.Index):
        return ('ix', x.copy(deep=True), list(x.names))
    if isinstance(x, (list, tuple)) and depth < 2 and len(x) <= 64:
        return ('seq', type(x), [_snap(v, depth + 1) for v in x])
    if isinstance(x, dict) and depth < 2 and len(x) <= 64:
        return ('map', {k: _snap(v, depth + 1) for k, v in x.items()})
    return None


def _same(s, x, depth=0):
    import numpy as np
    import pandas as pd
    if s is None:
        return True
    kind = s[0]
    try:
        if kind == 'nd':
            if not isinstance(x, np.ndarray) or x.shape != s[1].shape or x.dtype != s[1].dtype:
                return False
            if x.dtype.kind in 'fc':
                return bool(np.array_equal(x, s[1], equal_nan=True))
            return bool(np.array_equal(x, s[1]))
        if kind == 'pd':
            return type(x) is type(s[1]) and x.equals(s[1]) and x.index.equals(s[2]) and list(x.index.names) == s[3] and \
                (not isinstance(x, pd.DataFrame) or list(x.columns) == list(s[1].columns)) and (not isinstance(x, pd.Series) or x.name == s[1].name or (x.name != x.name and s[1].name != s[1].name))
        if kind == 'ix':
            return isinstance(x, pd.Index) and x.equals(s[1]) and list(x.names) == s[2]
        if kind == 'seq':
            return type(x) is s[1] and len(x) == len(s[2]) and all(_same(a, b, depth + 1) for a, b in zip(s[2], x))
        if kind == 'map':
            return isinstance(x, dict) and list(x.keys()) == list(s[1].keys()) and all(_same(s[1][k], x[k], depth + 1) for k in x)
    except Exception:   # noqa
        return True      # a comparison that cannot be carried out decides nothing
    return True


def _wrap(fn, label, is_method):
    try:
        names = list(inspect.signature(fn).parameters)
    except (TypeError, ValueError):
        names = []

    @functools.wraps(fn)
    def guarded(*args, **kw):
        st = _state
        if st['ctx'] is None or st['depth'] > 0:
            return fn(*args, **kw)
        st['calls'] += 1
        # all calls are guarded up to a budget, every 50th afterwards (the large enumerations of C01-C03 make several 100 000 calls)
        if st['calls'] > 20000 and st['calls'] % 50:
            return fn(*args, **kw)
        snaps = []
        for i, a in enumerate(args):
            if is_method and i == 0:
                payload = getattr(a, '__dict__', {}).get('_obj', None)
                sp = _snap(payload)
                if sp is not None:
                    snaps.append(('receiver', None, a, sp))
                continue
            sp = _snap(a)
            if sp is not None:
                snaps.append(('arg', names[i] if i < len(names) else f'#{i}', a, sp))
        for k, a in kw.items():
            sp = _snap(a)
            if sp is not None:
                snaps.append(('arg', k, a, sp))
        st['depth'] += 1
        try:
            return fn(*args, **kw)
        finally:
            st['depth'] -= 1
            ctx = st['ctx']
            for kind, name, obj, sp in snaps:
                now = obj.__dict__.get('_obj') if kind == 'receiver' else obj
                if kind == 'arg' and st['exempt'].get(f'{label}:{name}') == 'may-add-entries' and sp[0] == 'pd':
                    # documented exemption of the contract file: the function may append entries to this Series; the entries it was given must be unchanged
                    try:
                        sub = now.loc[sp[1].index]
                        # adding an entry of another type turns the Series into dtype object: compare entry by entry
                        if len(sub) == len(sp[1]) and all((a is b) or (a == b) or (a != a and b != b) for a, b in zip(list(sub.values), list(sp[1].values))):
                            continue
                    except Exception:   # noqa
                        pass
                if not _same(sp, now):
                    if kind == 'receiver':
                        ctx.fail(f"{st['prop']}:receiver-modified:{label}", f"{label}(...) changed the data the receiver was created from (its `_obj`): a second evaluation on the same object sees other values", None)
                    else:
                        ctx.fail(f"{st['prop']}:argument-modified:{label}:{name}", f"{label}(...) modified its argument `{name}` in place (the caller's object holds other values after the call)", None)
    guarded.__pv_guarded__ = True
    return guarded


def install(ctx, prop, modules, exempt=None):
    """wrap the public callables of `modules` (names as in anchors: 'pylife.strength.miner'); returns the number of wrapped callables.
    exempt: {'<label>:<argument>': 'may-add-entries'} stated (with the reason) in the contract file as GUARD_EXEMPT"""
    uninstall()
    _state.update(ctx=ctx, prop=prop, depth=0, calls=0, exempt=dict(exempt or {}))
    n = 0
    for mname in modules:
        try:
            mod = importlib.import_module(mname)
        except Exception:   # noqa
            continue
        for name, obj in list(vars(mod).items()):
            if name.startswith('_'):
                continue
            if isinstance(obj, types.FunctionType) and obj.__module__ == mod.__name__ and not getattr(obj, '__pv_guarded__', False):
                g = _wrap(obj, f'{mname.split(".")[-1]}.{name}', False)
                setattr(mod, name, g)
                _state['installed'].append((mod, name, obj))
                n += 1
            elif isinstance(obj, type) and obj.__module__ == mod.__name__:
                for an, av in list(vars(obj).items()):
                    if an.startswith('_'):
                        continue
                    if isinstance(av, types.FunctionType) and not getattr(av, '__pv_guarded__', False):
                        setattr(obj, an, _wrap(av, f'{obj.__name__}.{an}', True))
                        _state['installed'].append((obj, an, av))
                        n += 1
                    elif isinstance(av, property) and av.fget is not None and not getattr(av.fget, '__pv_guarded__', False):
                        setattr(obj, an, property(_wrap(av.fget, f'{obj.__name__}.{an}', True), av.fset, av.fdel, av.__doc__))
                        _state['installed'].append((obj, an, av))
                        n += 1
    return n


def uninstall():
    for owner, name, orig in reversed(_state['installed']):
        try:
            setattr(owner, name, orig)
        except Exception:   # noqa
            pass
    _state['installed'] = []
    _state.update(ctx=None, prop=None, depth=0)
