"""Symbolic value domain of pv.

SV  - a scalar real/int/bool value, or the *generic element* of an array (element-wise lifting,
      DESIGN 2.4).  Carries optional +inf / -inf flags (extended reals) and a guard (the mask
      under which this element exists after a boolean-mask subscript).
Theory - uninterpreted transcendental functions (ex = 10**u, lg = log10, Phi, Pinv, sq, cos_, ...)
      with axiom instantiation over the terms that occur in a verification condition, and a
      numeric evaluator for the same terms (used by the CPython cross-check and by replays).
"""
import math
import z3

R = z3.RealSort()
I = z3.IntSort()
B = z3.BoolSort()

TRUE = z3.BoolVal(True)
FALSE = z3.BoolVal(False)


def RV(x):
    """python number -> exact z3 real"""
    if isinstance(x, bool):
        raise TypeError("bool is not a real")
    if isinstance(x, int):
        return z3.RealVal(x)
    if isinstance(x, float):
        if math.isinf(x) or math.isnan(x):
            raise ValueError("non finite literal")
        from fractions import Fraction
        # decimal literal semantics: floats are reals (DESIGN 7.2); use the shortest repr
        fr = Fraction(repr(x))
        return z3.RealVal(f"{fr.numerator}/{fr.denominator}")
    raise TypeError(x)


def is_z3(x):
    return isinstance(x, z3.ExprRef)


def to_real(t):
    if z3.is_int(t):
        return z3.ToReal(t)
    return t


def and_(*xs):
    xs = [x for x in xs if x is not None and not z3.is_true(x)]
    if not xs:
        return TRUE
    if len(xs) == 1:
        return xs[0]
    return z3.And(*xs)


def or_(*xs):
    xs = [x for x in xs if x is not None and not z3.is_false(x)]
    if not xs:
        return FALSE
    if len(xs) == 1:
        return xs[0]
    return z3.Or(*xs)


# --------------------------------------------------------------------------------------------
# uninterpreted functions of the theory
# --------------------------------------------------------------------------------------------
ex = z3.Function('ex', R, R)        # 10**u
lg = z3.Function('lg', R, R)        # log10(x), x > 0
Phi = z3.Function('Phi', R, R)      # standard normal cdf
Pinv = z3.Function('Pinv', R, R)    # standard normal quantile
phi_ = z3.Function('phid', R, R)    # standard normal pdf
sq = z3.Function('sq', R, R)        # sqrt, x >= 0
cos_ = z3.Function('cos_', R, R)
sin_ = z3.Function('sin_', R, R)
LN10 = z3.Real('LN10')              # ln(10), enclosed

UF_NAMES = {'ex', 'lg', 'Phi', 'Pinv', 'phid', 'sq', 'cos_', 'sin_'}


def ln(x):
    return lg(x) * LN10


def exp(u):
    return ex(u / LN10)


def pw(x, a):
    """x**a for x > 0 in the log domain"""
    return ex(a * lg(x))


class SV:
    """symbolic scalar / generic element"""
    __slots__ = ('t', 'pinf', 'ninf', 'guard', 'kind', 'index')

    def __init__(self, t, pinf=None, ninf=None, guard=None, kind='scalar', index=None):
        if isinstance(t, SV):
            raise TypeError("nested SV")
        if isinstance(t, bool):
            t = z3.BoolVal(t)
        elif isinstance(t, (int, float)):
            if isinstance(t, float) and math.isinf(t):
                pinf, ninf, t = (TRUE, None, RV(0)) if t > 0 else (None, TRUE, RV(0))
            else:
                t = RV(t) if isinstance(t, float) else z3.IntVal(t)
        if pinf is not None and z3.is_false(z3.simplify(pinf)):
            pinf = None
        if ninf is not None and z3.is_false(z3.simplify(ninf)):
            ninf = None
        self.t = t
        self.pinf = pinf
        self.ninf = ninf
        self.guard = guard
        self.kind = kind      # 'scalar' | 'ndarray' | 'series' | 'frame'
        self.index = index    # opaque index identity token for series (frame conditions)

    # -- helpers
    @property
    def is_bool(self):
        return z3.is_bool(self.t)

    @property
    def has_inf(self):
        return self.pinf is not None or self.ninf is not None

    def P(self):
        return self.pinf if self.pinf is not None else FALSE

    def N(self):
        return self.ninf if self.ninf is not None else FALSE

    def finite(self):
        return z3.Not(or_(self.P(), self.N())) if self.has_inf else TRUE

    def like(self, t, pinf=None, ninf=None):
        return SV(t, pinf, ninf, self.guard, self.kind, self.index)

    def __repr__(self):
        s = f"SV<{self.kind}>({self.t}"
        if self.has_inf:
            s += f", +inf:{self.P()}, -inf:{self.N()}"
        if self.guard is not None:
            s += f" | {self.guard}"
        return s + ")"

    def __bool__(self):
        raise TypeError("symbolic value used as python bool")


def sv(x, kind=None):
    if isinstance(x, SV):
        return x
    if isinstance(x, (bool, int, float)):
        return SV(x)
    if is_z3(x):
        return SV(x)
    raise TypeError(f"cannot lift {x!r}")


def merge_kind(*svs):
    order = {'scalar': 0, 'ndarray': 1, 'series': 2, 'frame': 3}
    k = 'scalar'
    for s in svs:
        if isinstance(s, SV) and order[s.kind] > order[k]:
            k = s.kind
    return k


# --------------------------------------------------------------------------------------------
# axioms
# --------------------------------------------------------------------------------------------
def _collect(term, acc, seen):
    """collect applications of theory functions in term"""
    stack = [term]
    while stack:
        t = stack.pop()
        i = t.get_id()
        if i in seen:
            continue
        seen.add(i)
        if z3.is_app(t):
            d = t.decl()
            if d.kind() == z3.Z3_OP_UNINTERPRETED and d.arity() == 1 and d.name() in UF_NAMES:
                acc.setdefault(d.name(), {})[t.arg(0).get_id()] = t.arg(0)
            stack.extend(t.children())
        elif z3.is_quantifier(t):
            stack.append(t.body())


PINV09_LO = z3.RealVal("128155156554460/100000000000000")
PINV09_HI = z3.RealVal("128155156554461/100000000000000")


def split_sum(u):
    """u as a signed sum of terms: handles a+b, a-b, -a, and (a+-b)*c / c*(a+-b) / (a+-b)/c.
    Returns list of (sign, term) or None if u is atomic."""
    if z3.is_add(u):
        return [(1, c) for c in u.children()]
    if z3.is_sub(u) and u.num_args() == 2:
        return [(1, u.arg(0)), (-1, u.arg(1))]
    if z3.is_app_of(u, z3.Z3_OP_UMINUS):
        return [(-1, u.arg(0))]
    if z3.is_mul(u) and u.num_args() == 2:
        a, b = u.arg(0), u.arg(1)
        for x, y in ((a, b), (b, a)):
            if z3.is_rational_value(x) and x.numerator_as_long() < 0 and not z3.is_rational_value(y):
                pos = z3.simplify(-x)
                if z3.is_rational_value(pos) and pos.numerator_as_long() == 1 and pos.denominator_as_long() == 1:
                    return [(-1, y)]
                return [(-1, pos * y)]
            px = split_sum(x) if (z3.is_add(x) or z3.is_sub(x)) else None
            if px is not None:
                return [(sg, z3.simplify(t * y) if z3.is_rational_value(t) else t * y) for sg, t in px]
    if z3.is_div(u):
        a, b = u.arg(0), u.arg(1)
        pa = split_sum(a) if (z3.is_add(a) or z3.is_sub(a)) else None
        if pa is not None:
            return [(sg, t / b) for sg, t in pa]
    return None


def instantiate_axioms(formulas, extra_terms=(), depth=4, pair_limit=14, max_axioms=900, pairs=True):
    """Return (axioms, stats): ground instances of the theory axioms for the ex/lg/Phi/... terms
    occurring in `formulas` (DESIGN 2.4).  Every instance is a consequence of the real-analytic
    meaning of the function, so adding them is sound; completeness is not claimed."""
    axioms = []
    done = set()

    def add(a):
        k = a.get_id()
        if k not in done:
            done.add(k)
            axioms.append(a)

    cur = list(formulas) + list(extra_terms)
    uses_ln10 = False
    for _ in range(depth):
        acc, seen = {}, set()
        for f in cur + axioms:
            _collect(f, acc, seen)
        before = len(axioms)
        exs = list(acc.get('ex', {}).values())
        lgs = list(acc.get('lg', {}).values())
        for u in exs:
            if z3.is_app_of(u, z3.Z3_OP_ITE):
                add(ex(u) == z3.If(u.arg(0), ex(u.arg(1)), ex(u.arg(2))))
            add(ex(u) > 0)
            add(lg(ex(u)) == u)
            add(z3.Implies(u == 0, ex(u) == 1))
            add((u > 0) == (ex(u) > 1))
            add((u < 0) == (ex(u) < 1))
            add(z3.Implies(u == 1, ex(u) == 10))
            # homomorphism on syntactic sums / differences (also under a common factor)
            parts = split_sum(u)
            if parts is not None and len(parts) <= 4:
                lhs, rhs = ex(u), RV(1)
                for sign, term in parts:
                    if sign > 0:
                        rhs = rhs * ex(term)
                    else:
                        lhs = lhs * ex(term)
                add(lhs == rhs)
        for x in lgs:
            add(z3.Implies(x > 0, ex(lg(x)) == x))
            add(z3.Implies(x > 0, (x > 1) == (lg(x) > 0)))
            add(z3.Implies(x > 0, (x < 1) == (lg(x) < 0)))
            add(z3.Implies(x == 1, lg(x) == 0))
            add(z3.Implies(x == 10, lg(x) == 1))
            if z3.is_mul(x):
                fs = x.children()
                if len(fs) <= 5:
                    add(z3.Implies(z3.And(*[f > 0 for f in fs]), lg(x) == z3.Sum([lg(f) for f in fs])))
            if z3.is_div(x):
                a, b = x.arg(0), x.arg(1)
                add(z3.Implies(z3.And(a > 0, b > 0), lg(x) == lg(a) - lg(b)))
            if z3.is_app_of(x, z3.Z3_OP_ITE):
                add(lg(x) == z3.If(x.arg(0), lg(x.arg(1)), lg(x.arg(2))))
        if pairs and len(exs) <= pair_limit:
            for i in range(len(exs)):
                for j in range(i + 1, len(exs)):
                    u, v = exs[i], exs[j]
                    add((u < v) == (ex(u) < ex(v)))
        if pairs and len(lgs) <= pair_limit:
            for i in range(len(lgs)):
                for j in range(i + 1, len(lgs)):
                    x, y = lgs[i], lgs[j]
                    add(z3.Implies(z3.And(x > 0, y > 0), (x < y) == (lg(x) < lg(y))))
        phis = list(acc.get('Phi', {}).values())
        pinvs = list(acc.get('Pinv', {}).values())
        for x in phis:
            add(z3.And(Phi(x) > 0, Phi(x) < 1))
            add(Pinv(Phi(x)) == x)
            add(Phi(-x) == 1 - Phi(x))
            add((x > 0) == (Phi(x) > RV(0.5)))
            add((x < 0) == (Phi(x) < RV(0.5)))
        for p in pinvs:
            ok = z3.And(p > 0, p < 1)
            add(z3.Implies(ok, Phi(Pinv(p)) == p))
            add(z3.Implies(ok, Pinv(1 - p) == -Pinv(p)))
            add(z3.Implies(ok, (p > RV(0.5)) == (Pinv(p) > 0)))
            add(z3.Implies(ok, (p < RV(0.5)) == (Pinv(p) < 0)))
            add(z3.Implies(p == RV(0.9), z3.And(Pinv(p) >= PINV09_LO, Pinv(p) <= PINV09_HI)))
        for i in range(len(phis)):
            for j in range(i + 1, len(phis)):
                x, y = phis[i], phis[j]
                add((x < y) == (Phi(x) < Phi(y)))
        for i in range(len(pinvs)):
            for j in range(i + 1, len(pinvs)):
                p, q = pinvs[i], pinvs[j]
                add(z3.Implies(z3.And(p > 0, p < 1, q > 0, q < 1), (p < q) == (Pinv(p) < Pinv(q))))
        for x in acc.get('phid', {}).values():
            add(phi_(x) > 0)
            add(phi_(-x) == phi_(x))
        sqs = list(acc.get('sq', {}).values())
        for x in sqs:
            add(z3.Implies(x >= 0, z3.And(sq(x) >= 0, sq(x) * sq(x) == x)))
        for i in range(len(sqs)):
            for j in range(i + 1, len(sqs)):
                x, y = sqs[i], sqs[j]
                add(z3.Implies(z3.And(x >= 0, y >= 0), (x < y) == (sq(x) < sq(y))))
        for x in acc.get('cos_', {}).values():
            add(z3.And(cos_(x) >= -1, cos_(x) <= 1))
        for x in acc.get('sin_', {}).values():
            add(z3.And(sin_(x) >= -1, sin_(x) <= 1))
        if len(axioms) == before or len(axioms) > max_axioms:
            break
    # LN10 enclosure (only matters if it occurs)
    add(z3.And(LN10 > RV(2.302585092994045), LN10 < RV(2.302585092994046)))
    return axioms


# --------------------------------------------------------------------------------------------
# numeric evaluation of z3 terms (floats) - for the CPython cross check and replays
# --------------------------------------------------------------------------------------------
def _norm_cdf(x):
    return 0.5 * math.erfc(-x / math.sqrt(2.0))


def _norm_ppf(p):
    from scipy.stats import norm   # only available in the overlay venv
    return float(norm.ppf(p))


_UF_NUM = {
    'ex': lambda u: 10.0 ** u,
    'lg': lambda x: math.log10(x),
    'Phi': _norm_cdf,
    'Pinv': _norm_ppf,
    'phid': lambda x: math.exp(-0.5 * x * x) / math.sqrt(2 * math.pi),
    'sq': lambda x: math.sqrt(x),
    'cos_': math.cos,
    'sin_': math.sin,
}


class EvalError(Exception):
    pass


def evalf(term, env, rtol=1e-9, atol=1e-12, extra_uf=None):
    """Evaluate z3 term with python floats.  env: {z3 const name: float|int|bool}.
    Equalities / inequalities between reals are evaluated with tolerance (towards *true*), i.e.
    a formula evaluating to False is violated by clearly more than rounding noise."""
    cache = {}

    def close(a, b):
        return abs(a - b) <= atol + rtol * max(abs(a), abs(b))

    def ev(t):
        k = t.get_id()
        if k in cache:
            return cache[k]
        r = ev_(t)
        cache[k] = r
        return r

    def ev_(t):
        if z3.is_int_value(t):
            return t.as_long()
        if z3.is_rational_value(t):
            return float(t.numerator_as_long()) / float(t.denominator_as_long())
        if z3.is_algebraic_value(t):
            return float(t.approx(20).as_fraction())
        if z3.is_true(t):
            return True
        if z3.is_false(t):
            return False
        if not z3.is_app(t):
            raise EvalError(f"cannot evaluate {t.sexpr()[:80]}")
        d = t.decl()
        kind = d.kind()
        ch = t.children()
        if kind == z3.Z3_OP_UNINTERPRETED:
            name = d.name()
            if d.arity() == 0:
                if name == 'LN10':
                    return math.log(10.0)
                if name not in env:
                    raise EvalError(f"no value for {name}")
                return env[name]
            if extra_uf and name in extra_uf:
                return extra_uf[name](*[ev(c) for c in ch])
            if name in _UF_NUM:
                try:
                    return _UF_NUM[name](*[ev(c) for c in ch])
                except (ValueError, OverflowError, ZeroDivisionError) as e:
                    raise EvalError(f"{name}: {e}")
            raise EvalError(f"uninterpreted {name}")
        if kind == z3.Z3_OP_ADD:
            return sum(ev(c) for c in ch)
        if kind == z3.Z3_OP_SUB:
            r = ev(ch[0])
            for c in ch[1:]:
                r -= ev(c)
            return r
        if kind == z3.Z3_OP_UMINUS:
            return -ev(ch[0])
        if kind == z3.Z3_OP_MUL:
            r = 1
            for c in ch:
                r *= ev(c)
            return r
        if kind == z3.Z3_OP_DIV:
            a, b = ev(ch[0]), ev(ch[1])
            if b == 0:
                raise EvalError("division by zero")
            return a / b
        if kind == z3.Z3_OP_IDIV:
            a, b = ev(ch[0]), ev(ch[1])
            if b == 0:
                raise EvalError("division by zero")
            return a // b if b > 0 else -(a // -b)
        if kind == z3.Z3_OP_MOD:
            a, b = ev(ch[0]), ev(ch[1])
            return a % abs(b)
        if kind == z3.Z3_OP_POWER:
            return ev(ch[0]) ** ev(ch[1])
        if kind == z3.Z3_OP_TO_REAL:
            return ev(ch[0])
        if kind == z3.Z3_OP_TO_INT:
            return math.floor(ev(ch[0]))
        if kind == z3.Z3_OP_ITE:
            return ev(ch[1]) if ev(ch[0]) else ev(ch[2])
        if kind == z3.Z3_OP_AND:
            return all(ev(c) for c in ch)
        if kind == z3.Z3_OP_OR:
            return any(ev(c) for c in ch)
        if kind == z3.Z3_OP_NOT:
            return not ev(ch[0])
        if kind == z3.Z3_OP_IMPLIES:
            return (not ev(ch[0])) or ev(ch[1])
        if kind == z3.Z3_OP_XOR:
            return bool(ev(ch[0])) != bool(ev(ch[1]))
        if kind in (z3.Z3_OP_EQ, z3.Z3_OP_IFF):
            a, b = ev(ch[0]), ev(ch[1])
            if isinstance(a, bool) or isinstance(b, bool):
                return bool(a) == bool(b)
            if isinstance(a, int) and isinstance(b, int):
                return a == b
            return close(a, b)
        if kind == z3.Z3_OP_DISTINCT:
            vals = [ev(c) for c in ch]
            return all(vals[i] != vals[j] for i in range(len(vals)) for j in range(i + 1, len(vals)))
        if kind in (z3.Z3_OP_LE, z3.Z3_OP_GE, z3.Z3_OP_LT, z3.Z3_OP_GT):
            a, b = ev(ch[0]), ev(ch[1])
            if isinstance(a, int) and isinstance(b, int):
                return {z3.Z3_OP_LE: a <= b, z3.Z3_OP_GE: a >= b, z3.Z3_OP_LT: a < b, z3.Z3_OP_GT: a > b}[kind]
            if kind == z3.Z3_OP_LE:
                return a <= b or close(a, b)
            if kind == z3.Z3_OP_GE:
                return a >= b or close(a, b)
            if kind == z3.Z3_OP_LT:
                return a < b or close(a, b)
            return a > b or close(a, b)
        raise EvalError(f"operator {d.name()} not evaluable")

    return ev(term)


def model_value(m, const):
    """z3 model value of a Real/Int/Bool constant as python number"""
    v = m.eval(const, model_completion=True)
    if z3.is_int_value(v):
        return v.as_long()
    if z3.is_rational_value(v):
        return float(v.numerator_as_long()) / float(v.denominator_as_long())
    if z3.is_algebraic_value(v):
        return float(v.approx(20).as_fraction())
    if z3.is_true(v):
        return True
    if z3.is_false(v):
        return False
    return str(v)


# --------------------------------------------------------------------------------------------
# log-normalisation: lg of a positive term as a polynomial over lg(atom)
# --------------------------------------------------------------------------------------------
def logform(t, atoms):
    """Return a term denoting lg(t) in which products, quotients, powers, 10**u and nested lg(...) of compound positive terms are expanded
    with lg(ab) = lg a + lg b, lg(a/b) = lg a - lg b, lg(10**u) = u.  `atoms` collects the sub-terms that were treated as opaque positive
    quantities: the expansion is valid when every atom is > 0 (the caller discharges that)."""
    if z3.is_app_of(t, z3.Z3_OP_TO_REAL):
        return logform(t.arg(0), atoms)
    if z3.is_rational_value(t) or z3.is_int_value(t):
        atoms[t.get_id()] = t
        return lg(to_real(t))
    if z3.is_mul(t):
        return z3.Sum([logform(c, atoms) for c in t.children()])
    if z3.is_div(t):
        return logform(t.arg(0), atoms) - logform(t.arg(1), atoms)
    if z3.is_app_of(t, z3.Z3_OP_ITE):
        return z3.If(t.arg(0), logform(t.arg(1), atoms), logform(t.arg(2), atoms))
    if z3.is_app(t) and t.decl().kind() == z3.Z3_OP_UNINTERPRETED and t.decl().arity() == 1 and t.decl().name() == 'ex':
        return expand_logs(t.arg(0), atoms)
    atoms[t.get_id()] = t
    return lg(t)


def expand_logs(u, atoms):
    """replace every lg(x) inside u by logform(x)"""
    cache = {}

    def rec(x):
        k = x.get_id()
        if k in cache:
            return cache[k]
        if z3.is_app(x) and x.decl().kind() == z3.Z3_OP_UNINTERPRETED and x.decl().arity() == 1 and x.decl().name() == 'lg':
            r = logform(x.arg(0), atoms)
        elif z3.is_app(x) and x.num_args() > 0:
            ch = [rec(c) for c in x.children()]
            r = x.decl()(*ch)
        else:
            r = x
        cache[k] = r
        return r
    return rec(u)
