"""Models of python builtins and of the numpy / pandas / scipy calls the verified functions make
(DESIGN 2.4).  Element-wise operations act on the generic element (SV); everything listed in
ASSUMED below is an *assumed contract* of a dependency and is copied into the evidence of every
property whose obligations touched it.
"""
import ast
import math
import z3

from .sym import SV, sv, RV, and_, or_, TRUE, FALSE, to_real, is_z3, merge_kind
from . import sym
from .interp import (Unsupported, PyRaise, PathEnd, PList, SArr, Rec, Obj, Func, Builtin, LibNS,
                     Opaque, ClassV, ModV, Spec)

ASSUMED = {}     # key -> text; filled at import, `used` collected per interp


def assumed(I, key):
    I.used_assumptions.add(key)


A_TEXT = {
    'elementwise': "numpy/pandas arithmetic, comparisons, np.where/power/abs/sign/sqrt/log10/minimum/maximum and boolean-mask "
                   "get/set act independently per element on aligned operands (element-wise lifting to one generic element)",
    'reals': "machine floats are treated as mathematical reals, integers as unbounded; no rounding, overflow or underflow",
    'newton-exact': "scipy.optimize.newton: on normal return the result x satisfies func(x) = 0 (tolerance idealised to 0); "
                    "requires fprime = d func/dx when given (checked as an obligation); convergence itself is not proved",
    'eigvalsh': "np.linalg.eigvalsh of a symmetric 3x3 matrix returns real w0<=w1<=w2 with sum = I1, pairwise products = I2, product = I3 (Vieta)",
    'transcendental': "10**u, log10, ln, exp, sqrt, cos, Phi, Phi^-1 are uninterpreted functions constrained only by instantiated "
                      "algebraic axioms (inverse pairs, monotonicity, homomorphism, ranges, Phi^-1(0.9) enclosure)",
    'broadcast': "PylifeSignal.broadcast returns operands aligned row by row with unchanged per-key values (this is property C13)",
    'copy-fresh': "pandas/numpy .copy() returns a fresh object with equal values",
    'searchsorted': "np.searchsorted(a, v, side) on a sorted array returns the left/right insertion point",
    'norm': "scipy.stats.norm.cdf(x, loc, scale) = Phi((x-loc)/scale), pdf likewise, ppf = Phi^-1",
    'seqops': "np.concatenate / append / insert / slicing / fancy indexing / cumsum behave as the corresponding sequence operations",
    'quad': "scipy.integrate.quad has no accuracy contract (result uninterpreted)",
    'inv': "np.linalg.inv of a 3x3 matrix returns adj(J)/det(J) (the unique inverse) for det != 0 and raises LinAlgError otherwise",
    'root': "scipy.optimize.root: result.success implies |fun(x)| <= solver tolerance (idealised to fun(x)=0); no convergence promise",
}


# --------------------------------------------------------------------------------------------
# SV arithmetic
# --------------------------------------------------------------------------------------------
def lift(x):
    if isinstance(x, SV):
        return x
    if isinstance(x, (bool, int, float)):
        return SV(x)
    if is_z3(x):
        return SV(x)
    raise Unsupported(f"cannot use {type(x).__name__} as a number")


def guards(I, *svs):
    g = None
    for s in svs:
        if s.guard is not None:
            if g is None:
                g = s.guard
            elif not g.eq(s.guard):
                I.oblige('mask-align', 'masks of combined operands agree', g == s.guard)
    return g


def _mk(I, t, a, b=None, pinf=None, ninf=None):
    ops = [x for x in (a, b) if x is not None]
    aid = None
    return SV(t, pinf, ninf, guards(I, *ops), merge_kind(*ops), None)


def safety(I, what, cond, guard=None, lineno=None):
    if guard is not None:
        cond = z3.Implies(guard, cond)
    I.oblige('safety', what, cond, lineno)


def num_is_const(x):
    """python number for constant SV / python value else None"""
    if isinstance(x, bool):
        return None
    if isinstance(x, (int, float)):
        return x
    if isinstance(x, SV) and not x.has_inf and not x.is_bool:
        t = z3.simplify(x.t)
        if z3.is_int_value(t):
            return t.as_long()
        if z3.is_rational_value(t):
            n, d = t.numerator_as_long(), t.denominator_as_long()
            return n // d if d == 1 else n / d
    return None


def realish(t):
    return to_real(t) if z3.is_int(t) else t


def both_int(a, b):
    return z3.is_int(a.t) and z3.is_int(b.t)


def as_arith(x):
    """bool SV -> 0/1 int"""
    if x.is_bool:
        return SV(z3.If(x.t, z3.IntVal(1), z3.IntVal(0)), guard=x.guard, kind=x.kind)
    return x


def binop(I, op, a, b, lineno=None):
    for x in (a, b):
        if hasattr(x, 'pv_binop'):
            return x.pv_binop(b if x is a else a)
    # concrete python values
    if not isinstance(a, (SV, SArr, PList, Rec)) and not isinstance(b, (SV, SArr, PList, Rec)):
        try:
            if op is ast.Add:
                if isinstance(a, tuple) and isinstance(b, PList):
                    return a + tuple(b.items)
                return a + b
            if op is ast.Sub:
                return a - b
            if op is ast.Mult:
                return a * b
            if op is ast.Div:
                return a / b
            if op is ast.FloorDiv:
                return a // b
            if op is ast.Mod:
                if isinstance(a, str):
                    args = b if isinstance(b, tuple) else (b,)
                    if all(isinstance(x, (str, int, float)) for x in args):
                        return a % b
                    return Opaque('str%')
                return a % b
            if op is ast.Pow:
                return a ** b
            if op is ast.BitAnd:
                return a & b
            if op is ast.BitOr:
                return a | b
        except ZeroDivisionError:
            raise PyRaise('ZeroDivisionError', lineno=lineno)
        except TypeError:
            raise Unsupported(f"binop on {type(a).__name__}, {type(b).__name__}")
        raise Unsupported(f"operator {op.__name__}")
    if isinstance(a, PList) or isinstance(b, PList):
        if op is ast.Add and isinstance(a, PList) and isinstance(b, PList) and a.kind == 'list' and b.kind == 'list':
            return PList(a.items + b.items)
        if op is ast.Mult and isinstance(a, PList) and a.kind == 'list' and isinstance(b, int):
            return PList(a.items * b)
        # vector arithmetic (component axis)
        if isinstance(a, PList) and isinstance(b, PList):
            if len(a.items) != len(b.items):
                raise PyRaise('ValueError', 'shape mismatch')
            return PList([binop(I, op, x, y, lineno) for x, y in zip(a.items, b.items)], 'vec')
        if isinstance(a, PList):
            return PList([binop(I, op, x, b, lineno) for x in a.items], 'vec')
        return PList([binop(I, op, a, y, lineno) for y in b.items], 'vec')
    if isinstance(a, SArr) or isinstance(b, SArr):
        return sarr_binop(I, op, a, b, lineno)
    if isinstance(a, Rec) or isinstance(b, Rec):
        raise Unsupported(f"arithmetic on {type(a).__name__}/{type(b).__name__}")
    if isinstance(a, str) or isinstance(b, str):
        return Opaque('str-op')
    if isinstance(a, Opaque) or isinstance(b, Opaque) or a is None or b is None:
        raise Unsupported("arithmetic on opaque value")
    a, b = lift(a), lift(b)
    assumed(I, 'reals')
    if a.kind != 'scalar' or b.kind != 'scalar':
        assumed(I, 'elementwise')
    if op in (ast.BitAnd, ast.BitOr, ast.BitXor):
        if a.is_bool and b.is_bool:
            t = {ast.BitAnd: z3.And, ast.BitOr: z3.Or, ast.BitXor: z3.Xor}[op](a.t, b.t)
            return _mk(I, t, a, b)
        raise Unsupported("bit operation on numbers")
    a, b = as_arith(a), as_arith(b)
    g = guards(I, a, b)
    if a.has_inf or b.has_inf:
        return ext_arith(I, op, a, b, g, lineno)
    x, y = a.t, b.t
    if op is ast.Add:
        return _mk(I, x + y, a, b)
    if op is ast.Sub:
        return _mk(I, x - y, a, b)
    if op is ast.Mult:
        return _mk(I, x * y, a, b)
    if op is ast.Div:
        safety(I, 'divisor != 0', y != 0, g, lineno)
        return _mk(I, realish(x) / realish(y), a, b)
    if op is ast.FloorDiv:
        safety(I, 'divisor != 0', y != 0, g, lineno)
        if both_int(a, b):
            cy = num_is_const(b)
            if cy is not None and cy > 0:
                return _mk(I, x / y, a, b)     # z3 int division = floor for positive divisor
            return _mk(I, z3.If(y > 0, x / y, -((-x) / (-y)) if False else (x / y)), a, b)
        return _mk(I, z3.ToReal(z3.ToInt(realish(x) / realish(y))), a, b)
    if op is ast.Mod:
        if both_int(a, b):
            return _mk(I, x % y, a, b)
        raise Unsupported("real modulo")
    if op is ast.Pow:
        return power(I, a, b, lineno)
    raise Unsupported(f"operator {op.__name__}")


def sarr_map(I, arr, fn, elem='real'):
    """element-wise image of a symbolic-length array under fn: SV -> SV (z3 lambda)"""
    k = z3.Int(f"k!{I.run_id}_{next(I.fresh_counter)}")
    r = fn(SV(z3.Select(arr.a, k)))
    t = r.t
    return SArr(z3.Lambda([k], t), arr.n, 'real' if not z3.is_int(t) else arr.elem, arr.kind)


def sarr_binop(I, op, a, b, lineno=None):
    """element-wise arithmetic of symbolic-length arrays with scalars / equally long arrays"""
    assumed(I, 'elementwise')
    k = z3.Int(f"k!{I.run_id}_{next(I.fresh_counter)}")
    if isinstance(a, SArr) and isinstance(b, SArr):
        if not I.decide(a.n == b.n):
            raise PyRaise('ValueError', 'operands could not be broadcast together', lineno)
        x, y, n, kind = SV(z3.Select(a.a, k)), SV(z3.Select(b.a, k)), a.n, a.kind
    elif isinstance(a, SArr):
        x, y, n, kind = SV(z3.Select(a.a, k)), lift(b), a.n, a.kind
    else:
        x, y, n, kind = lift(a), SV(z3.Select(b.a, k)), b.n, b.kind
    # side conditions (division by zero ...) are raised for the generic element k of the array
    r = binop(I, op, x, y, lineno)
    t = r.t
    return SArr(z3.Lambda([k], t), n, 'real' if not z3.is_int(t) else 'int', kind)


def ext_arith(I, op, a, b, g, lineno):
    """extended real arithmetic (IEEE conventions where defined, safety obligation otherwise)"""
    aP, aN, bP, bN = a.P(), a.N(), b.P(), b.N()
    aF, bF = a.finite(), b.finite()
    x, y = realish(a.t), realish(b.t)
    if op is ast.Add or op is ast.Sub:
        if op is ast.Sub:
            bP, bN, y = bN, bP, -y
        safety(I, 'inf - inf', z3.Not(or_(and_(aP, bN), and_(aN, bP))), g, lineno)
        return _mk(I, x + y, a, b, z3.simplify(or_(aP, bP)), z3.simplify(or_(aN, bN)))
    if op is ast.Mult:
        safety(I, '0 * inf', and_(z3.Implies(z3.Not(aF), or_(z3.Not(bF), y != 0)), z3.Implies(z3.Not(bF), or_(z3.Not(aF), x != 0))), g, lineno)
        apos = or_(aP, and_(aF, x > 0))
        aneg = or_(aN, and_(aF, x < 0))
        bpos = or_(bP, and_(bF, y > 0))
        bneg = or_(bN, and_(bF, y < 0))
        anyinf = z3.Not(and_(aF, bF))
        P = and_(anyinf, or_(and_(apos, bpos), and_(aneg, bneg)))
        N = and_(anyinf, or_(and_(apos, bneg), and_(aneg, bpos)))
        return _mk(I, x * y, a, b, z3.simplify(P), z3.simplify(N))
    if op is ast.Div:
        safety(I, 'inf / inf', or_(aF, bF), g, lineno)
        safety(I, 'divisor != 0', or_(z3.Not(bF), y != 0), g, lineno)
        # finite / inf = 0 ; inf / finite = +-inf
        bpos = and_(bF, y > 0)
        bneg = and_(bF, y < 0)
        P = or_(and_(aP, bpos), and_(aN, bneg))
        N = or_(and_(aP, bneg), and_(aN, bpos))
        t = z3.If(bF, x / z3.If(y == 0, RV(1), y), RV(0))
        return _mk(I, t, a, b, z3.simplify(P), z3.simplify(N))
    if op is ast.Pow:
        safety(I, 'finite operands of power', and_(aF, bF), g, lineno)
        return power(I, SV(a.t, guard=a.guard, kind=a.kind), SV(b.t, guard=b.guard, kind=b.kind), lineno)
    raise Unsupported(f"extended-real operator {op.__name__}")


def power(I, a, b, lineno=None):
    a, b = lift(a), lift(b)
    g = guards(I, a, b)
    if a.has_inf or b.has_inf:
        safety(I, 'finite operands of power', and_(a.finite(), b.finite()), g, lineno)
    cb = num_is_const(b)
    ca = num_is_const(a)
    x = a.t
    if cb is not None and float(cb).is_integer() and abs(cb) <= 6:
        n = int(cb)
        if n == 0:
            return _mk(I, z3.IntVal(1) if z3.is_int(x) else RV(1), a, b)
        t = x
        for _ in range(abs(n) - 1):
            t = t * x
        if n < 0:
            safety(I, 'base != 0 for negative power', x != 0, g, lineno)
            t = 1 / realish(t)
        return _mk(I, t, a, b)
    assumed(I, 'transcendental')
    if ca is not None and ca == 10:
        return _mk(I, sym.ex(realish(b.t)), a, b)
    if cb is not None and cb == 0.5:
        safety(I, 'sqrt of non-negative', x >= 0, g, lineno)
        return _mk(I, sym.sq(realish(x)), a, b)
    x, y = realish(x), realish(b.t)
    safety(I, 'power: base >= 0, and base > 0 unless exponent > 0', z3.And(x >= 0, z3.Or(x > 0, y > 0)), g, lineno)
    # if the path condition already implies base > 0 the zero case is dropped from the term (keeps VCs small)
    known_pos = I.path is not None and I.prune and not I.feasible(z3.And(g, z3.Not(x > 0)) if g is not None else z3.Not(x > 0))
    if known_pos:
        return _mk(I, sym.ex(y * sym.lg(x)), a, b)
    return _mk(I, z3.If(x == 0, RV(0), sym.ex(y * sym.lg(x))), a, b)


def unop(I, op, v, frame=None):
    if hasattr(v, 'pv_binop') and op is not ast.Not:
        return v.pv_binop(None)
    if op is ast.Not:
        t = frame.truth(v)
        if isinstance(t, bool):
            return not t
        return SV(z3.Not(t), guard=v.guard if isinstance(v, SV) else None, kind=v.kind if isinstance(v, SV) else 'scalar')
    if isinstance(v, PList):
        return PList([unop(I, op, x, frame) for x in v.items], v.kind)
    if not isinstance(v, SV):
        if op is ast.USub:
            return -v
        if op is ast.UAdd:
            return +v
        if op is ast.Invert:
            return ~v
    if op is ast.USub:
        v = as_arith(v)
        return SV(-v.t, v.ninf, v.pinf, v.guard, v.kind)
    if op is ast.UAdd:
        return v
    if op is ast.Invert:
        if v.is_bool:
            return v.like(z3.Not(v.t))
        raise Unsupported("~ on number")
    raise Unsupported(f"unary {op.__name__}")


def cmp_terms(op, a, b):
    """extended-real comparison of SV a, b -> z3 Bool"""
    if a.is_bool or b.is_bool:
        if a.is_bool and b.is_bool:
            if op is ast.Eq:
                return a.t == b.t
            if op is ast.NotEq:
                return a.t != b.t
        a, b = as_arith(a), as_arith(b)
    x, y = a.t, b.t
    if z3.is_int(x) != z3.is_int(y):
        x, y = realish(x), realish(y)
    if not (a.has_inf or b.has_inf):
        return {ast.Lt: x < y, ast.LtE: x <= y, ast.Gt: x > y, ast.GtE: x >= y, ast.Eq: x == y, ast.NotEq: x != y}[op]
    aF, bF = a.finite(), b.finite()
    lt = or_(and_(aF, bF, x < y), and_(a.N(), z3.Not(b.N())), and_(b.P(), z3.Not(a.P())))
    eq = or_(and_(aF, bF, x == y), and_(a.P(), b.P()), and_(a.N(), b.N()))
    if op is ast.Lt:
        return lt
    if op is ast.LtE:
        return or_(lt, eq)
    if op is ast.Gt:
        return z3.Not(or_(lt, eq))
    if op is ast.GtE:
        return z3.Not(lt)
    if op is ast.Eq:
        return eq
    return z3.Not(eq)


def compare(I, op, a, b, frame=None):
    if op in (ast.In, ast.NotIn) and hasattr(b, 'pv_contains'):
        r = b.pv_contains(a)
        if op is ast.In:
            return r
        return (not r) if isinstance(r, bool) else SV(z3.Not(r.t))
    if op not in (ast.Is, ast.IsNot, ast.In, ast.NotIn):
        for x in (a, b):
            if hasattr(x, 'pv_compare'):
                return x.pv_compare(b if x is a else a)
    if op in (ast.Is, ast.IsNot):
        if isinstance(a, SV) or isinstance(b, SV):
            r = (a is None) == (b is None) and (a is b)
        else:
            r = a is b or (a is None and b is None) or (isinstance(a, (bool, int, str)) and type(a) is type(b) and a == b)
        return r if op is ast.Is else not r
    if op in (ast.In, ast.NotIn):
        if isinstance(b, Rec):
            r = a in b.fields
        elif isinstance(b, dict):
            r = a in b
        elif isinstance(b, (tuple, list, PList)):
            items = b.items if isinstance(b, PList) else b
            if isinstance(a, SV):
                c = or_(*[cmp_terms(ast.Eq, a, lift(x)) for x in items])
                return SV(c if op is ast.In else z3.Not(c))
            r = any((not isinstance(x, SV)) and x == a for x in items)
        elif isinstance(b, Opaque) and b.tag[0] == 'keys':
            r = a in b.tag[1]
        elif isinstance(b, SArr):
            # x in array: some position holds x
            kk = z3.Int(_fresh_name(I, 'k'))
            at = lift(a).t
            ex_ = z3.Exists([kk], z3.And(kk >= 0, kk < b.n, z3.Select(b.a, kk) == (z3.ToReal(at) if (z3.is_int(at) and b.elem == 'real') else at)))
            return SV(ex_ if op is ast.In else z3.Not(ex_))
        else:
            raise Unsupported(f"'in' on {type(b).__name__}")
        return r if op is ast.In else not r
    if isinstance(a, PList) or isinstance(b, PList):
        if isinstance(a, PList) and isinstance(b, PList):
            return PList([compare(I, op, x, y) for x, y in zip(a.items, b.items)], 'vec')
        if isinstance(a, PList):
            return PList([compare(I, op, x, b) for x in a.items], 'vec')
        return PList([compare(I, op, a, y) for y in b.items], 'vec')
    if not isinstance(a, SV) and not isinstance(b, SV):
        if isinstance(a, (Obj, Rec, SArr, Opaque)) or isinstance(b, (Obj, Rec, SArr, Opaque)):
            if op is ast.Eq:
                return a is b
            if op is ast.NotEq:
                return a is not b
            raise Unsupported("ordering of objects")
        try:
            return {ast.Lt: lambda: a < b, ast.LtE: lambda: a <= b, ast.Gt: lambda: a > b, ast.GtE: lambda: a >= b,
                    ast.Eq: lambda: a == b, ast.NotEq: lambda: a != b}[op]()
        except TypeError:
            raise Unsupported(f"comparison of {type(a).__name__} and {type(b).__name__}")
    if a is None or b is None:
        return op is ast.NotEq
    if isinstance(a, str) or isinstance(b, str):
        return op is ast.NotEq
    a, b = lift(a), lift(b)
    g = guards(I, a, b)
    return SV(cmp_terms(op, a, b), guard=g, kind=merge_kind(a, b))


def logical_and(I, a, b):
    if isinstance(a, bool) and isinstance(b, bool):
        return a and b
    a, b = lift(a), lift(b)
    return _mk(I, z3.And(a.t, b.t), a, b)


def ite(I, c, a, b, use_ctx=True):
    """np.where / masked assignment on generic elements"""
    if isinstance(c, bool):
        return a if c else b
    c = z3.simplify(c)
    if z3.is_true(c):
        return lift(a)
    if z3.is_false(c):
        return lift(b)
    if use_ctx and I is not None and getattr(I, 'path', None) is not None and I.prune and I.path.pc:
        # condition decided by the path condition / contract hypotheses: keep the term small
        if not I.feasible(z3.Not(c)):
            return lift(a)
        if not I.feasible(c):
            return lift(b)
    a, b = lift(a), lift(b)
    if a.t.eq(b.t) and not a.has_inf and not b.has_inf:
        return SV(a.t, kind=merge_kind(a, b))
    if a.is_bool and b.is_bool:
        return SV(z3.If(c, a.t, b.t), kind=merge_kind(a, b))
    a, b = as_arith(a), as_arith(b)
    x, y = a.t, b.t
    if z3.is_int(x) != z3.is_int(y):
        x, y = realish(x), realish(y)
    pinf = z3.simplify(z3.If(c, a.P(), b.P())) if (a.has_inf or b.has_inf) else None
    ninf = z3.simplify(z3.If(c, a.N(), b.N())) if (a.has_inf or b.has_inf) else None
    return SV(z3.If(c, x, y), pinf, ninf, kind=merge_kind(a, b))


# --------------------------------------------------------------------------------------------
# iteration / containers
# --------------------------------------------------------------------------------------------
def try_concrete_iter(I, v):
    if isinstance(v, PList):
        return list(v.items)
    if isinstance(v, (set, frozenset)):
        return sorted(v, key=lambda x: (x is None, str(x)))     # iteration order of a set is unspecified: one fixed order
    if isinstance(v, (tuple, list)):
        return list(v)
    if isinstance(v, range):
        return list(v)
    if isinstance(v, dict):
        return list(v.keys())
    if isinstance(v, Opaque) and v.tag[0] == 'enumerate':
        return v.tag[1]
    if isinstance(v, Opaque) and v.tag[0] == 'items':
        return v.tag[1]
    return None


def iterate(I, v):
    it = try_concrete_iter(I, v)
    if it is None:
        raise Unsupported(f"cannot iterate {type(v).__name__}")
    return it


def idx_term(I, i):
    """index value -> z3 Int term"""
    if isinstance(i, bool):
        raise Unsupported("bool index")
    if isinstance(i, int):
        return z3.IntVal(i)
    if isinstance(i, SV):
        if z3.is_int(i.t):
            return i.t
        raise Unsupported("real valued index")
    raise Unsupported(f"index {type(i).__name__}")


def getitem(I, base, idx, lineno=None):
    if isinstance(base, SV):
        if isinstance(idx, SV) and idx.is_bool:
            # boolean mask selection on the generic element
            g = idx.t if base.guard is None else z3.And(base.guard, idx.t)
            return SV(base.t, base.pinf, base.ninf, g, base.kind, base.index)
        if isinstance(idx, slice) and idx.start is None and idx.stop is None:
            return base
        if idx is Ellipsis or idx == ():
            return base
        raise Unsupported(f"subscript of a generic element by {idx!r} (line {lineno})")
    if hasattr(base, 'pv_getitem'):
        return base.pv_getitem(idx)
    if isinstance(base, TableIloc):
        i = idx_term(I, idx)
        n = base.rec.tindex.n
        if not I.decide(z3.And(i >= -n, i < n)):
            raise PyRaise('IndexError', 'single positional indexer is out-of-bounds', lineno)
        pos = z3.If(i < 0, i + n, i)
        return Rec({c: SV(z3.Select(a.a, pos)) for c, a in base.rec.fields.items() if isinstance(a, SArr)}, 'series')
    if isinstance(base, LocIndexer):
        if isinstance(idx, SV) and idx.is_bool:
            return getitem(I, base.rec, idx, lineno)
        if isinstance(idx, tuple) and len(idx) == 2 and isinstance(idx[0], slice) and idx[0] == slice(None, None, None):
            return getitem(I, base.rec, idx[1], lineno)
        mask, col = idx
        if isinstance(mask, SV) and mask.is_bool and isinstance(col, str):
            return getitem(I, getitem(I, base.rec, col, lineno), mask, lineno)
        raise Unsupported(".loc of this form")
    if isinstance(base, Rec):
        if isinstance(idx, str):
            if idx not in base.fields:
                raise PyRaise('KeyError', idx, lineno)
            return base.fields[idx]
        if isinstance(idx, SV) and idx.is_bool:
            r = Rec({k: getitem(I, v, idx, lineno) if isinstance(v, SV) else v for k, v in base.fields.items()}, base.kind)
            return r
        if isinstance(idx, (PList, list)):
            keys = idx.items if isinstance(idx, PList) else idx
            return Rec({k: base.fields[k] for k in keys}, base.kind, index=base.index)
        raise Unsupported(f"record subscript {idx!r}")
    if isinstance(base, dict):
        k = idx
        hv = [x for x in (k if isinstance(k, tuple) else (k,)) if hasattr(x, 'pv_havoc')]
        if hv:
            # arbitrary key: the lookup fails or yields an arbitrary object
            hv[0].world.may_fail('dict lookup with an arbitrary key', kinds=('KeyError',))
            return hv[0]._new('dict[]')
        if k not in base:
            raise PyRaise('KeyError', str(k), lineno)
        return base[k]
    if isinstance(base, (PList, tuple, list)):
        items = base.items if isinstance(base, PList) else list(base)
        if isinstance(idx, tuple):
            # w[..., k]
            if len(idx) == 2 and idx[0] is Ellipsis and isinstance(idx[1], int):
                return items[idx[1]]
            if len(idx) == 2 and all(isinstance(k, int) for k in idx):
                return getitem(I, items[idx[0]], idx[1], lineno)
            raise Unsupported(f"tuple index {idx!r}")
        if isinstance(idx, slice):
            lo, hi, st = (num_is_const(x) if x is not None else None for x in (idx.start, idx.stop, idx.step))
            sub = items[slice(lo, hi, st)]
            return PList(sub, base.kind) if isinstance(base, PList) else tuple(sub)
        k = num_is_const(idx) if not isinstance(idx, int) else idx
        if k is None:
            raise Unsupported("symbolic index into concrete list")
        if not -len(items) <= k < len(items):
            raise PyRaise('IndexError', lineno=lineno)
        return items[k]
    if isinstance(base, SArr):
        if isinstance(idx, slice):
            return slice_arr(I, base, idx, lineno)
        if isinstance(idx, SArr):
            return fancy(I, base, idx, lineno)
        if isinstance(idx, int) and idx < 0:
            i = base.n + idx
        else:
            i = idx_term(I, idx)
        inb = z3.And(i >= 0, i < base.n)
        if base.unchecked or I.unchecked_stack[-1]:
            safety(I, f"index in bounds (unchecked memoryview access, line {lineno})", inb, None, lineno)
        else:
            if not I.decide(inb):
                raise PyRaise('IndexError', lineno=lineno)
        e = z3.Select(base.a, i)
        return SV(e)
    if isinstance(base, Opaque):
        raise Unsupported(f"subscript of opaque {base.tag}")
    raise Unsupported(f"subscript of {type(base).__name__}")


def slice_arr(I, base, sl, lineno):
    """a[lo:hi] -> new SArr view (copy semantics are irrelevant for read-only use; writes to
    slices are not modelled)"""
    assumed(I, 'seqops')
    if sl.step is not None:
        raise Unsupported("slice step")
    n = base.n

    def norm(v, default):
        if v is None:
            return default
        if isinstance(v, int) and v < 0:
            t = n + v
            return z3.If(t < 0, z3.IntVal(0), t)
        t = idx_term(I, v)
        return z3.If(t > n, n, z3.If(t < 0, z3.If(n + t < 0, z3.IntVal(0), n + t), t))
    lo = norm(sl.start, z3.IntVal(0))
    hi = norm(sl.stop, n)
    ln = z3.simplify(z3.If(hi > lo, hi - lo, z3.IntVal(0)))
    lo = z3.simplify(lo)
    if z3.is_int_value(lo) and lo.as_long() == 0:
        return SArr(base.a, ln, base.elem, base.kind)
    k = z3.Int(f"k!{I.run_id}_{next(I.fresh_counter)}")
    na = z3.Lambda([k], z3.Select(base.a, k + lo))
    return SArr(na, ln, base.elem, base.kind)


def fancy(I, base, idx, lineno):
    assumed(I, 'seqops')
    k = z3.Int(f"k!{I.run_id}_{next(I.fresh_counter)}")
    j = z3.Int(f"j!{I.run_id}_{next(I.fresh_counter)}")
    # every index in bounds (IndexError otherwise): obligation-free, becomes an assumption on the
    # normal path and a raise path otherwise
    inb = z3.ForAll([j], z3.Implies(z3.And(j >= 0, j < idx.n), z3.And(z3.Select(idx.a, j) >= 0, z3.Select(idx.a, j) < base.n)))
    safety(I, f"fancy index in bounds (line {lineno})", inb, None, lineno)
    na = z3.Lambda([k], z3.Select(base.a, z3.Select(idx.a, k)))
    return SArr(na, idx.n, base.elem, base.kind)


# pandas accessors of pyLife that the verified code itself uses on intermediate results
ACCESSORS = {
    'load_collective': {'frame': ('pylife.stress.collective.load_collective', 'LoadCollective')},
}


class TableIloc:
    """table.iloc[i] -> row record (IndexError path when out of range; negative positions wrap like pandas)"""
    def __init__(self, rec):
        self.rec = rec


class LocIndexer:
    """frame.loc[mask, column] on a generic-row record"""
    def __init__(self, rec):
        self.rec = rec


class GroupBy:
    def __init__(self, sv_, by):
        self.sv = sv_
        self.by = by


def reduction(I, kind, x):
    """sum / max / min over the rows of a (masked) column: an uninterpreted number per distinct (term, mask);
    recorded so that contracts can state the sum calculus rules they need"""
    x = lift(x)
    key = (kind, x.t.get_id(), x.guard.get_id() if x.guard is not None else None)
    if key not in I.reductions:
        c = z3.Real(f"{kind}#{len(I.reductions)}")
        I.reductions[key] = {'kind': kind, 'term': x.t, 'mask': x.guard, 'value': c}
    I.reduction_uses.append(key)
    return SV(I.reductions[key]['value'], kind='scalar')


def setitem(I, frame, target_expr, base, idx, val, lineno=None):
    if hasattr(base, 'pv_setitem'):
        return base.pv_setitem(idx, val)
    if isinstance(base, LocIndexer):
        mask, col = idx
        if not (isinstance(mask, SV) and mask.is_bool and isinstance(col, str)):
            raise Unsupported(".loc assignment of this form")
        assumed(I, 'elementwise')
        cur = base.rec.fields.get(col)
        if cur is None:
            raise PyRaise('KeyError', col, lineno)
        v = lift(val) if not isinstance(val, SV) else val
        new = ite(I, mask.t, SV(v.t, v.pinf, v.ninf), lift(cur))
        base.rec.fields[col] = SV(new.t, new.pinf, new.ninf, None, 'series', base.rec.index)
        base.rec.writes.append(col)
        return
    if isinstance(base, SV):
        if isinstance(idx, SV) and idx.is_bool:
            assumed(I, 'elementwise')
            v = lift(val) if not isinstance(val, SV) else val
            if v.guard is not None and not v.guard.eq(idx.t):
                # rhs selected with another mask: positions only agree if the masks are equal
                full = v.guard
                lhs_mask = idx.t if base.guard is None else z3.And(base.guard, idx.t)
                if not full.eq(lhs_mask):
                    I.oblige('mask-align', f'mask of assigned value equals mask of target (line {lineno})', full == lhs_mask, lineno)
            new = ite(I, idx.t, SV(v.t, v.pinf, v.ninf), SV(base.t, base.pinf, base.ninf))
            new = SV(new.t, new.pinf, new.ninf, base.guard, merge_kind(base, v), base.index)
            I.note_write(base)
            frame.assign(target_expr, new)
            return
        raise Unsupported(f"item assignment on generic element with index {idx!r}")
    if isinstance(base, Rec):
        if isinstance(idx, (PList, list)) and isinstance(val, Rec):
            for c in (idx.items if isinstance(idx, PList) else idx):
                if c not in val.fields:
                    raise PyRaise('KeyError', c, lineno)
                base.fields[c] = val.fields[c]
                base.writes.append(c)
            return
        if isinstance(idx, str):
            if base.kind == 'frame' and isinstance(val, (int, float)) and not isinstance(val, bool):
                val = SV(RV(float(val)), kind='series', index=base.index)
            elif base.kind == 'frame' and isinstance(val, SV) and val.kind in ('ndarray', 'scalar'):
                val = SV(val.t, val.pinf, val.ninf, val.guard, 'series', base.index)
            base.fields[idx] = val
            base.writes.append(idx)
            return
        raise Unsupported("record item assignment")
    if isinstance(base, dict):
        base[idx] = val
        return
    if isinstance(base, PList):
        k = num_is_const(idx) if not isinstance(idx, int) else idx
        if k is None:
            raise Unsupported("symbolic index store into concrete list")
        base.items[k] = val
        return
    if isinstance(base, SArr):
        if isinstance(idx, slice):
            if idx.start is not None or idx.step is not None or idx.stop is None or not isinstance(val, SArr):
                raise Unsupported("slice assignment of this form")
            m = idx_term(I, idx.stop)
            # a[:m] = b : numpy needs len(b) == len(a[:m]) = min(m, len(a)) (m >= 0)
            ok = z3.And(m >= 0, val.n == z3.If(m < base.n, m, base.n))
            if not I.decide(ok):
                raise PyRaise('ValueError', 'could not broadcast', lineno)
            k = z3.Int(f"k!{I.run_id}_{next(I.fresh_counter)}")
            old_a = base.a
            base.a = z3.Lambda([k], z3.If(z3.And(k >= 0, k < m), z3.Select(val.a, k), z3.Select(old_a, k)))
            return
        i = idx_term(I, idx)
        inb = z3.And(i >= 0, i < base.n)
        if base.unchecked or I.unchecked_stack[-1]:
            safety(I, f"store index in bounds (unchecked memoryview access, line {lineno})", inb, None, lineno)
        else:
            if not I.decide(inb):
                raise PyRaise('IndexError', lineno=lineno)
        v = lift(val)
        t = v.t
        if base.elem == 'real':
            t = realish(t)
        elif base.elem == 'uint':
            safety(I, f"value stored into unsigned array is >= 0 (line {lineno})", t >= 0, None, lineno)
        base.a = z3.Store(base.a, i, t)
        return
    raise Unsupported(f"item assignment on {type(base).__name__}")


def delitem(I, base, idx, lineno):
    if hasattr(base, 'pv_delitem'):
        return base.pv_delitem(idx)
    if isinstance(base, dict):
        if idx not in base:
            raise PyRaise('KeyError', lineno=lineno)
        del base[idx]
        return
    raise Unsupported("del item")


# --------------------------------------------------------------------------------------------
# attribute access
# --------------------------------------------------------------------------------------------
def bound(name, fn):
    return Builtin(name, fn)


def getattr_(I, base, attr, frame, lineno=None):
    if hasattr(base, 'pv_getattr'):
        return base.pv_getattr(attr)
    if isinstance(base, Obj):
        if attr in base.fields:
            return base.fields[attr]
        if attr == '__class__':
            return base.cls
        c, node = base.cls.lookup(attr)
        if node is None:
            # PylifeSignal.__getattr__ fallbacks are not modelled
            raise Unsupported(f"attribute {attr} of {base.cls.name}")
        if isinstance(node, ast.Assign):
            return I.eval_class_attr(c, node)
        f = Func(node, c.mod, None, f"{c.mod.name}::{c.name}.{node.name}", base, c)
        decos = [d.id if isinstance(d, ast.Name) else (d.attr if isinstance(d, ast.Attribute) else None) for d in node.decorator_list]
        if 'property' in decos:
            return I.call_func(f, [], {})
        if 'staticmethod' in decos:
            return Func(node, c.mod, None, f.qualname, None, c)
        return f
    if isinstance(base, ClassV):
        c, node = base.lookup(attr)
        if node is None:
            raise Unsupported(f"class attribute {attr}")
        if isinstance(node, ast.Assign) and any(isinstance(b, ast.Name) and b.id == 'Enum' for b in c.node.bases):
            # enum member: one object per (class, name) with .name / .value; == is identity
            key = ('enum', c.mod.name, c.name, attr)
            if key not in I.classes:
                m = Obj(c)
                m.fields['name'] = attr
                m.fields['value'] = I.eval_class_attr(c, node)
                I.classes[key] = m
            return I.classes[key]
        if isinstance(node, ast.Assign):
            return I.eval_class_attr(c, node)
        return Func(node, c.mod, None, f"{c.mod.name}::{c.name}.{node.name}", None, c)
    if isinstance(base, ModV):
        try:
            return I.module_global(base.mod, attr)
        except KeyError:
            from . import extract as _ex
            try:
                return ModV(_ex.load_module(base.mod.name + '.' + attr))
            except FileNotFoundError:
                raise Unsupported(f"attribute {attr} of module {base.mod.name}")
    if isinstance(base, LibNS):
        return base.get(attr)
    if isinstance(base, SV):
        return sv_attr(I, base, attr, lineno)
    if isinstance(base, Rec):
        return rec_attr(I, base, attr, lineno)
    if isinstance(base, PList):
        return plist_attr(I, base, attr, lineno)
    if isinstance(base, SArr):
        return sarr_attr(I, base, attr, lineno)
    if isinstance(base, dict):
        if attr == 'get':
            return bound('dict.get', lambda k, d=None: base.get(k, d))
        if attr == 'keys':
            return bound('dict.keys', lambda: PList(list(base.keys())))
        if attr == 'items':
            return bound('dict.items', lambda: PList([(k, v) for k, v in base.items()]))
        if attr == 'values':
            return bound('dict.values', lambda: PList(list(base.values())))
    if isinstance(base, GroupBy):
        if attr in ('sum', 'max', 'min'):
            return bound(attr, lambda *a, **k: reduction(I, attr, base.sv))
        raise Unsupported(f"groupby().{attr}")
    if isinstance(base, Opaque):
        if base.tag == 'flags':
            return Opaque('flags')
        return I.opaque_attr(base, attr)
    if isinstance(base, (int, float)):
        if attr == 'shape':
            return ()
        if attr == 'ndim':
            return 0
    if isinstance(base, tuple) and attr == 'index':
        pass
    if isinstance(base, (set, frozenset)):
        def as_set(x):
            it = try_concrete_iter(I, x)
            if it is None:
                raise Unsupported('set operation with a symbolic operand')
            return set(it)
        ops = {'intersection': lambda o: base & as_set(o), 'difference': lambda o: base - as_set(o), 'union': lambda o: base | as_set(o),
               'issubset': lambda o: base <= as_set(o), 'add': lambda x: base.add(x)}
        if attr in ops:
            return bound('set.' + attr, ops[attr])
    if isinstance(base, Builtin) and base.name == 'str' and attr == 'encode':
        return bound('str.encode', lambda s_, *a: Opaque('bytes'))
    if isinstance(base, str) and attr == 'encode':
        return bound('str.encode', lambda *a: Opaque('bytes'))
    raise Unsupported(f"attribute {attr} of {type(base).__name__}")


def setattr_(I, base, attr, v):
    if hasattr(base, 'pv_setattr'):
        return base.pv_setattr(attr, v)
    if isinstance(base, Opaque):
        return
    raise Unsupported(f"attribute assignment on {type(base).__name__}")


def sv_attr(I, x, attr, lineno):
    if attr == 'shape':
        return () if x.kind == 'scalar' else I.shape1()
    if attr == 'ndim':
        return 0 if x.kind == 'scalar' else 1
    if attr == 'size':
        if x.kind == 'scalar':
            return 1
        return SV(I.array_len())
    if attr in ('values', 'T', 'real'):
        return SV(x.t, x.pinf, x.ninf, x.guard, 'ndarray' if x.kind != 'scalar' else 'scalar', x.index)
    if attr == 'index':
        return Opaque(('index', x.index))
    if attr == 'flags':
        return Opaque('flags')
    if attr == 'dtype':
        return Opaque('dtype')
    if attr in ('copy', 'to_numpy', 'astype', 'flatten', 'squeeze', 'ravel'):
        kind = x.kind
        if attr in ('to_numpy', 'flatten', 'ravel') and kind != 'scalar':
            kind = 'ndarray'
        if attr == 'copy':
            assumed(I, 'copy-fresh')
        return bound(attr, lambda *a, **k: SV(x.t, x.pinf, x.ninf, x.guard, kind, None if attr == 'copy' else x.index))
    if attr == 'any':
        def any_():
            if x.kind == 'scalar':
                return x
            r = I.fresh('any', 'bool')
            I.assume(z3.Implies(x.t if x.guard is None else z3.And(x.guard, x.t), r))
            return SV(r)
        return bound('any', any_)
    if attr == 'all':
        def all_():
            if x.kind == 'scalar':
                return x
            r = I.fresh('all', 'bool')
            I.assume(z3.Implies(r, x.t if x.guard is None else z3.Implies(x.guard, x.t)))
            return SV(r)
        return bound('all', all_)
    if attr == 'abs':
        return bound('abs', lambda: np_abs(I, x))
    if attr == 'fillna':
        return bound('fillna', lambda v, **k: x)      # reals have no NaN
    if attr == 'item':
        return bound('item', lambda: x)
    if attr == 'groupby':
        return bound('groupby', lambda *a, **k: GroupBy(x, a))
    if attr in ('sum', 'max', 'min'):
        def red(*a, **k):
            if x.kind == 'scalar':
                return x
            return reduction(I, attr, x)
        return bound(attr, red)
    if attr == 'reset_index':
        return bound('reset_index', lambda *a, **k: None if k.get('inplace') else x)
    if attr == 'name':
        return None
    raise Unsupported(f"attribute {attr} of a numeric value (line {lineno})")


def rec_attr(I, r, attr, lineno):
    if attr in r.fields:
        return r.fields[attr]
    if r.kind == 'table':
        if attr == 'index':
            return r.tindex
        if attr == 'iloc':
            return TableIloc(r)
    if attr == 'get':
        return bound('get', lambda k, d=None: r.fields.get(k, d))
    if attr == 'copy':
        assumed(I, 'copy-fresh')
        return bound('copy', lambda *a, **k: r.copy())
    if attr == 'index':
        if r.kind == 'series':
            return Opaque(('keys', tuple(r.fields)))
        return Opaque(('index', r.index))
    if attr in ('keys',):
        return bound('keys', lambda: Opaque(('keys', tuple(r.fields))))
    if attr == 'columns':
        return Opaque(('keys', tuple(r.fields)))
    if attr == 'to_pandas':
        return bound('to_pandas', lambda: r)
    if attr in ('max', 'min') and r.kind == 'frame':
        def rowwise(axis=None, **k):
            if axis != 1:
                raise Unsupported(f"frame.{attr} over rows")
            vals = list(r.fields.values())
            out = vals[0]
            for v in vals[1:]:
                out = minmax2(I, out, v, attr == 'max')
            return SV(out.t, out.pinf, out.ninf, None, 'series', r.index)
        return bound(attr, rowwise)
    if attr in ('multiply', 'add') and r.kind == 'frame':
        def colwise(other, axis=None, **k):
            opn = ast.Mult if attr == 'multiply' else ast.Add
            return Rec({c: binop(I, opn, v, other) for c, v in r.fields.items()}, 'frame', index=r.index)
        return bound(attr, colwise)
    if attr in ACCESSORS and r.kind in ACCESSORS[attr]:
        modname, clsname = ACCESSORS[attr][r.kind]
        from . import extract as _ex
        m = _ex.load_module(modname)
        return I.instantiate(I.get_class(m, m.find(clsname)), [r], {})
    if attr == 'loc':
        return LocIndexer(r)
    if attr == 'columns':
        return Opaque(('keys', tuple(r.fields)))
    if attr == 'drop':
        def drop(cols=None, columns=None, axis=None, inplace=False, **k):
            cs = columns if columns is not None else cols
            cs = cs.items if isinstance(cs, PList) else ([cs] if isinstance(cs, str) else list(cs))
            n = Rec({k_: v for k_, v in r.fields.items() if k_ not in cs}, r.kind, index=r.index)
            if inplace:
                for c in cs:
                    r.fields.pop(c, None)
                return None
            return n
        return bound('drop', drop)
    raise PyRaise('AttributeError', attr, lineno)


def plist_attr(I, p, attr, lineno):
    if attr == 'append':
        return bound('append', lambda v: p.items.append(v))
    if attr == 'pop':
        def pop(i=-1):
            if not p.items:
                raise PyRaise('IndexError', lineno=lineno)
            return p.items.pop(i)
        return bound('pop', pop)
    if attr == 'insert':
        return bound('insert', lambda i, v: p.items.insert(i, v))
    if attr == 'extend':
        return bound('extend', lambda o: p.items.extend(iterate(I, o)))
    if attr == 'T':
        # the column layout is not represented (a symmetric 3x3 is its own transpose, eigvalsh obliges symmetry); only the fact is kept for np.sort
        q = PList(p.items, p.kind)
        q.transposed = not getattr(p, 'transposed', False)
        return q
    if attr == 'shape':
        return (len(p.items),)
    if attr == 'ndim':
        return 1
    if attr == 'size':
        return len(p.items)
    if attr == 'copy':
        return bound('copy', lambda: PList(p.items, p.kind))
    raise Unsupported(f"attribute {attr} of list")


def sarr_attr(I, a, attr, lineno):
    if attr == 'append':
        if a.kind != 'list':
            raise Unsupported("append on ndarray")

        def append(v):
            t = lift(v).t
            if a.elem == 'real':
                t = realish(t)
            a.a = z3.Store(a.a, a.n, t)
            a.n = a.n + 1
        return bound('append', append)
    if attr == 'pop':
        def pop():
            if not I.decide(a.n > 0):
                raise PyRaise('IndexError', lineno=lineno)
            a.n = z3.simplify(a.n - 1)
            return SV(z3.Select(a.a, a.n))
        return bound('pop', pop)
    if attr == 'size':
        return SV(a.n)
    if attr == 'searchsorted':
        return bound('searchsorted', lambda v, side='left', **k: np_searchsorted(I, a, v, side))
    if attr in ('values', 'to_numpy'):
        return a if attr == 'values' else bound('to_numpy', lambda *x, **k: a)
    if attr == 'reset_index':
        return bound('reset_index', lambda *x, **k: a)
    if attr == 'shape':
        return (SV(a.n),)
    if attr == 'astype':
        return bound('astype', lambda *x, **k: a)
    if attr == 'copy':
        return bound('copy', lambda: SArr(a.a, a.n, a.elem, a.kind))
    raise Unsupported(f"attribute {attr} of array")


# --------------------------------------------------------------------------------------------
# numpy functions on generic elements
# --------------------------------------------------------------------------------------------
def elementwise(fn):
    def wrapped(I, x, *rest, **kw):
        if isinstance(x, PList):
            return PList([wrapped(I, e, *rest, **kw) for e in x.items], 'vec')
        if isinstance(x, tuple):
            return PList([wrapped(I, e, *rest, **kw) for e in x], 'vec')
        return fn(I, x, *rest, **kw)
    return wrapped


@elementwise
def np_abs(I, x):
    if isinstance(x, (int, float)):
        return abs(x)
    if isinstance(x, SArr) and x.elem == 'real':
        # element-wise on a sequence of symbolic length: the array k -> |a[k]|
        k = z3.Int(_fresh_name(I, 'k'))
        e = z3.Select(x.a, k)
        return SArr(z3.Lambda([k], z3.If(e >= 0, e, -e)), x.n, 'real', 'ndarray')
    x = as_arith(lift(x))
    t = z3.If(x.t >= 0, x.t, -x.t)
    if x.has_inf:
        return SV(t, z3.simplify(or_(x.P(), x.N())), None, x.guard, x.kind)
    return x.like(t)


@elementwise
def np_sign(I, x):
    if isinstance(x, (int, float)):
        return (x > 0) - (x < 0)
    x = as_arith(lift(x))
    one, zero = (z3.IntVal(1), z3.IntVal(0)) if z3.is_int(x.t) else (RV(1), RV(0))
    pos = x.t > 0 if not x.has_inf else or_(x.P(), and_(x.finite(), x.t > 0))
    neg = x.t < 0 if not x.has_inf else or_(x.N(), and_(x.finite(), x.t < 0))
    return SV(z3.If(pos, one, z3.If(neg, -one, zero)), guard=x.guard, kind=x.kind)


@elementwise
def np_sqrt(I, x):
    if isinstance(x, (int, float)):
        return math.sqrt(x)
    x = lift(x)
    assumed(I, 'transcendental')
    safety(I, 'sqrt of non-negative', x.t >= 0, x.guard)
    return x.like(sym.sq(realish(x.t)))


@elementwise
def np_log10(I, x):
    if isinstance(x, (int, float)):
        x = SV(float(x))
    x = lift(x)
    assumed(I, 'transcendental')
    safety(I, 'log10 of positive', x.t > 0, x.guard)
    return x.like(sym.lg(realish(x.t)))


@elementwise
def np_log(I, x):
    if isinstance(x, (int, float)):
        x = SV(float(x))
    x = lift(x)
    assumed(I, 'transcendental')
    safety(I, 'log of positive', x.t > 0, x.guard)
    return x.like(sym.ln(realish(x.t)))


@elementwise
def np_exp(I, x):
    if isinstance(x, (int, float)):
        x = SV(float(x))
    x = lift(x)
    assumed(I, 'transcendental')
    return x.like(sym.exp(realish(x.t)))


@elementwise
def np_cos(I, x):
    x = lift(x)
    assumed(I, 'transcendental')
    return x.like(sym.cos_(realish(x.t)))


def _where_out(I, opnode, a, b, out, where):
    """numpy ufunc(a, b, out=o, where=w): result is op(a, b) where w holds, o elsewhere; the operation is only evaluated where w holds"""
    if where is None:
        return binop(I, opnode, a, b)
    w = lift(where)
    a, b = lift(a), lift(b)
    ga = SV(a.t, a.pinf, a.ninf, w.t if a.guard is None else z3.And(a.guard, w.t), a.kind)
    gb = SV(b.t, b.pinf, b.ninf, ga.guard, b.kind)
    r = binop(I, opnode, ga, gb)
    o_ = lift(out) if out is not None else SV(I.fresh('uninitialised'))
    res = ite(I, w.t, SV(r.t, r.pinf, r.ninf), SV(o_.t, o_.pinf, o_.ninf), use_ctx=False)
    return SV(res.t, res.pinf, res.ninf, a.guard, merge_kind(a, b, w, o_))


def np_power(I, a, b, out=None, where=None):
    return _where_out(I, ast.Pow, a, b, out, where)


def np_divide(I, a, b, out=None, where=None):
    return _where_out(I, ast.Div, a, b, out, where)


def np_where(I, c, a=None, b=None):
    if a is None:
        raise Unsupported("np.where with one argument on generic element")
    c = lift(c)
    assumed(I, 'elementwise')
    r = ite(I, c.t, a, b)
    return SV(r.t, r.pinf, r.ninf, guards(I, *[x for x in (c, a, b) if isinstance(x, SV)]), merge_kind(c, lift(a), lift(b)))


def np_asarray(I, x, dtype=None, **kw):
    if isinstance(x, (int, float)) and not isinstance(x, bool):
        return SV(float(x)) if dtype is not None or isinstance(x, float) else SV(x)
    if isinstance(x, SV):
        if dtype is not None and z3.is_int(x.t):
            return x.like(to_real(x.t))
        return x
    if isinstance(x, (PList, SArr, Rec)):
        return x
    if isinstance(x, (tuple, list)):
        return PList(list(x), 'vec')
    if hasattr(x, 'pv_asarray'):      # ghost container of a contract file (e.g. a pandas Series whose values are an array)
        return x.pv_asarray()
    raise Unsupported(f"np.asarray of {type(x).__name__}")


def np_array(I, x, dtype=None, **kw):
    if isinstance(x, SV):
        if dtype is not None and x.is_bool:
            return as_arith(x)
        return SV(x.t, x.pinf, x.ninf, x.guard, x.kind, None)
    if isinstance(x, PList):
        # nested lists -> matrix of components
        return PList([np_array(I, e) if isinstance(e, PList) else e for e in x.items], 'vec')
    return np_asarray(I, x, dtype)


def np_full_like(I, x, fill, dtype=None, **kw):
    f = lift(fill)
    k = x.kind if isinstance(x, SV) else 'ndarray'
    t = f.t
    if dtype is not None:
        t = realish(t)
    return SV(t, f.pinf, f.ninf, None, k)


def np_isfinite(I, x):
    x = lift(x)
    return SV(x.finite(), guard=x.guard, kind=x.kind)


def np_isinf(I, x):
    x = lift(x)
    return SV(z3.Not(x.finite()), guard=x.guard, kind=x.kind)


def np_isnan(I, x):
    x = lift(x)
    return SV(FALSE, guard=x.guard, kind=x.kind)


def minmax2(I, a, b, is_max):
    a, b = lift(a), lift(b)
    c = cmp_terms(ast.GtE if is_max else ast.LtE, a, b)
    r = ite(I, c, a, b)
    return SV(r.t, r.pinf, r.ninf, guards(I, a, b), merge_kind(a, b))


def np_amax(I, x, axis=None, **kw):
    if isinstance(x, PList):
        r = x.items[0]
        for e in x.items[1:]:
            r = minmax2(I, r, e, True)
        return r
    raise Unsupported("np.amax over symbolic axis")


def np_amin(I, x, axis=None, **kw):
    if isinstance(x, PList):
        r = x.items[0]
        for e in x.items[1:]:
            r = minmax2(I, r, e, False)
        return r
    raise Unsupported("np.amin over symbolic axis")


def np_zeros(I, shape, **kw):
    if isinstance(shape, tuple) and len(shape) == 1 and isinstance(shape[0], int):
        return PList([SV(0.0) for _ in range(shape[0])], 'vec')
    if isinstance(shape, int):
        return PList([SV(0.0) for _ in range(shape)], 'vec')
    raise Unsupported("np.zeros of symbolic shape")


def np_arange(I, n, *rest, **kw):
    if len(rest) == 1:
        start, stop = n, rest[0]
        if isinstance(start, int) and isinstance(stop, int):
            return PList([SV(k) for k in range(start, stop)], 'vec')
        st, sp_ = idx_term(I, start), idx_term(I, stop)
        k = z3.Int(f"k!{I.run_id}_{next(I.fresh_counter)}")
        ln = z3.simplify(z3.If(sp_ - st > 0, sp_ - st, z3.IntVal(0)))
        return SArr(z3.Lambda([k], k + st), ln, 'int', 'ndarray')
    if rest:
        raise Unsupported("np.arange with step")
    if isinstance(n, int):
        return PList([SV(k) for k in range(n)], 'vec')
    nt = idx_term(I, n)
    k = z3.Int(f"k!{I.run_id}_{next(I.fresh_counter)}")
    return SArr(z3.Lambda([k], k), z3.If(nt > 0, nt, z3.IntVal(0)), 'uint', 'ndarray')


def _fresh_name(I, base):
    return f"{base}!{I.run_id}_{next(I.fresh_counter)}"


def np_cumsum(I, a, **kw):
    """assumed: out[0] = a[0], out[j] = out[j-1] + a[j]"""
    assumed(I, 'seqops')
    if not isinstance(a, SArr):
        raise Unsupported("cumsum of non-array")
    sort = a.a.sort().range()
    C = z3.Array(_fresh_name(I, 'cumsum'), z3.IntSort(), sort)
    j = z3.Int(_fresh_name(I, 'j'))
    I.assume(z3.Implies(a.n > 0, z3.Select(C, 0) == z3.Select(a.a, 0)))
    I.assume(z3.ForAll([j], z3.Implies(z3.And(j > 0, j < a.n), z3.Select(C, j) == z3.Select(C, j - 1) + z3.Select(a.a, j))))
    I.cumsum_records.append({'in': a, 'out': C})
    return SArr(C, a.n, a.elem, 'ndarray')


def np_insert(I, a, pos, val, **kw):
    assumed(I, 'seqops')
    if not isinstance(a, SArr) or num_is_const(pos) != 0:
        raise Unsupported("np.insert other than at position 0")
    v = lift(val).t
    if a.elem == 'real':
        v = realish(v)
    k = z3.Int(_fresh_name(I, 'k'))
    return SArr(z3.Lambda([k], z3.If(k == 0, v, z3.Select(a.a, k - 1))), a.n + 1, a.elem, 'ndarray')


def np_append(I, a, x, **kw):
    assumed(I, 'seqops')
    if isinstance(a, SArr) and isinstance(x, (SV, int, float)):
        v = lift(x).t
        if a.elem == 'real':
            v = realish(v)
        return SArr(z3.Store(a.a, a.n, v), a.n + 1, a.elem, 'ndarray')
    if isinstance(a, SArr) and isinstance(x, SArr):
        return np_concatenate(I, (a, x))
    raise Unsupported("np.append of these operands")


def np_concatenate(I, parts, **kw):
    assumed(I, 'seqops')
    parts = iterate(I, parts)
    arrs = []
    for p in parts:
        if isinstance(p, SArr):
            arrs.append(p)
        elif isinstance(p, PList):
            # short literal list [x]
            sort = z3.RealSort()
            arr = z3.K(z3.IntSort(), RV(0))
            for i, e in enumerate(p.items):
                arr = z3.Store(arr, i, realish(lift(e).t))
            arrs.append(SArr(arr, z3.IntVal(len(p.items)), 'real', 'ndarray'))
        else:
            raise Unsupported(f"concatenate of {type(p).__name__}")
    elem = arrs[0].elem
    k = z3.Int(_fresh_name(I, 'k'))
    off = z3.IntVal(0)
    body = None
    offs = []
    for a in arrs:
        offs.append(off)
        off = off + a.n
    body = z3.Select(arrs[-1].a, k - offs[-1])
    if any(a.elem == 'real' for a in arrs):
        elem = 'real'
    for a, o_ in zip(reversed(arrs[:-1]), reversed(offs[:-1])):
        e = z3.Select(a.a, k - o_)
        if elem == 'real':
            e = realish(e)
            body = realish(body)
        body = z3.If(k < o_ + a.n, e, body)
    return SArr(z3.Lambda([k], body), z3.simplify(off), elem, 'ndarray')


def np_argext(which):
    def f(I, a, **kw):
        """assumed contract of np.argmax / np.argmin on a 1-d array: the first position of the largest / smallest element; ValueError on an empty array"""
        assumed(I, 'seqops')
        if not isinstance(a, SArr):
            raise Unsupported(f"arg{which} of {type(a).__name__}")
        if not I.decide(a.n > 0):
            raise PyRaise('ValueError', f'arg{which} of an empty sequence')
        i = I.fresh(f'arg{which}', 'int')
        k = z3.Int(_fresh_name(I, 'k'))
        ai = z3.Select(a.a, i)
        better = (lambda x, y: x <= y) if which == 'max' else (lambda x, y: x >= y)
        strictly = (lambda x, y: x < y) if which == 'max' else (lambda x, y: x > y)
        I.assume(z3.And(i >= 0, i < a.n))
        I.assume(z3.ForAll([k], z3.Implies(z3.And(k >= 0, k < a.n), better(z3.Select(a.a, k), ai))))
        I.assume(z3.ForAll([k], z3.Implies(z3.And(k >= 0, k < i), strictly(z3.Select(a.a, k), ai))))
        return SV(i)
    return f


def np_searchsorted(I, a, v, side='left', **kw):
    """assumed contract (A_TEXT['searchsorted']); precondition: a is sorted (stated on adjacent elements)"""
    assumed(I, 'searchsorted')
    if not isinstance(a, SArr):
        raise Unsupported("searchsorted on non-array")
    v = lift(v)
    j = z3.Int(_fresh_name(I, 'j'))
    I.oblige('call-pre', 'np.searchsorted: array is sorted (adjacent elements non-decreasing)',
             z3.ForAll([j], z3.Implies(z3.And(j >= 0, j + 1 < a.n), z3.Select(a.a, j) <= z3.Select(a.a, j + 1))))
    p = I.fresh('ssorted', 'int')
    x = v.t
    sel_ = lambda idx: z3.Select(a.a, idx)   # noqa: E731
    I.assume(z3.And(p >= 0, p <= a.n))
    if side == 'right':
        I.assume(z3.ForAll([j], z3.Implies(z3.And(j >= 0, j < p), sel_(j) <= x)))
        I.assume(z3.ForAll([j], z3.Implies(z3.And(j >= p, j < a.n), sel_(j) > x)))
    else:
        I.assume(z3.ForAll([j], z3.Implies(z3.And(j >= 0, j < p), sel_(j) < x)))
        I.assume(z3.ForAll([j], z3.Implies(z3.And(j >= p, j < a.n), sel_(j) >= x)))
    return SV(p, guard=v.guard, kind=v.kind)


def np_sum(I, x, **kw):
    if isinstance(x, (PList, tuple, list)):
        return b_sum(I, x)
    x = lift(x)
    if x.kind == 'scalar':
        return x
    return reduction(I, 'sum', x)


def np_dot(I, a, b):
    a, b = lift(a), lift(b)
    if a.kind == 'scalar' and b.kind == 'scalar':
        return binop(I, ast.Mult, a, b)
    return reduction(I, 'sum', binop(I, ast.Mult, a, b))


def np_isclose(I, a, b, rtol=1e-05, atol=1e-08, **kw):
    if isinstance(a, (int, float)) and isinstance(b, (int, float)):
        return abs(a - b) <= atol + rtol * abs(b)
    a, b = lift(a), lift(b)
    d = realish(a.t) - realish(b.t)
    bb = realish(b.t)
    return _mk(I, z3.And(d <= RV(atol) + RV(rtol) * z3.If(bb >= 0, bb, -bb), -d <= RV(atol) + RV(rtol) * z3.If(bb >= 0, bb, -bb)), a, b)


def _elem_truth(x):
    """elementwise truth value of a numeric operand: x != 0"""
    if z3.is_bool(x.t):
        return x
    return SV(realish(x.t) != 0, guard=x.guard, kind=x.kind)


def np_all(I, x, **kw):
    if isinstance(x, (bool, int, float)):
        return bool(x)
    x = _elem_truth(lift(x))
    if x.kind == 'scalar':
        return x
    key = ('all', x.t.get_id(), None if x.guard is None else x.guard.get_id())
    memo = I.__dict__.setdefault('_anyall_memo', {})
    if key in memo:
        return SV(memo[key][0])
    r = I.fresh('all', 'bool')
    memo[key] = (r, x)                       # the reduction is a function of its operand: the same operand term gives the same symbol
    I.assume(z3.Implies(r, x.t if x.guard is None else z3.Implies(x.guard, x.t)))
    return SV(r)


def np_any(I, x, **kw):
    if isinstance(x, (bool, int, float)):
        return bool(x)
    x = _elem_truth(lift(x))
    if x.kind == 'scalar':
        return x
    key = ('any', x.t.get_id(), None if x.guard is None else x.guard.get_id())
    memo = I.__dict__.setdefault('_anyall_memo', {})
    if key in memo:
        return SV(memo[key][0])
    r = I.fresh('any', 'bool')
    memo[key] = (r, x)
    I.assume(z3.Implies(x.t if x.guard is None else z3.And(x.guard, x.t), r))
    return SV(r)


def np_sort(I, x, axis=-1, **kw):
    """np.sort along the last axis of a short vector of scalars, or of the transposed stack of k series (row-wise sort of an (n, k) array): a sorting network of
    compare-exchange steps over the k items"""
    if not isinstance(x, PList) or not x.items or len(x.items) > 6 or any(isinstance(v, PList) for v in x.items):
        raise Unsupported("np.sort of this operand")
    if axis not in (-1, 1):
        raise Unsupported("np.sort along another axis")
    items = [lift(v) for v in x.items]
    kind = merge_kind(*items)
    if kind != 'scalar' and not getattr(x, 'transposed', False):
        raise Unsupported("np.sort within the rows of a stack of series")
    ts = [realish(v.t) for v in items]
    n = len(ts)
    for i in range(n):
        for j in range(n - 1 - i):
            a, b = ts[j], ts[j + 1]
            ts[j], ts[j + 1] = z3.If(a <= b, a, b), z3.If(a <= b, b, a)
    out = PList([SV(t, kind=kind) for t in ts], 'vec')
    return out


def optimize_root(I, fun, x0=None, tol=None, **kw):
    """assumed contract of scipy.optimize.root (A_TEXT['root'])"""
    assumed(I, 'root')
    x = I.fresh('rootx')
    ok = I.fresh('root_success', 'bool')
    y = lift(I.call(fun, [SV(x)], {}))
    I.assume(z3.Implies(ok, realish(y.t) == 0))
    res = Rec({'success': SV(ok), 'x': PList([SV(x)], 'vec'), 'fun': y}, 'result')
    I.root_records.append({'x': x, 'f': y.t, 'success': ok})
    return res


def integrate_quad(I, f, a, b, **kw):
    """scipy.integrate.quad has no accuracy contract: the result is an uninterpreted number; integrand and limits are recorded"""
    assumed(I, 'quad')
    x = I.fresh('quad_x')
    y = lift(I.call(f, [SV(x)], {}))
    q = I.fresh('quad_result')
    I.quad_records.append({'x': x, 'integrand': y.t, 'lower': lift(a).t, 'upper': lift(b).t, 'value': q})
    return (SV(q), SV(I.fresh('quad_err')))


def np_trapezoid(I, y, x=None, **kw):
    y = lift(y)
    q = I.fresh('trapz_result')
    I.quad_records.append({'integrand': y.t, 'x': lift(x).t if x is not None else None, 'value': q, 'kind': 'trapezoid'})
    return SV(q)


def np_invert(I, x):
    x = lift(x)
    if x.is_bool:
        return x.like(z3.Not(x.t))
    raise Unsupported("np.invert on numbers")


def np_empty(I, n, dtype=None, **kw):
    """np.empty(n, dtype): uninitialised symbolic array"""
    nt = idx_term(I, n)
    elem = 'real'
    if isinstance(dtype, Opaque) and dtype.tag in ('uintp', 'uint'):
        elem = 'uint'
    sort = z3.RealSort() if elem == 'real' else z3.IntSort()
    a = z3.Array(f"empty!{I.run_id}_{next(I.fresh_counter)}", z3.IntSort(), sort)
    if not (isinstance(n, int) and n >= 0):
        safety(I, 'np.empty length >= 0', nt >= 0)
    return SArr(a, nt, elem, 'ndarray')


def np_iinfo(I, dtype):
    """np.iinfo of the fixed-width integer types: their exact limits"""
    tag = dtype.tag if isinstance(dtype, Opaque) else None
    lim = {'int32': (-2**31, 2**31 - 1), 'int64': (-2**63, 2**63 - 1), 'uintp': (0, 2**64 - 1)}
    if tag not in lim:
        raise Unsupported(f"np.iinfo of {dtype!r}")
    return Rec({'min': lim[tag][0], 'max': lim[tag][1]}, 'iinfo')


def _det3(a):
    return (a[0][0] * (a[1][1] * a[2][2] - a[1][2] * a[2][1]) - a[0][1] * (a[1][0] * a[2][2] - a[1][2] * a[2][0])
            + a[0][2] * (a[1][0] * a[2][1] - a[1][1] * a[2][0]))


def linalg_det(I, m):
    """np.linalg.det of a 3x3 matrix: the determinant polynomial (the same term linalg_inv divides by)"""
    rows = m.items
    if len(rows) != 3 or any(not isinstance(r, PList) or len(r.items) != 3 for r in rows):
        raise Unsupported("det of non 3x3")
    a = [[realish(lift(rows[i].items[j]).t) for j in range(3)] for i in range(3)]
    det = _det3(a)
    I.inv_records.append({'det': det, 'op': 'det'})
    return SV(det)


def linalg_inv(I, m):
    """assumed contract of np.linalg.inv for 3x3 matrices: the unique inverse adj(J)/det(J) for det != 0, LinAlgError otherwise"""
    I.used_assumptions.add('inv')
    rows = m.items
    if len(rows) != 3 or any(not isinstance(r, PList) or len(r.items) != 3 for r in rows):
        raise Unsupported("inv of non 3x3")
    a = [[realish(lift(rows[i].items[j]).t) for j in range(3)] for i in range(3)]
    det = _det3(a)
    I.inv_records.append({'det': det, 'op': 'inv'})
    if not I.decide(det != 0):
        raise PyRaise('LinAlgError')

    def cof(i, j):
        r = [x for x in range(3) if x != i]
        c = [x for x in range(3) if x != j]
        minor = a[r[0]][c[0]] * a[r[1]][c[1]] - a[r[0]][c[1]] * a[r[1]][c[0]]
        return minor if (i + j) % 2 == 0 else -minor
    inv = [[cof(j, i) / det for j in range(3)] for i in range(3)]
    return PList([PList([SV(inv[i][j]) for j in range(3)], 'vec') for i in range(3)], 'vec')


EIG = [z3.Function(f'eig{k}', *([z3.RealSort()] * 7)) for k in range(3)]


def eigvalsh(I, m):
    assumed(I, 'eigvalsh')
    rows = m.items
    if len(rows) != 3 or any(not isinstance(r, PList) or len(r.items) != 3 for r in rows):
        raise Unsupported("eigvalsh of non 3x3")
    a = [[lift(rows[i].items[j]) for j in range(3)] for i in range(3)]
    for i in range(3):
        for j in range(i + 1, 3):
            if not a[i][j].t.eq(a[j][i].t):
                I.oblige('call-pre', 'eigvalsh: matrix is symmetric', a[i][j].t == a[j][i].t)
    s11, s22, s33 = a[0][0].t, a[1][1].t, a[2][2].t
    s12, s13, s23 = a[0][1].t, a[0][2].t, a[1][2].t
    # eigvalsh is a function of the matrix: the three eigenvalues are uninterpreted functions of the six
    # components, so repeated calls on the same tensor denote the same values
    args6 = [realish(x) for x in (s11, s22, s33, s12, s13, s23)]
    w = [EIG[k](*args6) for k in range(3)]
    I1 = s11 + s22 + s33
    I2 = s11 * s22 + s22 * s33 + s11 * s33 - s12 * s12 - s13 * s13 - s23 * s23
    I3 = s11 * s22 * s33 + 2 * s12 * s13 * s23 - s11 * s23 * s23 - s22 * s13 * s13 - s33 * s12 * s12
    I.assume(z3.And(w[0] <= w[1], w[1] <= w[2]))
    I.assume(w[0] + w[1] + w[2] == I1)
    I.assume(w[0] * w[1] + w[1] * w[2] + w[0] * w[2] == I2)
    I.assume(w[0] * w[1] * w[2] == I3)
    kind = merge_kind(*[x for r in a for x in r])
    I.eig_records.append((w, (s11, s22, s33, s12, s13, s23)))
    return PList([SV(x, kind=kind) for x in w], 'vec')


# --------------------------------------------------------------------------------------------
# symbolic differentiation (for the `deriv` obligations)
# --------------------------------------------------------------------------------------------
def diff(t, x):
    """d t / d x for terms built from + - * / ite and the theory functions.  ite conditions are
    treated as locally constant (valid away from the switching surface)."""
    cache = {}

    def d(t):
        k = t.get_id()
        if k in cache:
            return cache[k]
        r = d_(t)
        cache[k] = r
        return r

    def d_(t):
        if t.eq(x):
            return RV(1)
        if z3.is_rational_value(t) or z3.is_int_value(t) or z3.is_algebraic_value(t):
            return RV(0)
        if not z3.is_app(t):
            raise Unsupported("diff of quantifier")
        kind = t.decl().kind()
        ch = t.children()
        if kind == z3.Z3_OP_UNINTERPRETED:
            name = t.decl().name()
            if t.decl().arity() == 0:
                return RV(0)
            u = ch[0]
            du = d(u)
            if name == 'ex':
                return sym.LN10 * sym.ex(u) * du
            if name == 'lg':
                return du / (u * sym.LN10)
            if name == 'sq':
                return du / (2 * sym.sq(u))
            if name == 'Phi':
                return sym.phi_(u) * du
            if name == 'cos_':
                return -sym.sin_(u) * du
            if name == 'sin_':
                return sym.cos_(u) * du
            raise Unsupported(f"diff of {name}")
        if kind == z3.Z3_OP_ADD:
            return z3.Sum([d(c) for c in ch])
        if kind == z3.Z3_OP_SUB:
            r = d(ch[0])
            for c in ch[1:]:
                r = r - d(c)
            return r
        if kind == z3.Z3_OP_UMINUS:
            return -d(ch[0])
        if kind == z3.Z3_OP_MUL:
            terms = []
            for i in range(len(ch)):
                p = d(ch[i])
                for j in range(len(ch)):
                    if j != i:
                        p = p * ch[j]
                terms.append(p)
            return z3.Sum(terms)
        if kind == z3.Z3_OP_DIV:
            a, b = ch
            return (d(a) * b - a * d(b)) / (b * b)
        if kind == z3.Z3_OP_ITE:
            return z3.If(ch[0], d(ch[1]), d(ch[2]))
        if kind == z3.Z3_OP_TO_REAL:
            return RV(0)
        if kind == z3.Z3_OP_POWER:
            if z3.is_rational_value(ch[1]) or z3.is_int_value(ch[1]):
                return ch[1] * ch[0] ** (ch[1] - 1) * d(ch[0])
        raise Unsupported(f"diff of operator {t.decl().name()}")

    return d(t)


def newton(I, func=None, x0=None, fprime=None, args=(), tol=None, rtol=None, maxiter=None, full_output=False, **kw):
    """assumed contract of scipy.optimize.newton (A_TEXT['newton-exact'])"""
    assumed(I, 'newton-exact')
    x0 = lift(x0) if not isinstance(x0, SV) else x0
    x = I.fresh('root')
    xs = SV(x, guard=x0.guard, kind=x0.kind)
    extra = list(args) if isinstance(args, (tuple, list)) else list(iterate(I, args))
    zero_iterate = False
    if getattr(I, 'newton_split_sign', False):
        # case split on the sign of the iterate: func / fprime are then evaluated with a known sign (smaller terms);
        # the iterate 0 is a single point where |.| / where= guards are not differentiable
        if I.decide(x > 0):
            pass
        elif I.decide(x < 0):
            pass
        else:
            zero_iterate = True
    y = I.call(func, [xs] + extra, {})
    y = lift(y)
    if fprime is not None:
        dy = lift(I.call(fprime, [xs] + extra, {}))
        if not zero_iterate:
            want = z3.simplify(diff(realish(y.t), x))
            I.oblige('deriv', 'fprime passed to newton is d func / dx', realish(dy.t) == want)
        I.newton_records.append({'x': x, 'f': y.t, 'df': dy.t})
    else:
        I.newton_records.append({'x': x, 'f': y.t, 'df': None})
    I.assume(realish(y.t) == 0)
    if full_output:
        conv = SV(TRUE, kind=x0.kind)
        return (xs, conv, Opaque('zero_der'))
    return xs


# --------------------------------------------------------------------------------------------
# python builtins
# --------------------------------------------------------------------------------------------
def b_len(I, x):
    if hasattr(x, 'pv_len'):
        return x.pv_len()
    if isinstance(x, PList):
        return len(x.items)
    if isinstance(x, (tuple, list, dict, str)):
        return len(x)
    if isinstance(x, SArr):
        return SV(x.n)
    if isinstance(x, SV):
        if x.kind == 'scalar':
            raise PyRaise('TypeError', 'len of scalar')
        return SV(I.array_len())
    if isinstance(x, Rec):
        if x.kind == 'table':
            return SV(x.tindex.n)
        return SV(I.array_len())
    raise Unsupported(f"len of {type(x).__name__}")


def b_isinstance(I, x, cls):
    if hasattr(x, 'pv_isinstance'):
        return x.pv_isinstance(cls)
    def one(c):
        tag = c.tag if isinstance(c, (Opaque, LibType)) else c
        if isinstance(c, Builtin) and not isinstance(c, LibType) and c.name in ('float', 'int', 'list', 'tuple', 'str', 'dict', 'bool'):
            tag = c.name
        if tag == 'pd.Series':
            return (isinstance(x, SV) and x.kind == 'series') or (isinstance(x, Rec) and x.kind == 'series')
        if tag == 'pd.DataFrame':
            return (isinstance(x, SV) and x.kind == 'frame') or (isinstance(x, Rec) and x.kind == 'frame')
        if tag == 'np.ndarray':
            return (isinstance(x, SV) and x.kind == 'ndarray') or isinstance(x, SArr) and x.kind == 'ndarray'
        if tag == 'float':
            return isinstance(x, float) or (isinstance(x, SV) and x.kind == 'scalar' and not z3.is_int(x.t) and not x.is_bool)
        if tag == 'int':
            return (isinstance(x, int) and not isinstance(x, bool)) or (isinstance(x, SV) and x.kind == 'scalar' and z3.is_int(x.t))
        if tag == 'list':
            return isinstance(x, PList) and x.kind == 'list' or (isinstance(x, SArr) and x.kind == 'list')
        if tag == 'tuple':
            return isinstance(x, tuple)
        if tag == 'str':
            return isinstance(x, str)
        if tag == 'dict':
            return isinstance(x, dict)
        if tag == 'np.number':
            return isinstance(x, SV) and x.kind == 'scalar'
        if isinstance(c, ClassV):
            return isinstance(x, Obj) and c in x.cls.mro()
        raise Unsupported(f"isinstance against {c!r}")
    if isinstance(cls, tuple):
        return any(one(c) for c in cls)
    return one(cls)


def _seq_extreme(I, a, which, kw):
    """python max / min of a sequence of symbolic length: the default (or ValueError) when it is empty, otherwise a value that occurs in it and bounds all elements"""
    assumed(I, 'seqops')
    if not I.decide(a.n > 0):
        if 'default' in kw:
            return kw['default']
        raise PyRaise('ValueError', f'{which}() arg is an empty sequence')
    m = I.fresh(which, 'real' if a.elem == 'real' else 'int')
    i = I.fresh(f'{which}_at', 'int')
    k = z3.Int(_fresh_name(I, 'k'))
    sel = lambda j: z3.Select(a.a, j)     # noqa: E731
    I.assume(z3.And(i >= 0, i < a.n, sel(i) == m))
    I.assume(z3.ForAll([k], z3.Implies(z3.And(k >= 0, k < a.n), sel(k) <= m if which == 'max' else sel(k) >= m)))
    return SV(m)


def b_max(I, *args, **kw):
    if len(args) == 1 and isinstance(args[0], SArr):
        return _seq_extreme(I, args[0], 'max', kw)
    if len(args) == 1:
        args = iterate(I, args[0])
    r = args[0]
    for e in args[1:]:
        if not isinstance(r, SV) and not isinstance(e, SV):
            r = max(r, e)
        else:
            # python max(a, b): returns b only if b > a
            a, b = lift(r), lift(e)
            c = cmp_terms(ast.Gt, b, a)
            x = ite(I, c, b, a)
            r = SV(x.t, x.pinf, x.ninf, guards(I, a, b), merge_kind(a, b))
    return r


def b_min(I, *args, **kw):
    if len(args) == 1 and isinstance(args[0], SArr):
        return _seq_extreme(I, args[0], 'min', kw)
    if len(args) == 1:
        args = iterate(I, args[0])
    r = args[0]
    for e in args[1:]:
        if not isinstance(r, SV) and not isinstance(e, SV):
            r = min(r, e)
        else:
            a, b = lift(r), lift(e)
            c = cmp_terms(ast.Lt, b, a)
            x = ite(I, c, b, a)
            r = SV(x.t, x.pinf, x.ninf, guards(I, a, b), merge_kind(a, b))
    return r


def b_abs(I, x):
    return np_abs(I, x)


def b_float(I, x):
    if isinstance(x, (int, float)):
        return float(x)
    if isinstance(x, str):
        return float(x)
    x = lift(x)
    return x.like(realish(x.t))


def b_int(I, x):
    if isinstance(x, (int, float)):
        return int(x)
    x = lift(x)
    if z3.is_int(x.t):
        return x
    # truncation towards zero
    t = z3.If(x.t >= 0, z3.ToInt(x.t), -z3.ToInt(-x.t))
    return x.like(t)


def b_bool(I, x):
    if isinstance(x, SV):
        return x if x.is_bool else x.like(x.t != 0)
    return bool(x)


def b_range(I, *a):
    if all(isinstance(x, int) for x in a):
        return range(*a)
    c = [num_is_const(x) for x in a]
    if all(isinstance(x, int) for x in c):
        return range(*c)
    raise Unsupported("range over symbolic bounds")


def b_enumerate(I, x, start=0):
    return PList([(i + start, e) for i, e in enumerate(iterate(I, x))])


def b_zip(I, *xs):
    return PList(list(zip(*[iterate(I, x) for x in xs])))


def b_all(I, x):
    items = iterate(I, x)
    if all(isinstance(i, bool) for i in items):
        return all(items)
    return SV(and_(*[lift(i).t for i in items]))


def b_any(I, x):
    items = iterate(I, x)
    if all(isinstance(i, bool) for i in items):
        return any(items)
    return SV(or_(*[lift(i).t for i in items]))


def b_sum(I, x, start=0):
    items = iterate(I, x)
    r = start
    for i in items:
        r = binop(I, ast.Add, r, i)
    return r


def b_tuple(I, x=()):
    return tuple(iterate(I, x))


def b_list(I, x=()):
    return PList(iterate(I, x))


def b_hasattr(I, x, name):
    if isinstance(x, LibNS):
        return name in x.table
    if isinstance(x, Obj):
        return name in x.fields or x.cls.lookup(name)[1] is not None
    if name == '__iter__':
        return isinstance(x, (PList, SArr, tuple, list)) or (isinstance(x, SV) and x.kind != 'scalar')
    raise Unsupported("hasattr")


_NO_DEFAULT = object()


def b_getattr(I, x, name, default=_NO_DEFAULT):
    """builtin getattr with a constant attribute name (three-argument form: the default when the attribute is missing)"""
    if not isinstance(name, str):
        raise Unsupported("getattr with a computed name")
    if default is not _NO_DEFAULT and isinstance(x, Obj) and not (name in x.fields or x.cls.lookup(name)[1] is not None):
        return default
    return getattr_(I, x, name, None)


def b_print(I, *a, **k):
    return None


def b_next(I, x):
    raise Unsupported("next")


def b_round(I, x, nd=None):
    raise Unsupported("round")


def b_set(I, x=()):
    it = iterate(I, x)
    for v in it:
        if not (isinstance(v, (str, int, float, bool, tuple)) or v is None):
            raise Unsupported('set of symbolic values')
    return set(it)


def b_filter(I, f, x):
    out = []
    for v in iterate(I, x):
        t = I.call(f, [v])
        if not isinstance(t, bool):
            raise Unsupported('filter with a symbolic predicate')
        if t:
            out.append(v)
    return PList(out)


BUILTINS = {
    'set': b_set, 'filter': b_filter,
    'len': b_len, 'isinstance': b_isinstance, 'max': b_max, 'min': b_min, 'abs': b_abs, 'float': b_float,
    'int': b_int, 'bool': b_bool, 'range': b_range, 'enumerate': b_enumerate, 'zip': b_zip, 'all': b_all,
    'any': b_any, 'sum': b_sum, 'tuple': b_tuple, 'list': b_list, 'hasattr': b_hasattr, 'getattr': b_getattr, 'print': b_print,
    'str': lambda I, *a: Opaque('str'), 'repr': lambda I, *a: Opaque('str'),
    'ValueError': lambda I, *a, **k: Opaque(('exc', 'ValueError')),
    'float_': b_float,
    'True': True, 'False': False, 'None': None,
    'UserWarning': lambda I, *a, **k: Opaque(('exc', 'UserWarning')),
    'RuntimeError': lambda I, *a, **k: Opaque(('exc', 'RuntimeError')),
    'AttributeError': lambda I, *a, **k: Opaque(('exc', 'AttributeError')),
    'NotImplementedError': lambda I, *a, **k: Opaque(('exc', 'NotImplementedError')),
    'type': lambda I, x: Opaque(('type', type(x).__name__)),
}
for _n in ('list', 'tuple', 'float', 'int', 'str', 'dict'):
    pass


class LibType(Builtin):
    """a library class that is both callable (constructor model) and usable in isinstance"""
    def __init__(self, tag, fn):
        super().__init__(tag, fn)
        self.tag = tag


def _index_token(index):
    if isinstance(index, Opaque) and isinstance(index.tag, tuple) and index.tag[0] == 'index':
        return index.tag[1]
    if index is None:
        return None
    return ('other-index', id(index))


def pd_series(I, data=None, index=None, name=None, dtype=None, **kw):
    if isinstance(data, SV):
        t = data.t
        if dtype is not None and z3.is_int(t):
            t = to_real(t)
        tok = _index_token(index) if index is not None else data.index
        return SV(t, data.pinf, data.ninf, data.guard, 'series', tok)
    if isinstance(data, dict):
        return Rec(data, 'series')
    if isinstance(data, (int, float)) and not isinstance(data, bool) and index is not None:
        # pd.Series(scalar, index=idx): the scalar in every row
        return SV(RV(float(data)), kind='series', index=_index_token(index))
    raise Unsupported(f"pd.Series of {type(data).__name__}")


def pd_frame(I, data=None, index=None, columns=None, **kw):
    if isinstance(data, dict):
        return Rec(data, 'frame', index=_index_token(index))
    if isinstance(index, SArr) and columns is not None:
        # table of symbolic length: every column is an array over the same index
        cols = iterate(I, columns)
        fill = lift(data if data is not None else 0)
        k = z3.Int(f"k!{I.run_id}_{next(I.fresh_counter)}")
        t = Rec({c: SArr(z3.Lambda([k], realish(fill.t)), index.n, 'real', 'series') for c in cols}, 'table')
        t.tindex = index
        return t
    raise Unsupported(f"pd.DataFrame of {type(data).__name__}")


def pd_index(I, data=None, name=None, **kw):
    if isinstance(data, SArr):
        return data
    raise Unsupported(f"pd.Index of {type(data).__name__}")


def make_libs(I):
    I.used_assumptions = set()
    I.eig_records = []
    I.newton_records = []
    I.mutated = []
    I._alen = None

    def array_len():
        if I._alen is None:
            I._alen = z3.Int('array_len')
        return I._alen
    I.array_len = array_len
    I._shape1 = None

    def shape1():
        # all generic-element arrays of one obligation share one (symbolic) shape
        if I._shape1 is None:
            I._shape1 = (SV(array_len()),)
        return I._shape1
    I.shape1 = shape1

    def note_write(base):
        I.mutated.append(base)
    I.note_write = note_write

    I.external_calls = []
    I.cumsum_records = []
    I.reductions = {}
    I.reduction_uses = []
    I.root_records = []
    I.quad_records = []

    def opaque_attr(base, attr):
        if isinstance(base.tag, tuple) and base.tag[0] == 'external':
            def rec(*a, **k):
                I.external_calls.append((base.tag[1], attr, a, k))
                return None
            return Builtin(f"{base.tag[1]}.{attr}", rec)
        raise Unsupported(f"attribute {attr} of opaque {base.tag}")
    I.opaque_attr = opaque_attr

    def L(fn):
        return Builtin(fn.__name__, lambda *a, **k: fn(I, *a, **k))

    linalg = LibNS('np.linalg', {'eigvalsh': L(eigvalsh), 'inv': L(linalg_inv), 'det': L(linalg_det), 'LinAlgError': Opaque(('exc', 'LinAlgError'))})
    I.inv_records = []
    np_ = LibNS('np', {
        'asarray': L(np_asarray), 'array': L(np_array), 'fabs': L(np_abs), 'abs': L(np_abs), 'absolute': L(np_abs),
        'sign': L(np_sign), 'power': L(np_power), 'divide': L(np_divide), 'sqrt': L(np_sqrt), 'log10': L(np_log10), 'log': L(np_log),
        'argmax': L(np_argext('max')), 'argmin': L(np_argext('min')), 'sort': L(np_sort),
        'ndim': Builtin('ndim', lambda x: 0 if (isinstance(x, (int, float, bool)) or (isinstance(x, SV) and x.kind == 'scalar')) else 1),
        'exp': L(np_exp), 'cos': L(np_cos), 'where': L(np_where), 'full_like': L(np_full_like),
        'ones_like': Builtin('ones_like', lambda x, **k: np_full_like(I, x, 1.0, dtype=1)),
        'zeros_like': Builtin('zeros_like', lambda x, **k: np_full_like(I, x, 0.0, dtype=1)),
        'isfinite': L(np_isfinite), 'isinf': L(np_isinf), 'isnan': L(np_isnan),
        'maximum': Builtin('maximum', lambda a, b: minmax2(I, a, b, True)),
        'minimum': Builtin('minimum', lambda a, b: minmax2(I, a, b, False)),
        'amax': L(np_amax), 'amin': L(np_amin), 'max': L(np_amax), 'min': L(np_amin),
        'zeros': L(np_zeros), 'invert': L(np_invert), 'logical_not': L(np_invert),
        'logical_and': Builtin('logical_and', lambda a, b: logical_and(I, a, b)),
        'logical_or': Builtin('logical_or', lambda a, b: _mk(I, z3.Or(lift(a).t, lift(b).t), lift(a), lift(b))),
        'empty': L(np_empty), 'arange': L(np_arange), 'cumsum': L(np_cumsum), 'insert': L(np_insert), 'append': L(np_append),
        'concatenate': L(np_concatenate), 'searchsorted': L(np_searchsorted), 'isclose': L(np_isclose), 'all': L(np_all), 'any': L(np_any), 'sum': L(np_sum), 'dot': L(np_dot), 'trapezoid': L(np_trapezoid), 'trapz': L(np_trapezoid),
        'inf': SV(float('inf')), 'pi': SV(z3.Real('PI')), 'nan': Opaque('nan'),
        'float64': Opaque('float64'), 'double': Opaque('float64'), 'uintp': Opaque('uintp'), 'int64': Opaque('int64'), 'int32': Opaque('int32'), 'iinfo': L(np_iinfo),
        'bool_': Opaque('bool'), 'int8': Opaque('int8'),
        'ndarray': LibType('np.ndarray', None), 'number': LibType('np.number', None),
        'linalg': linalg,
        'errstate': Builtin('errstate', lambda **k: Opaque('ctx')),
    })
    pd_ = LibNS('pd', {
        'Series': LibType('pd.Series', lambda *a, **k: pd_series(I, *a, **k)),
        'DataFrame': LibType('pd.DataFrame', lambda *a, **k: pd_frame(I, *a, **k)),
        'Index': LibType('pd.Index', lambda *a, **k: pd_index(I, *a, **k)),
        'MultiIndex': LibType('pd.MultiIndex', None),
        'api': Opaque('pd.api'),
    })
    optimize = LibNS('optimize', {'newton': L(newton), 'root': L(optimize_root)})
    def norm_args(x, loc, scale):
        x = lift(x)
        t = realish(as_arith(x).t)
        if loc is not None:
            t = t - realish(lift(loc).t)
        if scale is not None:
            sc = lift(scale)
            safety(I, 'norm scale > 0', sc.t > 0, guards(I, x, sc))
            t = t / realish(sc.t)
        return x, t

    def norm_ppf(p, loc=None, scale=None):
        assumed(I, 'norm')
        assumed(I, 'transcendental')
        p = lift(p)
        safety(I, 'norm.ppf argument in (0,1)', z3.And(p.t > 0, p.t < 1), p.guard)
        r = sym.Pinv(realish(p.t))
        if scale is not None:
            r = r * realish(lift(scale).t)
        if loc is not None:
            r = r + realish(lift(loc).t)
        return p.like(r)

    def norm_cdf(x, loc=None, scale=None):
        assumed(I, 'norm')
        assumed(I, 'transcendental')
        x, t = norm_args(x, loc, scale)
        kinds = [v for v in (x, loc, scale) if isinstance(v, SV)]
        return SV(sym.Phi(t), guard=guards(I, *kinds), kind=merge_kind(*kinds))

    def norm_pdf(x, loc=None, scale=None):
        assumed(I, 'norm')
        assumed(I, 'transcendental')
        x, t = norm_args(x, loc, scale)
        kinds = [v for v in (x, loc, scale) if isinstance(v, SV)]
        r = sym.phi_(t)
        if scale is not None:
            r = r / realish(lift(scale).t)
        return SV(r, guard=guards(I, *kinds), kind=merge_kind(*kinds))

    stats_norm = LibNS('norm', {'ppf': Builtin('ppf', norm_ppf), 'cdf': Builtin('cdf', norm_cdf), 'pdf': Builtin('pdf', norm_pdf)})
    stats = LibNS('stats', {'norm': stats_norm})
    integrate = LibNS('integrate', {'quad': L(integrate_quad)})
    scipy = LibNS('scipy', {'optimize': optimize, 'stats': stats, 'integrate': integrate})
    libs = {'numpy': np_, 'np': np_, 'pandas': pd_, 'pd': pd_, 'scipy': scipy, 'scipy.optimize': optimize,
            'scipy.stats': stats, 'scipy.integrate': integrate, 'math': LibNS('math', {'fabs': L(np_abs), 'sqrt': L(np_sqrt), 'log10': L(np_log10), 'log': L(np_log), 'exp': L(np_exp), 'pi': SV(z3.Real('PI'))}),
            'warnings': LibNS('warnings', {'warn': Builtin('warn', lambda *a, **k: None),
                                           'catch_warnings': Builtin('cw', lambda *a, **k: Opaque('ctx')),
                                           'simplefilter': Builtin('sf', lambda *a, **k: None)}),
            'cython': LibNS('cython', {}),
            'operator': LibNS('operator', {
                'ge': Builtin('ge', lambda a, b: compare(I, ast.GtE, a, b)), 'gt': Builtin('gt', lambda a, b: compare(I, ast.Gt, a, b)),
                'le': Builtin('le', lambda a, b: compare(I, ast.LtE, a, b)), 'lt': Builtin('lt', lambda a, b: compare(I, ast.Lt, a, b)),
                'eq': Builtin('eq', lambda a, b: compare(I, ast.Eq, a, b))}),
            }
    return libs
