"""Symbolic interpreter for the Python subset of DESIGN 2.3.

Executes the *real* function ASTs (pv.extract) on symbolic values (pv.sym.SV and the container
classes below).  One run follows one path; symbolic branch decisions are taken from a decision
prefix, the driver `explore` enumerates all prefixes (DFS).  Loops over symbolic bounds need an
invariant (LoopSpec) and are cut: invariant-init obligation, havoc, assume invariant, one body
execution per path ending in an invariant-preservation obligation, and an exit path.
"""
import ast
import itertools
import math
import z3

from . import extract
from .sym import SV, sv, RV, and_, or_, TRUE, FALSE, to_real, is_z3, merge_kind
from . import sym


class Unsupported(Exception):
    """construct outside the modelled subset -> the obligation is UNBOUND (never a violation)"""


class PathEnd(Exception):
    """this path ends here (loop body finished, infeasible, assume(False))"""


class PyRaise(Exception):
    """the interpreted program raises"""
    def __init__(self, exc_type, msg=None, lineno=None):
        super().__init__(exc_type)
        self.exc_type = exc_type
        self.msg = msg
        self.lineno = lineno


class _Return(Exception):
    def __init__(self, value):
        self.value = value


class _Break(Exception):
    pass


class _Continue(Exception):
    pass


# --------------------------------------------------------------------------------------------
# containers
# --------------------------------------------------------------------------------------------
class PList:
    """python list / small numpy vector with concrete length"""
    def __init__(self, items, kind='list'):
        self.items = list(items)
        self.kind = kind

    def __repr__(self):
        return f"PList({self.items})"


class SArr:
    """array / list with symbolic length: z3 array `a` (Int -> elem), length term `n`"""
    _ids = itertools.count()

    def __init__(self, a, n, elem='real', kind='ndarray', unchecked=False, nonneg_elems=False):
        self.a = a
        self.n = n
        self.elem = elem
        self.kind = kind
        self.unchecked = unchecked
        self.uid = next(SArr._ids)

    def __repr__(self):
        return f"SArr({self.a}, n={self.n})"


class Rec:
    """record: pandas Series/DataFrame used as a bag of named parameters (generic row)"""
    _ids = itertools.count()

    def __init__(self, fields, kind='series', frozen=False, index=None):
        self.fields = dict(fields)
        self.kind = kind
        self.uid = next(Rec._ids)
        self.index = index if index is not None else ('idx', self.uid)
        self.writes = []

    def copy(self):
        r = Rec(self.fields, self.kind, index=self.index)
        return r

    def __repr__(self):
        return f"Rec#{self.uid}({list(self.fields)})"


class Obj:
    """instance of a repository class"""
    _ids = itertools.count()

    def __init__(self, cls):
        self.cls = cls
        self.fields = {}
        self.uid = next(Obj._ids)

    def __repr__(self):
        return f"Obj<{self.cls.name}>#{self.uid}"


class ClassV:
    def __init__(self, node, mod, interp):
        self.node = node
        self.mod = mod
        self.name = node.name
        self.interp = interp
        self._mro = None

    def bases(self):
        out = []
        for b in self.node.bases:
            try:
                v = self.interp.eval_in_module(b, self.mod)
            except Unsupported:
                v = None
            if isinstance(v, ClassV):
                out.append(v)
        return out

    def mro(self):
        if self._mro is None:
            res = [self]
            for b in self.bases():
                for c in b.mro():
                    if c not in res:
                        res.append(c)
            self._mro = res
        return self._mro

    def lookup(self, name, after=None):
        mro = self.mro()
        if after is not None:
            mro = mro[mro.index(after) + 1:]
        for c in mro:
            for n in c.node.body:
                if isinstance(n, ast.FunctionDef) and n.name == name:
                    return c, n
                if isinstance(n, ast.Assign) and any(isinstance(t, ast.Name) and t.id == name for t in n.targets):
                    return c, n
        return None, None

    def __repr__(self):
        return f"ClassV({self.mod.name}.{self.name})"


class Func:
    def __init__(self, node, mod, closure, qualname, self_obj=None, cls=None):
        self.node = node
        self.mod = mod
        self.closure = closure
        self.qualname = qualname
        self.self_obj = self_obj
        self.cls = cls

    def bind(self, obj):
        return Func(self.node, self.mod, self.closure, self.qualname, obj, self.cls)

    def __repr__(self):
        return f"Func({self.qualname})"


class Builtin:
    def __init__(self, name, fn):
        self.name = name
        self.fn = fn

    def __repr__(self):
        return f"Builtin({self.name})"


class LibNS:
    """namespace of library models (np, pd, optimize, ...)"""
    def __init__(self, name, table):
        self.name = name
        self.table = table

    def get(self, attr):
        if attr in self.table:
            return self.table[attr]
        raise Unsupported(f"library attribute {self.name}.{attr} has no model")

    def __repr__(self):
        return f"LibNS({self.name})"


class Opaque:
    """a value we carry around but never look into (recorder objects, strings of messages...)"""
    def __init__(self, tag):
        self.tag = tag

    def __repr__(self):
        return f"Opaque({self.tag})"


# --------------------------------------------------------------------------------------------
class Ob:
    """one proof obligation produced during symbolic execution"""
    def __init__(self, kind, label, hyps, goal, lineno=None):
        self.kind = kind
        self.label = label
        self.hyps = list(hyps)
        self.goal = goal
        self.lineno = lineno

    def __repr__(self):
        return f"Ob({self.kind}:{self.label}@{self.lineno})"


class LoopSpec:
    """invariant(env) -> z3 Bool; variant(env) -> z3 Int term (optional);
    env is a dict-like view on the local variables / self fields at the loop head."""
    def __init__(self, invariant, variant=None, modifies=None):
        self.invariant = invariant
        self.variant = variant
        self.modifies = modifies


class Spec:
    """callee contract used at call sites (modular verification): pre(args)->Bool,
    apply(interp, args, kwargs) -> result (may add assumptions through interp.assume)"""
    def __init__(self, pre=None, apply=None):
        self.pre = pre
        self.apply = apply


class Path:
    def __init__(self):
        self.pc = []
        self.dec_idx = set()   # positions in pc that are branch decisions (the rest are assumptions)
        self.obs = []
        self.result = None
        self.exc = None
        self.trace = []
        self.state = None
        self.loop_start = None
        self.loop_end = None
        self.loop_start_id = None
        self.loop_end_id = None
        self.return_states = {}


_PURE_BUILTINS = {'list', 'zip', 'tuple', 'set', 'sorted', 'enumerate', 'sum', 'str', 'int', 'float', 'max', 'min', 'abs', 'any', 'all', 'dict', 'repr',
                  'range', 'iter', 'next', 'reversed', 'map', 'filter', 'bool', 'round'}


class Interp:
    def __init__(self, libs=None):
        from . import npmodel
        self.libs = npmodel.make_libs(self)
        if libs:
            self.libs.update(libs)
        self.specs = {}          # qualname 'module::Class.method' -> Spec
        self.loops = {}          # (qualname, ordinal) -> LoopSpec
        self.ignore_attrs = set()
        self.fresh_counter = itertools.count()
        self.classes = {}
        # per path
        self.path = None
        self.decisions = []
        self.dpos = 0
        self.call_depth = 0
        self.unchecked_stack = [False]
        self.prune = True
        self._prune_solver = None
        self.run_id = 0

    # ---------------------------------------------------------------- path management
    def begin_path(self, prefix):
        self.path = Path()
        self.decisions = list(prefix)
        self.dpos = 0
        self.fresh_counter = itertools.count()

    def fresh(self, base, sort='real'):
        n = f"{base}!{self.run_id}_{next(self.fresh_counter)}"
        if sort == 'real':
            return z3.Real(n)
        if sort == 'int':
            return z3.Int(n)
        if sort == 'bool':
            return z3.Bool(n)
        raise ValueError(sort)

    def assume(self, cond):
        if cond is None or cond is True:
            return
        if cond is False:
            raise PathEnd()
        if z3.is_true(cond):
            return
        if z3.is_false(cond):
            raise PathEnd()
        self.path.pc.append(cond)

    def oblige(self, kind, label, goal, lineno=None):
        if getattr(self, 'guard_ctx', None) and is_z3(goal):
            goal = z3.Implies(z3.And(*self.guard_ctx), goal)
        goal = z3.simplify(goal) if is_z3(goal) else z3.BoolVal(bool(goal))
        if z3.is_true(goal):
            return
        self.path.obs.append(Ob(kind, label, self.path.pc, goal, lineno))

    def feasible(self, cond):
        """cheap feasibility test for pruning; unknown counts as feasible"""
        if not self.prune:
            return True
        s = z3.Solver()
        s.set('timeout', 300)
        for c in self.path.pc:
            s.add(c)
        for c in getattr(self, 'guard_ctx', ()):
            s.add(c)
        s.add(cond)
        return s.check() != z3.unsat

    def decide(self, cond):
        """branch on a symbolic condition"""
        if isinstance(cond, bool):
            return cond
        simp = z3.simplify(cond)
        if z3.is_true(simp):
            return True
        if z3.is_false(simp):
            return False
        if not getattr(self, 'keep_raw_conditions', False):
            cond = simp
        if self.dpos < len(self.decisions):
            choice = self.decisions[self.dpos]
        elif getattr(self, 'oracle', None) is not None:
            # a contract drives the path (e.g. by evaluating each condition on a concrete witness): the branch is recorded like any other decision
            choice = bool(self.oracle(cond))
            self.decisions.append(choice)
        else:
            # first visit: prefer True if feasible
            if self.feasible(cond):
                choice = True
                self.decisions.append(True)
                if not self.feasible(z3.Not(cond)):
                    self.decisions[-1] = 'T!'   # only True feasible
            else:
                choice = False
                self.decisions.append('F!')
        self.dpos += 1
        c = choice in (True, 'T!')
        self.path.trace.append(choice)
        self.path.dec_idx.add(len(self.path.pc))
        n_before = len(self.path.pc)
        fact = cond if c else z3.Not(cond)
        if getattr(self, 'guard_ctx', None):
            # decision taken while evaluating a later operand of `a and b` / `a or b`: it only speaks about the executions in which that operand is evaluated
            fact = z3.Implies(z3.And(*self.guard_ctx), fact)
        self.assume(fact)
        if len(self.path.pc) == n_before:
            self.path.dec_idx.discard(n_before)
        return c

    # ---------------------------------------------------------------- module / name resolution
    def get_class(self, mod, node):
        key = (mod.name, node.name, node.lineno)
        if key not in self.classes:
            self.classes[key] = ClassV(node, mod, self)
        return self.classes[key]

    def module_global(self, mod, name):
        if name in mod.defs:
            node = mod.defs[name]
            if isinstance(node, ast.ClassDef):
                return self.get_class(mod, node)
            return Func(node, mod, None, f"{mod.name}::{node.name}")
        if name in mod.imports:
            imp = mod.imports[name]
            if imp[0] == 'module':
                return self.import_module(imp[1])
            _, m, n = imp
            if m in self.libs:
                # a contract-supplied namespace (e.g. the compiled kernels under their contracts)
                return self.libs[m].get(n)
            if m.split('.')[0] == 'pylife':
                try:
                    target = extract.load_module(m)
                except FileNotFoundError:
                    target = None
                if target is not None:
                    if n in target.defs or n in target.imports or n in target.consts:
                        return self.module_global(target, n)
                    # submodule import: from pylife.stress import stresssignal
                    try:
                        return ModV(extract.load_module(m + '.' + n))
                    except FileNotFoundError:
                        raise Unsupported(f"cannot resolve {m}.{n}")
                raise Unsupported(f"cannot resolve module {m}")
            lib = self.import_module(m)
            if isinstance(lib, LibNS):
                return lib.get(n)
            raise Unsupported(f"from {m} import {n}")
        if name in mod.consts:
            return self.eval_in_module(mod.consts[name], mod)
        raise KeyError(name)

    def import_module(self, name):
        if name in self.libs:
            return self.libs[name]
        root = name.split('.')[0]
        if root == 'pylife':
            return ModV(extract.load_module(name))
        if root in self.libs:
            v = self.libs[root]
            for part in name.split('.')[1:]:
                v = v.get(part)
            return v
        raise Unsupported(f"import {name}")

    def eval_class_attr(self, cls, node):
        """value of a class-level assignment; names of other class-level assignments used in it are resolved in class scope"""
        env = {}
        for n in ast.walk(node.value):
            if isinstance(n, ast.Name):
                c2, nd = cls.lookup(n.id)
                if nd is not None and isinstance(nd, ast.Assign) and nd is not node:
                    env[n.id] = self.eval_class_attr(c2, nd)
        fr = Frame(self, cls.mod, env, None, f"{cls.mod.name}::{cls.name}.<class>")
        return fr.eval(node.value)

    def eval_in_module(self, expr, mod):
        fr = Frame(self, mod, {}, None, f"{mod.name}::<module>")
        return fr.eval(expr)

    # ---------------------------------------------------------------- calling
    def call(self, f, args, kwargs=None, lineno=None):
        kwargs = kwargs or {}
        args = [SV(a) if is_z3(a) else a for a in args]
        kwargs = {k: (SV(v) if is_z3(v) else v) for k, v in kwargs.items()}
        if isinstance(f, Builtin):
            if f.name in _PURE_BUILTINS:
                hv = [a for a in list(args) + list(kwargs.values()) if hasattr(a, 'pv_havoc')]
                if hv:
                    # pure builtin applied to an arbitrary object: fails or yields an arbitrary object
                    hv[0].world.may_fail(f'{f.name}(arbitrary object)')
                    return hv[0]._new(f'{f.name}()')
            return f.fn(*args, **kwargs)
        if isinstance(f, Func):
            return self.call_func(f, args, kwargs)
        if isinstance(f, ClassV):
            return self.instantiate(f, args, kwargs)
        if callable(f) and not isinstance(f, (SV, Obj)):
            return f(*args, **kwargs)
        raise Unsupported(f"call of {f!r}")

    def instantiate(self, cls, args, kwargs):
        key = f"{cls.mod.name}::{cls.name}"
        if key in self.specs and self.specs[key].apply is not None:
            return self.specs[key].apply(self, args, kwargs)
        obj = Obj(cls)
        c, init = cls.lookup('__init__')
        if init is not None:
            f = Func(init, c.mod, None, f"{c.mod.name}::{c.name}.__init__", obj, c)
            self.call_func(f, args, kwargs)
        return obj

    def call_func(self, f, args, kwargs):
        spec = self.specs.get(f.qualname)
        if spec is not None:
            full_args = ([f.self_obj] if f.self_obj is not None else []) + list(args)
            if spec.pre is not None:
                self.oblige('call-pre', f.qualname, spec.pre(*full_args, **kwargs))
            return spec.apply(self, full_args, kwargs)
        if self.call_depth > 40:
            raise Unsupported("call depth")
        node = f.node
        env = {}
        a = node.args
        params = [p.arg for p in a.posonlyargs + a.args]
        vals = list(args)
        if f.self_obj is not None:
            vals = [f.self_obj] + vals
        if len(vals) > len(params):
            if a.vararg is None:
                raise PyRaise('TypeError', f"too many arguments for {f.qualname}")
            env[a.vararg.arg] = tuple(vals[len(params):])
            vals = vals[:len(params)]
        elif a.vararg is not None:
            env[a.vararg.arg] = ()
        for p, v in zip(params, vals):
            env[p] = v
        defaults = a.defaults
        dstart = len(params) - len(defaults)
        kw = dict(kwargs)
        for i, p in enumerate(params):
            if p in env:
                if p in kw:
                    raise PyRaise('TypeError', f"multiple values for {p}")
                continue
            if p in kw:
                env[p] = kw.pop(p)
            elif i >= dstart:
                env[p] = Frame(self, f.mod, {}, f.closure, f.qualname).eval(defaults[i - dstart])
            else:
                raise PyRaise('TypeError', f"missing argument {p} for {f.qualname}")
        for p, d in zip(a.kwonlyargs, a.kw_defaults):
            if p.arg in kw:
                env[p.arg] = kw.pop(p.arg)
            elif d is not None:
                env[p.arg] = Frame(self, f.mod, {}, f.closure, f.qualname).eval(d)
            else:
                raise PyRaise('TypeError', f"missing kw argument {p.arg}")
        if kw:
            if a.kwarg is not None:
                env[a.kwarg.arg] = kw
            else:
                raise PyRaise('TypeError', f"unexpected keyword {list(kw)} for {f.qualname}")
        fr = Frame(self, f.mod, env, f.closure, f.qualname, cls=f.cls, node=node)
        unchecked = bool(f.mod.pyx_meta.get('unchecked', {}).get(node.name, False))
        self.unchecked_stack.append(unchecked)
        self.call_depth += 1
        try:
            fr.exec_block(node.body)
            return None
        except _Return as r:
            return r.value
        finally:
            self.call_depth -= 1
            self.unchecked_stack.pop()


class ModV:
    def __init__(self, mod):
        self.mod = mod

    def __repr__(self):
        return f"ModV({self.mod.name})"


class Cell:
    """closure view: inner function sees the defining frame's variables"""
    def __init__(self, frame):
        self.frame = frame


def explore(interp, thunk, max_paths=400):
    """enumerate all paths of thunk() (a callable that uses interp).  Returns list of Path."""
    paths = []
    stack = [[]]
    interp.run_id += 1
    while stack:
        prefix = stack.pop()
        interp.begin_path(prefix)
        p = interp.path
        marks = {k: len(getattr(interp, k)) for k in ('quad_records', 'newton_records', 'root_records', 'cumsum_records', 'eig_records') if hasattr(interp, k)}
        try:
            p.result = thunk()
            p.kind = 'return'
        except PathEnd:
            p.kind = 'end'
        except PyRaise as e:
            p.kind = 'raise'
            p.exc = e
        for k, n0 in marks.items():
            setattr(p, k, list(getattr(interp, k)[n0:]))      # library-call records made on this path
        trace = list(interp.decisions)
        p.decisions = trace
        paths.append(p)
        for i in range(len(prefix), len(trace)):
            if trace[i] is True:
                stack.append(trace[:i] + [False])
        if len(paths) > max_paths:
            raise Unsupported(f"more than {max_paths} paths")
    return paths


# --------------------------------------------------------------------------------------------
_CMP = {ast.Lt: '<', ast.LtE: '<=', ast.Gt: '>', ast.GtE: '>=', ast.Eq: '==', ast.NotEq: '!='}


class Frame:
    def __init__(self, interp, mod, env, closure, qualname, cls=None, node=None):
        self.I = interp
        self.mod = mod
        self.env = env
        self.closure = closure
        self.qualname = qualname
        self.cls = cls
        self.node = node
        self._loop_ids = None
        self.ctypes = mod.pyx_meta.get('ctypes', {}).get(node.name, {}) if (node is not None and mod.pyx_meta) else {}

    def loop_id(self, s):
        """ordinal of a loop statement = its position (source order) among the loops of this
        function, nested function definitions excluded"""
        if self._loop_ids is None:
            ids = []

            def walk(stmts):
                for st in stmts:
                    if isinstance(st, (ast.FunctionDef, ast.ClassDef)):
                        continue
                    if isinstance(st, (ast.While, ast.For)):
                        ids.append(st)
                    for fld in ('body', 'orelse', 'finalbody'):
                        walk(getattr(st, fld, []) or [])
                    for h in getattr(st, 'handlers', []) or []:
                        walk(h.body)
            walk(self.node.body if self.node is not None else [])
            self._loop_ids = {id(n): k for k, n in enumerate(ids)}
        return self._loop_ids.get(id(s), -1)

    # ------------------------------------------------------------ names
    def lookup(self, name):
        if name in self.env:
            return self.env[name]
        c = self.closure
        while c is not None:
            if name in c.env:
                return c.env[name]
            c = c.closure
        try:
            return self.I.module_global(self.mod, name)
        except KeyError:
            pass
        from . import npmodel
        if name in npmodel.BUILTINS:
            return Builtin(name, lambda *a, _n=name, **k: npmodel.BUILTINS[_n](self.I, *a, **k))
        raise Unsupported(f"name {name} in {self.qualname}")

    # ------------------------------------------------------------ statements
    def exec_block(self, stmts):
        for s in stmts:
            self.exec(s)

    def exec(self, s):
        m = getattr(self, 'x_' + type(s).__name__, None)
        if m is None:
            raise Unsupported(f"statement {type(s).__name__} at {self.mod.name}:{s.lineno}")
        try:
            return m(s)
        except Unsupported as e:
            if 'at line' not in str(e):
                raise Unsupported(f"{e} (at line {getattr(s, 'lineno', '?')} of {self.mod.name})")
            raise

    def x_Pass(self, s):
        pass

    def x_Expr(self, s):
        if isinstance(s.value, ast.Constant):
            return
        self.eval(s.value)

    def x_Import(self, s):
        for a in s.names:
            self.env[(a.asname or a.name).split('.')[0]] = self.I.import_module(a.name)

    def x_ImportFrom(self, s):
        for a in s.names:
            lib = self.I.import_module(s.module)
            if isinstance(lib, LibNS):
                self.env[a.asname or a.name] = lib.get(a.name)
            elif isinstance(lib, ModV):
                self.env[a.asname or a.name] = self.I.module_global(lib.mod, a.name)

    def x_Return(self, s):
        v = self.eval(s.value) if s.value is not None else None
        # locals and fields at the return statement, per function (for exit-state obligations of contracts)
        self.I.path.return_states[self.qualname] = self._state_snapshot()
        raise _Return(v)

    def x_Break(self, s):
        raise _Break()

    def x_Continue(self, s):
        raise _Continue()

    def x_FunctionDef(self, s):
        self.env[s.name] = Func(s, self.mod, self, f"{self.qualname}.<locals>.{s.name}")

    def x_Assert(self, s):
        v = self.eval(s.test)
        c = self.truth(v)
        self.I.oblige('assert', f"{self.qualname}:{s.lineno}", c, s.lineno)
        self.I.assume(c)

    def x_Raise(self, s):
        if s.exc is None:
            raise PyRaise('reraise', lineno=s.lineno)
        e = s.exc
        name = None
        if isinstance(e, ast.Call):
            e = e.func
        if isinstance(e, ast.Name):
            name = e.id
        elif isinstance(e, ast.Attribute):
            name = e.attr
        raise PyRaise(name or 'Exception', lineno=s.lineno)

    def x_If(self, s):
        c = self.truth(self.eval(s.test))
        if self.I.decide(c):
            self.exec_block(s.body)
        else:
            self.exec_block(s.orelse)

    def x_With(self, s):
        # np.errstate / warnings.catch_warnings are transparent
        for it in s.items:
            v = self.eval(it.context_expr)
            if it.optional_vars is not None:
                self.assign(it.optional_vars, v)
        self.exec_block(s.body)

    def x_Try(self, s):
        try:
            self.exec_block(s.body)
        except PyRaise as e:
            for h in s.handlers:
                names = []
                if h.type is None:
                    names = None
                elif isinstance(h.type, ast.Tuple):
                    names = [self._excname(t) for t in h.type.elts]
                else:
                    names = [self._excname(h.type)]
                if names is None or e.exc_type in names or 'Exception' in names or 'BaseException' in names:
                    if h.name:
                        self.env[h.name] = Opaque(('exception', e.exc_type))
                    try:
                        self.exec_block(h.body)
                    except PyRaise as e2:
                        if e2.exc_type == 'reraise':
                            self._finally(s)
                            raise e
                        self._finally(s)
                        raise
                    self._finally(s)
                    return
            self._finally(s)
            raise
        except (_Return, _Break, _Continue):
            self._finally(s)
            raise
        else:
            self.exec_block(s.orelse)
            self._finally(s)

    def _finally(self, s):
        if s.finalbody:
            self.exec_block(s.finalbody)

    def _excname(self, t):
        if isinstance(t, ast.Name):
            return t.id
        if isinstance(t, ast.Attribute):
            return t.attr
        return '?'

    def x_Assign(self, s):
        v = self.eval(s.value)
        for t in s.targets:
            self.assign(t, v)

    def x_AnnAssign(self, s):
        if s.value is not None:
            self.assign(s.target, self.eval(s.value))

    def x_AugAssign(self, s):
        from . import npmodel
        t = s.target
        if isinstance(t, ast.Subscript):
            base = self.eval(t.value)
            idx = self.eval_index(t.slice)
            cur = npmodel.getitem(self.I, base, idx, s.lineno)
            rhs = self.eval(s.value)
            new = npmodel.binop(self.I, type(s.op), cur, rhs, s.lineno)
            npmodel.setitem(self.I, self, t.value, base, idx, new, s.lineno)
            return
        cur = self.eval(t)
        rhs = self.eval(s.value)
        if isinstance(cur, PList) and isinstance(s.op, ast.Add):
            cur.items.extend(rhs.items if isinstance(rhs, PList) else list(rhs))
            return
        new = npmodel.binop(self.I, type(s.op), cur, rhs, s.lineno)
        if isinstance(cur, SV) and cur.kind in ('ndarray', 'series', 'frame'):
            # numpy / pandas objects implement the augmented assignments IN PLACE: every alias of the object (e.g. the caller's argument) sees the new values.
            # The value domain has no aliasing of array objects, so the write is recorded (I.mutated, I.inplace) for the frame obligations of the contracts.
            self.I.note_write(cur)
            self.I.__dict__.setdefault('inplace', []).append((cur, s.lineno, self.qualname))
        self.assign(t, new)

    def x_Delete(self, s):
        from . import npmodel
        for t in s.targets:
            if isinstance(t, ast.Subscript):
                base = self.eval(t.value)
                idx = self.eval_index(t.slice)
                npmodel.delitem(self.I, base, idx, s.lineno)
            elif isinstance(t, ast.Name):
                self.env.pop(t.id, None)
            else:
                raise Unsupported("del target")

    def assign(self, t, v):
        from . import npmodel
        if isinstance(t, ast.Name):
            ct = self.ctypes.get(t.id) if self.ctypes else None
            if ct == 'size_t' and isinstance(v, (SV, int)):
                tv = v.t if isinstance(v, SV) else z3.IntVal(v)
                self.I.oblige('safety', f"value assigned to size_t variable '{t.id}' is >= 0 (no unsigned wrap-around)", tv >= 0,
                              getattr(t, 'lineno', None))
            self.env[t.id] = v
        elif isinstance(t, (ast.Tuple, ast.List)) and hasattr(v, 'pv_havoc'):
            # unpacking an arbitrary object: fails, or every target gets an arbitrary object
            v.world.may_fail('unpacking an arbitrary object')
            for e in t.elts:
                self.assign(e, v._new('unpacked'))
        elif isinstance(t, (ast.Tuple, ast.List)):
            items = npmodel.iterate(self.I, v)
            if any(isinstance(e, ast.Starred) for e in t.elts):
                raise Unsupported("starred assignment")
            if len(items) != len(t.elts):
                raise PyRaise('ValueError', 'unpack')
            for e, x in zip(t.elts, items):
                self.assign(e, x)
        elif isinstance(t, ast.Attribute):
            base = self.eval(t.value)
            if getattr(self.I, 'generic_loop', 0) and isinstance(base, (Obj, Rec)):
                raise Unsupported("attribute store inside a loop without invariant")
            if isinstance(base, Obj):
                base.fields[t.attr] = v
            elif isinstance(base, Rec):
                base.fields[t.attr] = v
            elif isinstance(base, (SV, SArr)) and t.attr in ('flags', 'name'):
                pass
            else:
                npmodel.setattr_(self.I, base, t.attr, v)
        elif isinstance(t, ast.Subscript):
            base = self.eval(t.value)
            idx = self.eval_index(t.slice)
            npmodel.setitem(self.I, self, t.value, base, idx, v, t.lineno)
        else:
            raise Unsupported(f"assignment target {type(t).__name__}")

    # loops -------------------------------------------------------
    def x_While(self, s):
        self._loop(s, kind='while')

    def x_For(self, s):
        from . import npmodel
        it = self.eval(s.iter)
        conc = npmodel.try_concrete_iter(self.I, it)
        if conc is not None:
            broke = False
            for x in conc:
                self.assign(s.target, x)
                try:
                    self.exec_block(s.body)
                except _Break:
                    broke = True
                    break
                except _Continue:
                    continue
            if not broke:
                self.exec_block(s.orelse)
            return
        if hasattr(it, 'pv_iter'):
            return self._loop_arbitrary(s, it)
        self._loop(s, kind='for', iterable=it)

    def _loop_arbitrary(self, s, it):
        """for over an arbitrary (ghost) iterable, without invariant.  Sound for bodies whose effects are confined to local variables, which is enforced:
        stores to attributes / items of non-local objects and ghost-state mutations inside the body are rejected (Unsupported).  Three continuations:
        no iteration at all (state unchanged); one arbitrary iteration started from arbitrary values of the loop-assigned locals (explores every crash point of
        the body, then the path ends: its final state is one of the arbitrary states); exit after >= 1 iterations with arbitrary values of those locals."""
        from .ghost import Havoc
        it = it.pv_iter()
        world = it.world
        names, attrs, subs = self._assigned_names(s.body)
        for n in ast.walk(s.target):
            if isinstance(n, ast.Name):
                names.add(n.id)
        if attrs or any(isinstance(x, tuple) for x in subs):
            raise Unsupported(f"loop over an arbitrary iterable (line {s.lineno}) stores to an object attribute")
        for n in subs:
            v = self.env.get(n)
            if n not in self.env:
                raise Unsupported(f"loop over an arbitrary iterable (line {s.lineno}) mutates non-local {n}")
            for k, o in self.env.items():
                if k != n and o is v and not isinstance(v, (int, float, str, bool, type(None))):
                    raise Unsupported(f"loop over an arbitrary iterable (line {s.lineno}): {n} is aliased by {k}")
        if self.I.decide(self.I.fresh('zero_iterations', 'bool')):
            self.exec_block(s.orelse)
            return
        for n in sorted(names | set(subs)):
            self.env[n] = Havoc(world, n)
        if self.I.decide(self.I.fresh('in_iteration', 'bool')):
            world.in_generic_loop += 1
            self.I.generic_loop = getattr(self.I, 'generic_loop', 0) + 1
            try:
                self.assign(s.target, Havoc(world, 'item'))
                try:
                    self.exec_block(s.body)
                except (_Break, _Continue):
                    pass
            finally:
                world.in_generic_loop -= 1
                self.I.generic_loop -= 1
            raise PathEnd()
        self.exec_block(s.orelse)

    def _assigned_names(self, body):
        names, attrs, subs = set(), set(), set()

        def tgt(t):
            if isinstance(t, ast.Name):
                names.add(t.id)
            elif isinstance(t, (ast.Tuple, ast.List)):
                for e in t.elts:
                    tgt(e)
            elif isinstance(t, ast.Attribute):
                if isinstance(t.value, ast.Name):
                    attrs.add((t.value.id, t.attr))
            elif isinstance(t, ast.Subscript):
                if isinstance(t.value, ast.Name):
                    subs.add(t.value.id)
                elif isinstance(t.value, ast.Attribute) and isinstance(t.value.value, ast.Name):
                    subs.add((t.value.value.id, t.value.attr))
        for st in body:
            for n in ast.walk(st):
                if isinstance(n, ast.Assign):
                    for t in n.targets:
                        tgt(t)
                elif isinstance(n, (ast.AugAssign, ast.AnnAssign)):
                    tgt(n.target)
                elif isinstance(n, ast.For):
                    tgt(n.target)
                elif isinstance(n, ast.Call) and isinstance(n.func, ast.Attribute) and n.func.attr in ('append', 'pop', 'insert', 'extend'):
                    v = n.func.value
                    if isinstance(v, ast.Name):
                        subs.add(v.id)
                    elif isinstance(v, ast.Attribute) and isinstance(v.value, ast.Name):
                        subs.add((v.value.id, v.attr))
        return names, attrs, subs

    def _havoc(self, names, attrs, subs):
        """replace loop-modified state by fresh symbols of the same shape"""
        def hv(val, base):
            if hasattr(val, 'pv_stateless'):
                return val        # stateless ghost value of a contract (event sink, opaque token): nothing to forget
            if isinstance(val, SV):
                if val.is_bool:
                    return val.like(self.I.fresh(base, 'bool'))
                return val.like(self.I.fresh(base, 'int' if z3.is_int(val.t) else 'real'))
            if isinstance(val, bool):
                return SV(self.I.fresh(base, 'bool'))
            if isinstance(val, int):
                return SV(self.I.fresh(base, 'int'))
            if isinstance(val, float):
                return SV(self.I.fresh(base, 'real'))
            if isinstance(val, SArr):
                na = z3.Array(f"{base}!{self.I.run_id}_{next(self.I.fresh_counter)}", z3.IntSort(), val.a.sort().range())
                nn = val.n
                if val.kind == 'list':
                    nn = self.I.fresh(base + '_len', 'int')
                    self.I.assume(nn >= 0)
                r = SArr(na, nn, val.elem, val.kind, val.unchecked)
                return r
            raise Unsupported(f"cannot havoc {base} of type {type(val).__name__}")
        for n in sorted(names):
            if n in self.env:
                self.env[n] = hv(self.env[n], n)
        for (o, a) in sorted(attrs):
            obj = self.env.get(o)
            if isinstance(obj, Obj) and a in obj.fields:
                obj.fields[a] = hv(obj.fields[a], f"{o}.{a}")
        for sname in sorted(subs, key=str):
            if isinstance(sname, tuple):
                obj = self.env.get(sname[0])
                if isinstance(obj, Obj) and sname[1] in obj.fields and isinstance(obj.fields[sname[1]], SArr):
                    old = obj.fields[sname[1]]
                    new = hv(old, f"{sname[0]}.{sname[1]}")
                    self._realias(old, new)
                    obj.fields[sname[1]] = new
            else:
                old = self.env.get(sname)
                if isinstance(old, PList) and old.kind == 'list':
                    # python list that grows inside the loop: becomes a symbolic-length list
                    elem = 'real'
                    arr = z3.Array(f"{sname}!{self.I.run_id}_{next(self.I.fresh_counter)}", z3.IntSort(), z3.RealSort())
                    ln = self.I.fresh(sname + '_len', 'int')
                    new = SArr(arr, ln, elem, 'list')
                    self.I.assume(ln >= 0)
                    self.env[sname] = new
                    continue
                if isinstance(old, SArr):
                    new = hv(old, sname)
                    self._realias(old, new)
                    self.env[sname] = new

    def _realias(self, old, new):
        """memoryview aliases (from_vals_v = from_vals): keep aliases pointing at the same array"""
        for k, v in list(self.env.items()):
            if v is old:
                self.env[k] = new
        for k, v in list(self.env.items()):
            if isinstance(v, Obj):
                for fk, fv in list(v.fields.items()):
                    if fv is old:
                        v.fields[fk] = new

    def _state_snapshot(self):
        """local variables at a loop head / body end (for relational obligations): SV terms, arrays as (array, length)"""
        out = {}
        for k, v in self.env.items():
            if isinstance(v, SV):
                out[k] = v.t
            elif isinstance(v, bool):
                out[k] = z3.BoolVal(v)
            elif isinstance(v, int):
                out[k] = z3.IntVal(v)
            elif isinstance(v, float):
                out[k] = z3.RealVal(repr(v))
            elif isinstance(v, SArr):
                out[k] = (v.a, v.n)
            elif isinstance(v, Obj):
                # fields of local objects (self._residuals, self._ir, ...)
                for fk, fv in v.fields.items():
                    if isinstance(fv, SV):
                        out[f'{k}.{fk}'] = fv.t
                    elif isinstance(fv, SArr):
                        out[f'{k}.{fk}'] = (fv.a, fv.n)
                    elif isinstance(fv, bool):
                        out[f'{k}.{fk}'] = z3.BoolVal(fv)
                    elif isinstance(fv, int):
                        out[f'{k}.{fk}'] = z3.IntVal(fv)
                    elif isinstance(fv, float):
                        out[f'{k}.{fk}'] = z3.RealVal(repr(fv))
        return out

    def _loop(self, s, kind, iterable=None):
        ordinal = self.loop_id(s)
        spec = self.I.loops.get((self.qualname, ordinal))
        if spec is None:
            raise Unsupported(f"loop #{ordinal} of {self.qualname} (line {s.lineno}) has no invariant")
        names, attrs, subs = self._assigned_names(s.body)
        if kind == 'for':
            # for x in <symbolic sequence>: model as index loop with ghost counter
            for n in ast.walk(s.target):
                if isinstance(n, ast.Name):
                    names.add(n.id)
            self.env['__it%d' % ordinal] = SV(z3.IntVal(0))
            names.add('__it%d' % ordinal)
        label = f"{self.qualname}#loop{ordinal}"
        view = EnvView(self)
        # 1. invariant holds on entry
        self.I.oblige('inv-init', label, spec.invariant(view), s.lineno)
        # 2. arbitrary iteration
        pre_env = dict(self.env)
        self._havoc(names, attrs, subs)
        view = EnvView(self)
        inv = spec.invariant(view)
        self.I.assume(inv)
        from . import npmodel
        if kind == 'while':
            cond = self.truth(self.eval(s.test))
        else:
            itv = self.env['__it%d' % ordinal]
            if not isinstance(iterable, SArr):
                raise Unsupported("for over non-array symbolic iterable")
            self.I.assume(itv.t >= 0)      # engine-maintained ghost counter: starts at 0, only incremented
            cond = itv.t < iterable.n
        v0 = spec.variant(view) if spec.variant else None
        self.I.path.loop_start = self._state_snapshot()
        self.I.path.loop_start_id = ordinal
        if self.I.decide(cond):
            if kind == 'for':
                itv = self.env['__it%d' % ordinal]
                self.assign(s.target, npmodel.getitem(self.I, iterable, itv, s.lineno))
                self.env['__it%d' % ordinal] = SV(itv.t + 1)
            try:
                self.exec_block(s.body)
            except _Continue:
                pass
            except _Break:
                # leaves the loop with the current state; continue after the loop
                return
            view = EnvView(self)
            self.I.path.loop_end = self._state_snapshot()
            self.I.path.loop_end_id = ordinal
            self.I.oblige('inv-preserve', label, spec.invariant(view), s.lineno)
            if v0 is not None:
                v1 = spec.variant(view)
                self.I.oblige('variant', label, z3.And(v1 < v0, v0 >= 0), s.lineno)
            raise PathEnd()
        else:
            self.exec_block(s.orelse)
            return

    # ------------------------------------------------------------ expressions
    def truth(self, v):
        """python truthiness of a value as z3 Bool / python bool"""
        if isinstance(v, bool):
            return v
        if v is None:
            return False
        if hasattr(v, 'pv_truth'):
            return v.pv_truth()
        if isinstance(v, (int, float)):
            return v != 0
        if isinstance(v, str):
            return len(v) > 0
        if isinstance(v, SV):
            if v.is_bool:
                return v.t
            return v.t != 0
        if isinstance(v, (PList, tuple, list, dict)):
            items = v.items if isinstance(v, PList) else v
            return len(items) > 0
        if isinstance(v, SArr):
            return v.n > 0
        if isinstance(v, (Obj, Rec, Func, ClassV, Opaque, Builtin)):
            return True
        raise Unsupported(f"truth of {type(v).__name__}")

    def eval(self, e):
        m = getattr(self, 'e_' + type(e).__name__, None)
        if m is None:
            raise Unsupported(f"expression {type(e).__name__} at line {getattr(e, 'lineno', '?')}")
        return m(e)

    def e_Constant(self, e):
        v = e.value
        if isinstance(v, float) and (math.isinf(v) or math.isnan(v)):
            return SV(v)
        return v

    def e_Name(self, e):
        return self.lookup(e.id)

    def e_Tuple(self, e):
        return tuple(self.eval(x) for x in e.elts)

    def e_List(self, e):
        return PList([self.eval(x) for x in e.elts])

    def e_Dict(self, e):
        return {self._key(self.eval(k)): self.eval(v) for k, v in zip(e.keys, e.values)}

    def _key(self, k):
        if isinstance(k, (str, int, float, bool, tuple)) or k is None:
            return k
        raise Unsupported("symbolic dict key")

    def e_JoinedStr(self, e):
        return Opaque('fstring')

    def e_Lambda(self, e):
        fn = ast.FunctionDef(name='<lambda>', args=e.args, body=[ast.Return(value=e.body, lineno=e.lineno, col_offset=0)],
                             decorator_list=[], lineno=e.lineno, col_offset=0)
        return Func(fn, self.mod, self, f"{self.qualname}.<locals>.<lambda>")

    def e_IfExp(self, e):
        from . import npmodel
        c = self.truth(self.eval(e.test))
        if isinstance(c, bool):
            return self.eval(e.body if c else e.orelse)
        c = z3.simplify(c)
        if z3.is_true(c):
            return self.eval(e.body)
        if z3.is_false(c):
            return self.eval(e.orelse)
        if self.I.decide(c):
            return self.eval(e.body)
        return self.eval(e.orelse)

    def e_UnaryOp(self, e):
        from . import npmodel
        v = self.eval(e.operand)
        return npmodel.unop(self.I, type(e.op), v, self)

    def e_BinOp(self, e):
        from . import npmodel
        a = self.eval(e.left)
        b = self.eval(e.right)
        return npmodel.binop(self.I, type(e.op), a, b, e.lineno)

    def e_BoolOp(self, e):
        # short circuit semantics; symbolic operands are combined without forking when all are bool-like
        vals = []
        if not hasattr(self.I, 'guard_ctx'):
            self.I.guard_ctx = []
        depth0 = len(self.I.guard_ctx)
        try:
            return self._boolop(e, vals)
        finally:
            del self.I.guard_ctx[depth0:]

    def _boolop(self, e, vals):
        for x in e.values:
            # short circuit: a later operand is evaluated only if the earlier ones did not decide the result; decisions / obligations arising while
            # it is evaluated are guarded by that condition (Interp.guard_ctx)
            if vals:
                z = vals[-1] if is_z3(vals[-1]) else z3.BoolVal(bool(vals[-1]))
                self.I.guard_ctx.append(z if isinstance(e.op, ast.And) else z3.Not(z))
            v = self.eval(x)
            t = self.truth(v)
            if isinstance(t, bool):
                if isinstance(e.op, ast.And) and not t:
                    return v if not vals else self._combine(e.op, vals + [False])
                if isinstance(e.op, ast.Or) and t:
                    if not vals:
                        return v
                    return self._combine(e.op, vals + [True])
                continue
            vals.append(t)
        if not vals:
            return isinstance(e.op, ast.And)
        return self._combine(e.op, vals)

    def _combine(self, op, vals):
        zs = [z3.BoolVal(v) if isinstance(v, bool) else v for v in vals]
        return SV(z3.And(*zs) if isinstance(op, ast.And) else z3.Or(*zs))

    def e_Compare(self, e):
        from . import npmodel
        left = self.eval(e.left)
        res = None
        for op, r in zip(e.ops, e.comparators):
            right = self.eval(r)
            c = npmodel.compare(self.I, type(op), left, right, self)
            res = c if res is None else npmodel.logical_and(self.I, res, c)
            left = right
        return res

    def e_Call(self, e):
        from . import npmodel
        # super()
        if isinstance(e.func, ast.Attribute) and isinstance(e.func.value, ast.Call) and \
                isinstance(e.func.value.func, ast.Name) and e.func.value.func.id == 'super':
            selfobj = self.env.get('self')
            c, node = selfobj.cls.lookup(e.func.attr, after=self.cls)
            if node is None:
                return None   # object.__init__
            f = Func(node, c.mod, None, f"{c.mod.name}::{c.name}.{node.name}", selfobj, c)
            args, kwargs = self._args(e)
            return self.I.call_func(f, args, kwargs)
        f = self.eval(e.func)
        args, kwargs = self._args(e)
        try:
            return self.I.call(f, args, kwargs, e.lineno)
        except Unsupported as ex:
            if 'at line' not in str(ex):
                raise Unsupported(f"{ex} (at line {e.lineno} of {self.mod.name})")
            raise

    def _args(self, e):
        from . import npmodel
        args = []
        for a in e.args:
            if isinstance(a, ast.Starred):
                args.extend(npmodel.iterate(self.I, self.eval(a.value)))
            else:
                args.append(self.eval(a))
        kwargs = {}
        for k in e.keywords:
            if k.arg is None:
                kwargs.update(self.eval(k.value))
            else:
                kwargs[k.arg] = self.eval(k.value)
        return args, kwargs

    def e_Attribute(self, e):
        from . import npmodel
        base = self.eval(e.value)
        return npmodel.getattr_(self.I, base, e.attr, self, e.lineno)

    def eval_index(self, sl):
        if isinstance(sl, ast.Slice):
            return slice(self.eval(sl.lower) if sl.lower else None,
                         self.eval(sl.upper) if sl.upper else None,
                         self.eval(sl.step) if sl.step else None)
        if isinstance(sl, ast.Tuple):
            return tuple(self.eval_index(x) for x in sl.elts)
        return self.eval(sl)

    def e_Subscript(self, e):
        from . import npmodel
        base = self.eval(e.value)
        idx = self.eval_index(e.slice)
        return npmodel.getitem(self.I, base, idx, e.lineno)

    def e_ListComp(self, e):
        it0 = self.eval(e.generators[0].iter)
        if hasattr(it0, 'pv_havoc'):
            # comprehension over an arbitrary object: fails or yields an arbitrary object
            it0.world.may_fail('comprehension over an arbitrary object')
            return it0._new('[...]')
        return PList(self._comp(e.elt, e.generators))

    def e_GeneratorExp(self, e):
        return PList(self._comp(e.elt, e.generators))

    def _comp(self, elt, gens):
        from . import npmodel
        out = []

        def rec(i):
            if i == len(gens):
                out.append(self.eval(elt))
                return
            g = gens[i]
            it = npmodel.try_concrete_iter(self.I, self.eval(g.iter))
            if it is None:
                raise Unsupported("comprehension over symbolic iterable")
            for x in it:
                self.assign(g.target, x)
                ok = True
                for c in g.ifs:
                    t = self.truth(self.eval(c))
                    if not isinstance(t, bool):
                        t = self.I.decide(t)      # symbolic filter: fork (one path per outcome)
                    ok = ok and t
                if ok:
                    rec(i + 1)
        rec(0)
        return out


class EnvView:
    """what loop invariants see: local variables as z3 terms / containers; v.name, v['self.x']"""
    def __init__(self, frame):
        object.__setattr__(self, '_f', frame)

    def _get(self, name):
        f = self._f
        if '.' in name:
            o, a = name.split('.', 1)
            obj = f.env[o]
            return obj.fields[a]
        return f.lookup(name)

    def __getattr__(self, name):
        v = self._get(name)
        return self._conv(v)

    def __getitem__(self, name):
        return self._conv(self._get(name))

    @staticmethod
    def _conv(v):
        if isinstance(v, SV):
            return v.t
        if isinstance(v, bool):
            return z3.BoolVal(v)
        if isinstance(v, int):
            return z3.IntVal(v)
        if isinstance(v, float):
            return RV(v)
        return v
