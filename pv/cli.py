"""./check <Cxx> [quick|thorough]   -  run the P obligations and B stand-ins of one property,
write /verif/evidence/<Cxx>.json, print VIOLATION / KNOWN-FINDING lines.

exit 0  property held on everything explored (known findings are printed, not alarmed)
exit 1  violation (line `VIOLATION property=<id> replay=<path> ...`)
exit 3  checker error (engine mismatch, crash, solver disagreement) - never a VIOLATION line
Undecided / unbound obligations never produce a violation by themselves (see DESIGN 2.7).
"""
import hashlib
import importlib
import json
import multiprocessing as mp
import os
import re
import sys
import time
import traceback

ROOT = os.path.dirname(os.path.dirname(os.path.abspath(__file__)))
sys.path.insert(0, ROOT)

from pv import api, bounded, extract   # noqa: E402

LEDGER = os.path.join(ROOT, 'baseline', 'ledger.json')
FINDINGS = os.path.join(ROOT, 'known_findings.json')
EVID = os.environ.get('PV_EVIDENCE_DIR') or os.path.join(ROOT, 'evidence')
REPLAYS = os.environ.get('PV_REPLAY_DIR') or os.path.join(ROOT, 'replays')


def load_contracts(prop):
    return importlib.import_module('contracts.' + prop.lower())


def _p_task(args):
    prop, name, second = args
    try:
        load_contracts(prop)
        return ('P', api.run_generator(prop, name, second))
    except Exception as e:   # noqa
        return ('P', {'prop': prop, 'generator': name, 'status': 'error', 'reason': f"{type(e).__name__}: {e}",
                      'traceback': traceback.format_exc(), 'items': [], 'functions': [], 'assumptions': [], 'notes': []})


def _b_task(args):
    prop, name, tier, seed, shard, nshards = args
    try:
        load_contracts(prop)
        return ('B', bounded.run_bounded(prop, name, tier, seed, shard, nshards))
    except Exception as e:   # noqa
        return ('B', {'prop': prop, 'bounded': name, 'shard': shard, 'status': 'error', 'reason': f"{type(e).__name__}: {e}",
                      'traceback': traceback.format_exc(), 'evaluations': 0, 'nontrivial': 0, 'failures': [], 'samples': []})


def _task(t):
    return _p_task(t[1:]) if t[0] == 'P' else _b_task(t[1:])


def slug(s):
    return re.sub(r'[^A-Za-z0-9_.-]+', '_', s)[:120]


def load_json(path, default):
    try:
        with open(path) as f:
            return json.load(f)
    except FileNotFoundError:
        return default


def function_hashes(funcs):
    out = []
    for mod, qual in sorted(set(map(tuple, funcs))):
        try:
            m = extract.load_module(mod)
            src = m.function_source(qual) or ''
            out.append({'function': f"{mod}::{qual}", 'sha256': hashlib.sha256(src.encode()).hexdigest()[:16]})
        except Exception:   # noqa
            out.append({'function': f"{mod}::{qual}", 'sha256': None})
    return out


def main(argv):
    if len(argv) >= 2 and argv[0] == '--replay':
        return replay_file(argv[1])
    prop = argv[0]
    tier = argv[1] if len(argv) > 1 else os.environ.get('VERIF_TIER', 'quick')
    write_ledger = '--ledger' in argv
    only = [a.split('=', 1)[1] for a in argv if a.startswith('--only=')]
    seed = int(os.environ.get('VERIF_SEED', '0'))
    os.environ['VERIF_SEED'] = str(seed)
    t0 = time.time()
    mod = load_contracts(prop)
    meta = getattr(mod, 'META', {})
    gens = api.REGISTRY.get(prop, {})
    bgens = bounded.BREGISTRY.get(prop, {})
    tasks = []
    for name, g in gens.items():
        if only and name not in only:
            continue
        if g.tier == 'thorough' and tier != 'thorough':
            continue
        tasks.append(('P', prop, name, tier == 'thorough'))
    btasks = []
    for name, g in bgens.items():
        if only and name not in only:
            continue
        if tier not in g.tiers:
            continue
        n = g.shards if isinstance(g.shards, int) else g.shards.get(tier, 1)
        for sh in range(n):
            btasks.append(('B', prop, name, tier, seed, sh, n))
    if btasks and getattr(mod, 'NEEDS_EXT', False):
        from pv import extbuild
        os.environ['PV_EXT_SO'] = extbuild.build()
    # long bounded shards first
    alltasks = btasks + tasks
    nproc = int(os.environ.get('PV_PROCS', '16'))
    presults, bresults = [], []
    if alltasks:
        with mp.Pool(min(nproc, len(alltasks)), maxtasksperchild=4) as pool:
            for kind, r in pool.imap_unordered(_task, alltasks, chunksize=1):
                (presults if kind == 'P' else bresults).append(r)
    presults.sort(key=lambda r: r['generator'])
    bresults.sort(key=lambda r: (r['bounded'], r['shard']))

    ledger = load_json(LEDGER, {}).get(prop, {})
    findings = [f for f in load_json(FINDINGS, {'findings': []})['findings'] if f.get('property') == prop]
    known = [f for f in findings if f.get('status') == 'finding']

    violations, known_hits, errors, lines = [], [], [], []
    n_items = n_proved = 0
    undecided, unbound = [], []
    by_backend = {}
    solver_time = 0.0
    samples = []
    canaries_ok = canaries = 0
    funcs = []
    assumptions = list(meta.get('assumptions', []))
    notes = []
    new_ledger = {}
    cover_bad = []
    cross = {'compared': 0, 'mismatch': 0}

    for r in presults:
        g = r['generator']
        funcs.extend(r.get('functions', []))
        for a in r.get('assumptions', []):
            if a not in assumptions:
                assumptions.append(a)
        notes.extend(f"{g}: {n}" for n in r.get('notes', []))
        if r['status'] == 'error':
            errors.append(f"generator {g}: {r.get('reason')}\n{r.get('traceback', '')}")
            lines.append(f"GENERATOR-ERROR obligation={prop}.{g} reason={r.get('reason')}")
        if r['status'] == 'unbound':
            unbound.append({'generator': g, 'reason': r.get('reason')})
            lines.append(f"UNBOUND obligation={prop}.{g} reason={r.get('reason')}")
        # (the items generated before an unbound / erroring generator stopped are processed like all others)
        if r.get('cover') == 'unsat':
            cover_bad.append(g)
            errors.append(f"generator {g}: contract hypotheses are unsatisfiable (vacuous)")
        cc = r.get('crosscheck')
        if cc:
            cross['compared'] += cc.get('compared', 0)
            if cc.get('status') == 'mismatch':
                cross['mismatch'] += 1
                errors.append(f"generator {g}: CPython cross-check mismatch (engine models the code wrongly): {cc.get('mismatches')}")
            elif cc.get('status') == 'error':
                errors.append(f"generator {g}: cross-check crashed: {cc.get('reason')}")
        proved_names = []
        for it in r['items']:
            full = f"{g}/{it['name']}"
            solver_time += it.get('time_s', 0) or 0
            if it.get('verdict') == 'error':
                errors.append(f"item {full}: {it.get('reason')}\n{it.get('traceback', '')}")
                continue
            if it.get('verdict') == 'solver-disagreement':
                errors.append(f"item {full}: z3 says unsat, cvc5 says sat")
                continue
            if it['expect'] == 'refuted':
                canaries += 1
                if it['verdict'] == 'refuted':
                    canaries_ok += 1
                elif it['verdict'] == 'proved':
                    errors.append(f"canary {full} was PROVED: engine or contract unsound/vacuous")
                else:
                    notes.append(f"canary {full} undecided")
                continue
            n_items += 1
            if it['verdict'] == 'proved':
                n_proved += 1
                proved_names.append(it['name'])
                by_backend[it['backend']] = by_backend.get(it['backend'], 0) + 1
                if len(samples) < 4 and it['kind'] in ('post', 'deriv', 'lemma', 'inv-preserve'):
                    samples.append({'obligation': f"{prop}.{full}", 'kind': it['kind'], 'goal': it.get('goal'), 'backend': it['backend'], 'time_s': it.get('time_s')})
                continue
            in_ledger = it['name'] in ledger.get(g, {}).get('proved', [])
            rep = it.get('replay') or {}
            if it['verdict'] in ('refuted', 'undecided') and rep.get('reproduced'):
                violations.append({'obligation': f"{prop}.{full}", 'kind': it['kind'], 'goal': it.get('goal'), 'model': it.get('model'),
                                   'replay': rep, 'reproduced': True, 'note': it.get('note'), 'lineno': it.get('lineno')})
            elif in_ledger:
                violations.append({'obligation': f"{prop}.{full}", 'kind': it['kind'], 'goal': it.get('goal'), 'model': it.get('model'),
                                   'replay': rep, 'reproduced': False, 'verdict': it['verdict'], 'model_confirmed': it.get('model_confirmed'),
                                   'note': it.get('note'), 'lineno': it.get('lineno')})
            else:
                undecided.append({'obligation': f"{prop}.{full}", 'verdict': it['verdict'], 'model_confirmed': it.get('model_confirmed')})
                lines.append(f"UNDECIDED obligation={prop}.{full} verdict={it['verdict']} (not in ledger; not a violation)")
        if r['status'] != 'ok':
            # keep the reference entry of a generator that did not complete
            new_ledger[g] = ledger.get(g, {'proved': proved_names})
            continue
        new_ledger[g] = {'proved': proved_names}
        # ledger items that vanished (renamed paths) are reported, not alarmed
        for nm in ledger.get(g, {}).get('proved', []):
            if nm not in [i['name'] for i in r['items']]:
                lines.append(f"UNBOUND obligation={prop}.{g}/{nm} reason=item no longer generated")
                unbound.append({'generator': g, 'item': nm, 'reason': 'item no longer generated'})

    # bounded
    b_eval = b_nontriv = 0
    b_summary = {}
    b_samples = []
    for r in bresults:
        nm = r['bounded']
        if r['status'] == 'error':
            errors.append(f"bounded {nm}[{r['shard']}]: {r.get('reason')}\n{r.get('traceback', '')}")
            continue
        b_eval += r['evaluations']
        b_nontriv += r['nontrivial']
        s = b_summary.setdefault(nm, {'contract': nm, 'bound': r.get('bound'), 'rule': r.get('rule'), 'evaluations': 0, 'distinct_nontrivial': 0,
                                      'exhaustive': r.get('exhaustive'), 'failures': 0, 'label': 'bounded', 'counted': {}, 'notes': []})
        s['evaluations'] += r['evaluations']
        s['distinct_nontrivial'] += r['nontrivial']
        s['failures'] += len(r['failures'])
        for k, v in r.get('counted', {}).items():
            s['counted'][k] = s['counted'].get(k, 0) + v
        for n_ in r.get('notes', []):
            if n_ not in s['notes']:
                s['notes'].append(n_)
        for smp in r.get('samples', []):
            if len(b_samples) < 6:
                b_samples.append({'bounded': nm, 'case': smp})
        for f in r['failures']:
            hit = None
            for kf in known:
                if kf.get('key') and re.fullmatch(kf['key'], f['key'] or ''):
                    hit = kf
                    break
            if hit:
                known_hits.append((hit, f))
            else:
                violations.append({'obligation': f"{prop}.bounded/{nm}", 'kind': 'bounded', 'key': f['key'], 'what': f['what'],
                                   'repro': f.get('repro'), 'reproduced': True})

    os.makedirs(EVID, exist_ok=True)
    os.makedirs(REPLAYS, exist_ok=True)
    out_lines = []
    seen_known = set()
    for kf, f in known_hits:
        if kf['id'] in seen_known:
            continue
        seen_known.add(kf['id'])
        out_lines.append(f"KNOWN-FINDING: property={prop} {kf['what']}")
    # one VIOLATION line per distinct obligation / failure key
    seen_v = set()
    for v in violations:
        k = v.get('key') or v['obligation']
        if k in seen_v:
            continue
        seen_v.add(k)
        path = os.path.join(REPLAYS, f"{prop}-{slug(k)}.json")
        with open(path, 'w') as f:
            json.dump({'property': prop, 'tier': tier, 'seed': seed, **v}, f, indent=1, default=str)
        tail = '' if v.get('reproduced') else ' no-failing-input-found'
        out_lines.append(f"VIOLATION property={prop} replay={path} obligation={v['obligation']}{(' key=' + v['key']) if v.get('key') else ''}{tail}")

    level = meta.get('level', 'other')
    if level == 'proof' and (n_proved != n_items or n_items == 0 or unbound):
        level = 'other'
    coverage = {
        'obligations': n_items,
        'discharged': n_proved,
        'checker_cmd': f"./check {prop} {tier}  (pv: ast->z3 VC generator over /repo/src, z3 {api.z3.get_version_string()} + /usr/bin/cvc5)",
        'trusted_base': meta.get('trusted_base', []) + ['pv symbolic executor and library models (DESIGN 7.1)', 'z3 / cvc5'],
        'evaluations': max(b_eval, 1) if (b_eval or not n_items) else b_eval,
        'distinct_nontrivial': b_nontriv,
        'rule': meta.get('rule', '; '.join(f"{k}: {v.get('rule') or ''}" for k, v in b_summary.items())),
        'samples': samples + b_samples,
        'explanation': meta.get('explanation', ''),
        'exhaustive': bool(b_summary) and all(v.get('exhaustive') for v in b_summary.values()),
        'functions_under_contract': function_hashes(funcs),
        'by_backend': by_backend,
        'solver_time_s': round(solver_time, 3),
        'canaries': {'total': canaries, 'refuted': canaries_ok},
        'cpython_crosscheck': cross,
        'unbound': unbound,
        'undecided': undecided,
        'bounded': list(b_summary.values()),
        'not_decided': meta.get('not_decided', []),
        'notes': notes,
        'known_findings_hit': sorted(seen_known),
    }
    if not coverage['samples']:
        coverage['samples'] = [{'note': 'no obligation discharged in this run'}]
    if coverage['evaluations'] == 0:
        del coverage['evaluations']
        del coverage['distinct_nontrivial']
    ev = {'property_id': prop, 'tier': tier, 'seed': seed, 'level': level, 'coverage': coverage, 'assumptions': assumptions,
          'wall_s': round(time.time() - t0, 2), 'violations': len(seen_v)}
    if not errors or violations:
        with open(os.path.join(EVID, f"{prop}.json"), 'w') as f:
            json.dump(ev, f, indent=1, default=str)
    if write_ledger and not errors:
        full = load_json(LEDGER, {})
        full[prop] = new_ledger
        os.makedirs(os.path.dirname(LEDGER), exist_ok=True)
        with open(LEDGER, 'w') as f:
            json.dump(full, f, indent=1, sort_keys=True)
    for ln in lines:
        print(ln)
    for ln in out_lines:
        print(ln)
    print(f"{prop} {tier}: P {n_proved}/{n_items} obligations discharged ({by_backend}), canaries {canaries_ok}/{canaries}, "
          f"crosscheck {cross['compared']} values; B {b_eval} evaluations / {b_nontriv} non-trivial, "
          f"{len(seen_v)} violation(s), {len(seen_known)} known finding(s), {len(unbound)} unbound, {len(undecided)} undecided, "
          f"{round(time.time() - t0, 1)} s")
    if errors and not violations:
        for e in errors:
            print("CHECKER-ERROR", e, file=sys.stderr)
        return 3
    if violations:
        return 1
    return 0


def replay_file(path):
    d = json.load(open(path))
    print(json.dumps(d, indent=1)[:4000])
    rep = d.get('repro')
    if isinstance(rep, str) and rep.strip():
        ns = {}
        print("--- running reproduction against the real code ---")
        exec(compile(rep, path, 'exec'), ns)   # noqa: S102
    return 0


if __name__ == '__main__':
    sys.exit(main(sys.argv[1:]))
