"""Rebuild the compiled rainflow kernels from the *current* extension.pyx (DESIGN 2.1) so that
bounded checks and replays never run a stale .so.  Cached under /verif/.cache by source hash."""
import hashlib
import importlib.machinery
import importlib.util
import os
import shutil
import subprocess
import sys
import tempfile

ROOT = os.path.dirname(os.path.dirname(os.path.abspath(__file__)))
REPO = os.environ.get('PV_REPO', '/repo')
PYX = os.path.join(REPO, 'src/pylife/stress/rainflow/extension.pyx')


def build():
    src = open(PYX, 'rb').read()
    sha = hashlib.sha256(src).hexdigest()[:16]
    cache = os.path.join(ROOT, '.cache', f'ext-{sha}')
    so = None
    if os.path.isdir(cache):
        for f in os.listdir(cache):
            if f.startswith('rainflow_ext') and f.endswith('.so'):
                return os.path.join(cache, f)
    tmp = tempfile.mkdtemp(prefix='pvext.')
    try:
        shutil.copy(PYX, os.path.join(tmp, 'rainflow_ext.pyx'))
        setup = ("from setuptools import setup, Extension\nfrom Cython.Build import cythonize\nimport numpy\n"
                 "setup(ext_modules=cythonize([Extension('rainflow_ext', ['rainflow_ext.pyx'], include_dirs=[numpy.get_include()])], quiet=True), script_args=['build_ext', '--inplace', '-q'])\n")
        open(os.path.join(tmp, 'setup.py'), 'w').write(setup)
        r = subprocess.run([sys.executable, 'setup.py'], cwd=tmp, capture_output=True, text=True)
        if r.returncode != 0:
            raise RuntimeError("extension build failed:\n" + r.stdout[-2000:] + r.stderr[-4000:])
        os.makedirs(cache, exist_ok=True)
        for f in os.listdir(tmp):
            if f.startswith('rainflow_ext') and f.endswith('.so'):
                shutil.copy(os.path.join(tmp, f), os.path.join(cache, f))
                so = os.path.join(cache, f)
    finally:
        shutil.rmtree(tmp, ignore_errors=True)
    if so is None:
        raise RuntimeError("extension build produced no .so")
    return so


def install(so_path=None):
    """make `pylife.rainflow_ext` the extension built from the current .pyx (must run before
    pylife.stress.rainflow is imported)"""
    so_path = so_path or os.environ.get('PV_EXT_SO') or build()
    if 'pylife.rainflow_ext' in sys.modules and getattr(sys.modules['pylife.rainflow_ext'], '__file__', None) == so_path:
        return sys.modules['pylife.rainflow_ext']
    loader = importlib.machinery.ExtensionFileLoader('pylife.rainflow_ext', so_path)
    spec = importlib.util.spec_from_file_location('pylife.rainflow_ext', so_path, loader=loader)
    mod = importlib.util.module_from_spec(spec)
    loader.exec_module(mod)
    sys.modules['pylife.rainflow_ext'] = mod
    import pylife
    pylife.rainflow_ext = mod
    return mod
