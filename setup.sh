#!/bin/bash
# Build the overlay interpreter: /venv's python 3.12 + the repository's dependencies (numpy, pandas,
# scipy, h5py, Cython, pylife in editable mode) + z3-solver / sympy from the offline wheelhouse.
set -e
cd "$(dirname "$0")"
V=.venv
if [ -x $V/bin/python ] && $V/bin/python -c "import z3, sympy, numpy, pandas, pylife" 2>/dev/null; then
    exit 0
fi
rm -rf $V
/venv/bin/python -m venv $V
echo "import site; site.addsitedir('/venv/lib/python3.12/site-packages')" > $V/lib/python3.12/site-packages/_base.pth
PIP_NO_INDEX=1 $V/bin/python -m pip install -q --no-index --find-links /opt/veriftools/wheels z3-solver sympy mpmath >/dev/null
$V/bin/python -c "import z3, sympy, numpy, pandas, pylife; print('pv venv ready: z3', z3.get_version_string())"
