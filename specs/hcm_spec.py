"""Executable specifications for the FKM-nonlinear HCM counting (DESIGN section 3), written independently of pyLife.

periodic_rainflow(seq)  - closed cycles of the endlessly repeated sequence (oracle PR of C04)
HCMNonlinear            - the guideline's HCM procedure with Memory 1/2/3, primary / Masing secondary branches (oracle MHN of C05)
"""
import math


def cyclic_reversals(seq):
    """reversal values of the periodic sequence seq, seq, seq, ... over one period (cyclic removal of non-reversal samples)"""
    x = [float(v) for v in seq]
    # remove consecutive duplicates cyclically
    y = []
    for v in x:
        if not y or v != y[-1]:
            y.append(v)
    while len(y) > 1 and y[0] == y[-1]:
        y.pop()
    if len(y) < 2:
        return y
    changed = True
    while changed and len(y) > 2:
        changed = False
        n = len(y)
        for i in range(n):
            a, b, c = y[i - 1], y[i], y[(i + 1) % n]
            if (b - a) * (c - b) > 0:      # b lies on a monotone segment a -> c
                del y[i]
                changed = True
                break
    return y


def periodic_rainflow(seq):
    """rainflow cycles (as (min, max) pairs) of the periodic reversal sequence started at its largest absolute load"""
    r = cyclic_reversals(seq)
    if len(r) < 2:
        return []
    k = max(range(len(r)), key=lambda i: (abs(r[i]), -i))
    rot = r[k:] + r[:k] + [r[k]]
    stack, cycles = [], []
    for d in rot:
        while len(stack) >= 3:
            a, b, c = stack[-3], stack[-2], stack[-1]
            if abs(b - c) <= abs(a - b) and abs(b - c) <= abs(c - d):
                cycles.append((min(b, c), max(b, c)))
                del stack[-2:]
            else:
                break
        stack.append(d)
    # what remains is start, (opposite extreme), start: one more closed cycle per remaining pair
    while len(stack) >= 3:
        cycles.append((min(stack[-2], stack[-1]), max(stack[-2], stack[-1])))
        del stack[-2:]
    return sorted(cycles)


def reversals_open(seq):
    """turning point values of an open sequence: first sample excluded, interior reversals, (last sample handled by the caller)"""
    out = []
    n = len(seq)
    for p in range(1, n - 1):
        if seq[p] == seq[p - 1]:
            continue
        q = p + 1
        while q < n and seq[q] == seq[p]:
            q += 1
        if q == n:
            continue
        if (seq[p] - seq[p - 1]) * (seq[q] - seq[p]) < 0:
            out.append(seq[p])
    return out


class HCMNonlinear:
    """FKM nonlinear guideline, HCM algorithm (chapter 2.9.7) with the three memory rules.  `law` provides
    stress(L), strain(sigma, L), stress_secondary_branch(dL), strain_secondary_branch(dsigma, dL) for floats."""
    TOL = 1e-12

    def __init__(self, law):
        self.law = law
        self.res = []            # open points (L, sigma, eps)
        self.ir = 1
        self.max_seen = 0.0
        self.prev_load = 0.0
        self.eps_min_LF = 0.0
        self.eps_max_LF = 0.0
        self.rows = []           # recorded hystereses
        self.strains = []        # visited strain values
        self.run = 0

    def primary(self, L):
        s = self.law.stress(L)
        return (L, s, self.law.strain(s, L))

    def secondary(self, prev, L):
        dL = L - prev[0]
        ds = self.law.stress_secondary_branch(dL)
        de = self.law.strain_secondary_branch(ds, dL)
        return (L, prev[1] + ds, prev[2] + de)

    def feed(self, L):
        tol = self.TOL
        while True:
            iz = len(self.res)
            if iz == self.ir:
                prev = self.res[-1]
                if abs(L) > self.max_seen + tol:          # a) i  Memory 3
                    self.rows.append(dict(loads_min=-abs(prev[0]), loads_max=abs(prev[0]), S_min=-abs(prev[1]), S_max=abs(prev[1]),
                                          epsilon_min=-abs(prev[2]), epsilon_max=abs(prev[2]), epsilon_min_LF=self.eps_min_LF, epsilon_max_LF=self.eps_max_LF,
                                          is_closed_hysteresis=False, is_zero_mean_stress_and_strain=True, run_index=self.run))
                    pt = self.primary(L)
                    self.ir += 1
                else:                                    # a) ii
                    pt = self.secondary(prev, L)
                break
            if iz < self.ir:                             # b)
                pt = self.primary(L)
                break
            p0, p1 = self.res[-2], self.res[-1]
            if abs(L - p1[0]) < abs(p1[0] - p0[0]) - tol:     # c) i
                pt = self.secondary(p1, L)
                break
            # c) ii: hysteresis p0-p1 closes
            self.rows.append(dict(loads_min=min(p0[0], p1[0]), loads_max=max(p0[0], p1[0]), S_min=min(p0[1], p1[1]), S_max=max(p0[1], p1[1]),
                                  epsilon_min=min(p0[2], p1[2]), epsilon_max=max(p0[2], p1[2]), epsilon_min_LF=self.eps_min_LF, epsilon_max_LF=self.eps_max_LF,
                                  is_closed_hysteresis=True, is_zero_mean_stress_and_strain=False, run_index=self.run))
            del self.res[-2:]
            if abs(p0[0]) < self.max_seen - tol and abs(p1[0]) < self.max_seen - tol:
                continue                                 # Memory 2: continue on the older branch
            pt = self.primary(L)                         # Memory 1: back on the primary path
            break
        self.strains.append(pt[2])
        if abs(L) > self.max_seen + tol:
            self.max_seen = abs(L)
        self.res.append(pt)
        if self.prev_load < L - tol:
            self.eps_max_LF = max(self.eps_max_LF, pt[2])
        else:
            self.eps_min_LF = min(self.eps_min_LF, pt[2])
        self.prev_load = L

    def run_pass(self, turning_points):
        self.run += 1
        for L in turning_points:
            self.feed(float(L))
