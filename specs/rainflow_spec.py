"""Executable ghost specifications of DESIGN section 3 (written independently of pyLife).

TP(x)   turning points of a signal
M4      textbook four-point stack machine
MH      Clormann-Seeger HCM machine (the FKM guideline's counting rule)
"""


def TP(x):
    """interior position p is a turn iff x[p] != x[p-1], a later sample differs from x[p], and with q the first
    such, (x[p]-x[p-1])*(x[q]-x[p]) < 0 (plateau indexed at its first sample)"""
    out = []
    n = len(x)
    for p in range(1, n - 1):
        if x[p] == x[p - 1]:
            continue
        q = p + 1
        while q < n and x[q] == x[p]:
            q += 1
        if q == n:
            continue
        if (x[p] - x[p - 1]) * (x[q] - x[p]) < 0:
            out.append(p)
    return out


def four_point(values, index):
    """four point rule on a sequence of (value, index); returns (cycles [(from,to,ifrom,ito)], residual [(v,i)])"""
    S = []
    cycles = []
    for d, di in zip(values, index):
        while len(S) >= 3:
            (a, _), (b, bi), (c, ci) = S[-3], S[-2], S[-1]
            if abs(b - c) <= abs(a - b) and abs(b - c) <= abs(c - d):
                cycles.append((b, c, bi, ci))
                del S[-2:]
            else:
                break
        S.append((d, di))
    return cycles, S


def M4(x):
    """four-point result on a signal: first sample, TP(x), last sample"""
    if len(x) == 0:
        return [], []
    tp = TP(x)
    pos = [0] + tp + ([len(x) - 1] if len(x) > 1 else [])
    return four_point([x[p] for p in pos], pos)


def MH(turns):
    """Clormann-Seeger HCM on a list of turning point values -> (cycles [(from,to)], residuals)"""
    res = []
    ir = 1
    max_abs = 0.0
    cycles = []
    for k in turns:
        while True:
            iz = len(res)
            if iz < ir:
                break
            if iz > ir:
                i, j = res[-2], res[-1]
                if abs(k - j) >= abs(j - i):
                    cycles.append((i, j))
                    del res[-2:]
                    if abs(j) < max_abs and abs(i) < max_abs:
                        continue
                    break
                break
            # iz == ir
            if abs(k) > max_abs:
                ir += 1
            break
        max_abs = max(max_abs, abs(k))
        res.append(k)
    return cycles, res


def compositions(n):
    """all partitions of n samples into consecutive non-empty chunks (as lists of chunk sizes)"""
    if n == 0:
        yield []
        return
    for mask in range(1 << (n - 1)):
        sizes, cur = [], 1
        for b in range(n - 1):
            if mask >> b & 1:
                sizes.append(cur)
                cur = 1
            else:
                cur += 1
        sizes.append(cur)
        yield sizes
