#!/bin/bash
# tools/seeded.sh <seed-id> <property> [tier]   -- seed-id names /verif/seeded/<seed-id>/ (patch.diff, demonstration.py)
# applies the patch to /repo, runs the demonstration and the property's check, reverts /repo; evidence of the run goes to a scratch dir
set -u
sid="$1"; prop="$2"; tier="${3:-quick}"
D=/verif/seeded/$sid
[ -f "$D/patch.diff" ] || { echo "no $D/patch.diff"; exit 9; }
if [ -n "$(git -C /repo status --porcelain --untracked-files=no -- src)" ]; then echo "/repo/src is not clean"; exit 9; fi
S=$(mktemp -d /tmp/seedrun.XXXXXX)
trap 'git -C /repo checkout -- src >/dev/null 2>&1; rm -rf "$S"' EXIT
echo "== demonstration on the unchanged tree"
if [ -f "$D/demonstration.py" ]; then (cd "$S" && PYTHONPATH=/repo/src timeout 600 /venv/bin/python "$D/demonstration.py" > "$S/demo_clean.txt" 2>&1; echo "exit=$?" | tee -a "$S/demo_clean.txt" | tail -1); fi
git -C /repo apply "$D/patch.diff" || { echo "patch does not apply"; exit 9; }
if git -C /repo diff --name-only | grep -q extension.pyx; then echo "(extension.pyx changed: checks rebuild it; the demonstration uses the installed .so unless rebuilt)"; fi
echo "== demonstration on the changed tree"
if [ -f "$D/demonstration.py" ]; then (cd "$S" && PYTHONPATH=/repo/src timeout 600 /venv/bin/python "$D/demonstration.py" > "$S/demo_changed.txt" 2>&1; echo "exit=$?" | tee -a "$S/demo_changed.txt" | tail -1); fi
echo "== check $prop $tier on the changed tree"
(cd /verif && PV_EVIDENCE_DIR="$S/ev" PV_REPLAY_DIR="$S/rp" timeout 3000 ./check "$prop" "$tier" > "$S/check.txt" 2>&1; echo "check exit=$?" >> "$S/check.txt")
grep -c VIOLATION "$S/check.txt" | sed 's/^/violations: /'
grep VIOLATION "$S/check.txt" | sed 's/.*obligation=//' | cut -c1-200 | head -8
tail -2 "$S/check.txt" | cut -c1-300
cp "$S/check.txt" "$D/check_${prop}_${tier}.txt"
tail -3 "$S/demo_clean.txt" > "$D/demonstration_unchanged_tail.txt" 2>/dev/null
tail -15 "$S/demo_changed.txt" > "$D/demonstration_changed_tail.txt" 2>/dev/null
