#!/bin/bash
# tools/seed_regress_scratch.sh [jobs]: re-runs every kept seed against the current machinery on scratch copies (tools/seeded_scratch.sh, /repo untouched), <jobs> at a
# time, and writes seeded/REGRESSION.txt (one line per seed: exit code of the property's quick check on the changed tree; every seed must give 1)
cd "$(dirname "$0")/.."
jobs=${1:-4}
out=$(mktemp -d /tmp/seedreg.XXXXXX)
ls -d seeded/C??-? | sed 's#seeded/##' | xargs -P "$jobs" -I{} bash -c 'sid={}; prop=${sid%%-*}; tools/seeded_scratch.sh $sid $prop > '"$out"'/$sid.txt 2>&1; echo "$sid $(grep -o "check exit=[0-9]*" '"$out"'/$sid.txt | tail -1) $(grep -c "^C.*key=\|^C[0-9][0-9]\.[a-z]" '"$out"'/$sid.txt) violation line(s)" > '"$out"'/$sid.sum'
cat "$out"/*.sum | sort > seeded/REGRESSION.txt
rm -rf "$out"
echo "$(grep -c 'exit=1' seeded/REGRESSION.txt) of $(wc -l < seeded/REGRESSION.txt) seeds detected"; grep -v 'exit=1' seeded/REGRESSION.txt
