#!/bin/bash
# tools/with_mutant.sh <file-relative-to-repo> <sed-expression> -- <command...>
# runs <command> against a scratch copy of /repo with one sed edit (PV_REPO + PYTHONPATH), removes the copy
f="$1"; e="$2"; shift 3
D=$(mktemp -d /tmp/pvmut.XXXXXX)
trap 'rm -rf "$D"' EXIT
mkdir -p "$D/repo"
cp -r /repo/src "$D/repo/src"
sed -i "$e" "$D/repo/$f"
if diff -q "/repo/$f" "$D/repo/$f" >/dev/null; then echo "MUTANT DID NOT CHANGE THE FILE" >&2; exit 9; fi
diff "/repo/$f" "$D/repo/$f" | head -6
PV_REPO="$D/repo" PYTHONPATH="$D/repo/src" PV_EVIDENCE_DIR="$D/evidence" PV_REPLAY_DIR="$D/replays" "$@"
echo "exit=$?"
