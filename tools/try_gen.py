import sys, json, importlib
sys.path.insert(0, '/verif')
from pv import api
prop, mod = sys.argv[1], sys.argv[2]
importlib.import_module('contracts.' + mod)
names = sys.argv[3:] or list(api.REGISTRY[prop])
for n in names:
    r = api.run_generator(prop, n)
    print('==', n, r['status'], r.get('reason', ''), 'cover=', r.get('cover'), r['time_s'], 's')
    if r.get('traceback'): print(r['traceback'])
    for it in r['items']:
        print('   ', it['verdict'], it['backend'] if 'backend' in it else '', it.get('time_s'), it['name'], '|', it.get('note') or '', it.get('model_confirmed', ''))
        if (it.get("time_s") or 0) > 1: print("       SLOW", it.get("time_s"), it["name"], it.get("backend"))
        if it["verdict"] not in ("proved",) and it.get("expect") == "proved":
            print('       goal:', it.get('goal')); print('       model:', it.get('model'))
        if it.get('traceback'): print(it['traceback'])
