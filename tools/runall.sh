#!/bin/bash
# tools/runall.sh [tier] [seed...] : run every claimed check on the current tree, one summary line each
cd "$(dirname "$0")/.."
tier=${1:-quick}; shift
seeds=${@:-0}
for p in $(python3 -c "import json;print(' '.join(c['property_id'] for c in json.load(open('MANIFEST.json'))['checks']))"); do
  for s in $seeds; do
    out=$(VERIF_SEED=$s ./check $p $tier 2>&1); rc=$?
    echo "seed=$s rc=$rc $(echo "$out" | grep -E "^$p " | tail -1 | cut -c1-210)"
    if [ $rc -ne 0 ]; then echo "$out" | grep -E "VIOLATION|CHECKER-ERROR|UNBOUND|UNDECIDED" | head -5 | cut -c1-300; fi
  done
done
