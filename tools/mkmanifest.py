#!/usr/bin/env python3
"""regenerate MANIFEST.json from the contract modules' META (run with .venv/bin/python)"""
import importlib, json, os, sys
ROOT = os.path.dirname(os.path.dirname(os.path.abspath(__file__)))
sys.path.insert(0, ROOT)
props = [json.loads(l) for l in open(os.path.join(ROOT, 'properties.jsonl'))]
checks, na = [], []
for p in props:
    pid = p['id']
    path = os.path.join(ROOT, 'contracts', pid.lower() + '.py')
    meta = None
    if os.path.exists(path):
        meta = getattr(importlib.import_module('contracts.' + pid.lower()), 'META', None)
    if not meta or meta.get('not_applicable'):
        na.append({'property_id': pid, 'reason': (meta or {}).get('not_applicable', 'check not built yet (work in progress, see DESIGN.md section 4)')})
        continue
    checks.append({
        'property_id': pid,
        'quick_cmd': f'./check {pid} quick',
        'thorough_cmd': f'./check {pid} thorough',
        'evidence_file': f'evidence/{pid}.json',
        'replay_cmd_template': './check --replay {path}',
        'engine': 'pv',
        'level_claimed': {'category': meta['level'], 'text': meta['explanation'], 'design_ref': f'DESIGN.md sections 4 (plan) and 10.5 (as built) / {pid}'},
        'level_note': meta.get('level_note', '; '.join(meta.get('trusted_base', []))),
        'technique': meta.get('technique', 'contract-based deductive verification: VCs generated from the real source (ast -> z3), discharged by z3/cvc5; bounded stand-ins labelled'),
    })
man = {
    'version': 1,
    'setup_cmd': './setup.sh',
    'hooks': {'guard': 'PYLIFE_VERIF', 'enable': 'no hooks: contracts are sidecar files under /verif/contracts, /repo is read as text and imported unmodified',
              'baseline_off_cmd': 'cd /repo && /venv/bin/python -m pytest -ra -q -p no:cacheprovider --timeout=900 --continue-on-collection-errors',
              'source_commits': [], 'add_only': True},
    'engines': [{'name': 'pv', 'path': 'pv/', 'serves_properties': [c['property_id'] for c in checks],
                 'kind_free_text': 'home-built deductive verifier for a Python subset: symbolic executor over the ast of the real functions '
                                   '(incl. mechanically stripped Cython), contracts/invariants in sidecar files, obligations discharged by z3 5.1 / cvc5; '
                                   'bounded stand-ins run the same contracts on the real code over exhaustively enumerated small domains'}],
    'checks': checks,
    'not_applicable': na,
    'notes': 'P = proved obligations (unbounded), B = bounded stand-ins (labelled, never counted as discharged), A = assumptions; see DESIGN.md',
}
json.dump(man, open(os.path.join(ROOT, 'MANIFEST.json'), 'w'), indent=1)
print(len(checks), 'checks,', len(na), 'not applicable')
