#!/usr/bin/env python3
"""tools/harmless.py <dest-dir> [kinds]: writes a behaviour-preserving rewrite of /repo's HEAD sources to <dest-dir>/src (for false-alarm testing of the checks).
kinds (comma separated, default all): unparse (formatting / comments / parentheses gone), commute (operands of * swapped when both are names / attributes / numbers),
ifswap (if c: A else: B  ->  if not c: B else: A), rettemp (return <expr>  ->  _pv_result = <expr>; return _pv_result).
Only modules under contract are rewritten (the list below); everything else is copied."""
import ast, os, shutil, subprocess, sys

MODULES = """stress/rainflow/general.py stress/rainflow/fkm.py stress/rainflow/fourpoint.py stress/rainflow/threepoint.py stress/rainflow/fkm_nonlinear.py
stress/rainflow/recorders.py materiallaws/notch_approximation_law.py materiallaws/notch_approximation_law_seegerbeste.py materiallaws/woehlercurve.py
materiallaws/rambgood.py materiallaws/hookeslaw.py materiallaws/true_stress_strain.py strength/damage_parameter.py strength/fkm_nonlinear/damage_calculator.py
strength/fkm_nonlinear/parameter_calculations.py strength/fkm_load_distribution.py strength/miner.py strength/solidity.py strength/meanstress.py
strength/failure_probability.py core/broadcaster.py stress/collective/load_collective.py stress/collective/load_histogram.py utils/histogram.py stress/equistress.py
materialdata/woehler/fatigue_data.py materialdata/woehler/elementary.py mesh/gradient.py mesh/hotspot.py mesh/meshmapping.py vmap/vmap_export.py vmap/vmap_import.py""".split()


class T(ast.NodeTransformer):
    def __init__(self, kinds):
        self.kinds = kinds

    def visit_BinOp(self, n):
        self.generic_visit(n)
        simple = lambda e: isinstance(e, (ast.Name, ast.Attribute, ast.Constant)) and not (isinstance(e, ast.Constant) and isinstance(e.value, str))   # noqa
        if 'commute' in self.kinds and isinstance(n.op, ast.Mult) and simple(n.left) and simple(n.right):
            n.left, n.right = n.right, n.left
        return n

    def visit_If(self, n):
        self.generic_visit(n)
        if 'ifswap' in self.kinds and n.orelse:
            return ast.If(test=ast.UnaryOp(op=ast.Not(), operand=n.test), body=n.orelse, orelse=n.body)
        return n

    def visit_Return(self, n):
        self.generic_visit(n)
        if 'rettemp' in self.kinds and n.value is not None and not isinstance(n.value, (ast.Name, ast.Constant)):
            return [ast.Assign(targets=[ast.Name(id='_pv_result', ctx=ast.Store())], value=n.value, lineno=n.lineno), ast.Return(value=ast.Name(id='_pv_result', ctx=ast.Load()))]
        return n

    def visit_Lambda(self, n):
        self.generic_visit(n)
        return n


def main():
    dest = sys.argv[1]
    kinds = set((sys.argv[2] if len(sys.argv) > 2 else 'unparse,commute,ifswap,rettemp').split(','))
    os.makedirs(dest, exist_ok=True)
    subprocess.run(f"git -C /repo archive HEAD src | tar -x -C {dest}", shell=True, check=True)
    for f in os.listdir('/repo/src/pylife'):
        if f.startswith('rainflow_ext') and f.endswith('.so'):
            shutil.copy(f'/repo/src/pylife/{f}', f'{dest}/src/pylife/{f}')
    n = 0
    for m in MODULES:
        p = f'{dest}/src/pylife/{m}'
        if not os.path.exists(p):
            print('missing', m)
            continue
        tree = ast.parse(open(p).read())
        tree = ast.fix_missing_locations(T(kinds).visit(tree))
        open(p, 'w').write(ast.unparse(tree) + '\n')
        n += 1
    print(f'{n} modules rewritten with {sorted(kinds)} in {dest}/src')


if __name__ == '__main__':
    main()
