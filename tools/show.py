#!/usr/bin/env python3
"""print python source without docstrings/comments/blank lines (reading aid)"""
import ast, sys, io, tokenize
def strip(path):
    src = open(path).read()
    tree = ast.parse(src)
    doclines = set()
    for node in ast.walk(tree):
        if isinstance(node, (ast.FunctionDef, ast.ClassDef, ast.Module, ast.AsyncFunctionDef)):
            b = node.body
            if b and isinstance(b[0], ast.Expr) and isinstance(getattr(b[0], 'value', None), ast.Constant) and isinstance(b[0].value.value, str):
                for l in range(b[0].lineno, b[0].end_lineno + 1):
                    doclines.add(l)
    out = []
    for i, line in enumerate(src.splitlines(), 1):
        if i in doclines: continue
        s = line.strip()
        if not s or s.startswith('#'): continue
        out.append(f"{i:4d} {line}")
    return "\n".join(out)
for p in sys.argv[1:]:
    print("=====", p)
    print(strip(p))
