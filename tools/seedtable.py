#!/usr/bin/env python3
"""tools/seedtable.py: rewrites the table between <!-- SEEDTABLE:BEGIN --> and <!-- SEEDTABLE:END --> in DESIGN.md from seeded/*/meta.json"""
import glob, json, re
rows = []
for f in sorted(glob.glob('/verif/seeded/*/meta.json')):
    m = json.load(open(f))
    checks = m['checks']
    obs = sorted({o for v in checks.values() for o in v['obligations']})
    pobs = [o for o in obs if not o.split('/')[0].endswith('.bounded')]
    bobs = [o for o in obs if o.split('/')[0].endswith('.bounded')]
    caught = []
    if pobs:
        caught.append('P: ' + '; '.join(sorted({o.split('/')[0].split('.', 1)[1] for o in pobs})))
    if bobs:
        caught.append('B: ' + '; '.join(sorted({o.split('/', 1)[1] for o in bobs})))
    first = 'missed, check strengthened' if str(m.get('history', '')).upper().startswith('MISSED') else ('B only, P added' if 'first detected by the bounded' in str(m.get('history', '')) else 'yes')
    rows.append(f"| {m['id']} | {m['files'][0].replace('src/pylife/', '')} | {m['description'][:150]} | {first} | {' / '.join(caught) if caught else 'NOT DETECTED'} |")
table = "| seed | file | change | detected as first built | failing obligations now |\n|------|------|--------|-------------------------|--------------------------|\n" + "\n".join(rows)
s = open('/verif/DESIGN.md').read()
s = re.sub(r'<!-- SEEDTABLE:BEGIN -->.*<!-- SEEDTABLE:END -->', '<!-- SEEDTABLE:BEGIN -->\n' + table + '\n<!-- SEEDTABLE:END -->', s, flags=re.S)
open('/verif/DESIGN.md', 'w').write(s)
print(len(rows), 'seeds;', sum('missed' in r for r in rows), 'missed at first;', sum('NOT DETECTED' in r for r in rows), 'undetected now')
