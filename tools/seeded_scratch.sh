#!/bin/bash
# tools/seeded_scratch.sh <seed-id> <property> [tier]: like tools/seeded.sh but on a scratch copy of /repo's HEAD sources under /tmp (PV_REPO redirect): /repo is not touched
set -u
sid="$1"; prop="$2"; tier="${3:-quick}"
D=/verif/seeded/$sid
[ -f "$D/patch.diff" ] || { echo "no $D/patch.diff"; exit 9; }
S=$(mktemp -d /tmp/seedscr.XXXXXX)
trap 'rm -rf "$S"' EXIT
mkdir -p "$S/clean" "$S/mut"
git -C /repo archive HEAD src | tar -x -C "$S/clean"
cp /repo/src/pylife/rainflow_ext*.so "$S/clean/src/pylife/"
cp -r "$S/clean/src" "$S/mut/src"
(cd "$S/mut" && patch -p1 -s < "$D/patch.diff") || { echo "patch does not apply"; exit 9; }
# a patch to extension.pyx: the demonstration must import the kernel built from the changed .pyx (the checks rebuild it themselves, pv/extbuild.py)
if grep -q 'extension.pyx' "$D/patch.diff"; then
  so=$(cd /verif && PV_REPO="$S/mut" /venv/bin/python -c "from pv import extbuild; print(extbuild.build())" 2>/dev/null | tail -1)
  [ -f "$so" ] && cp "$so" "$S/mut/src/pylife/$(basename /repo/src/pylife/rainflow_ext*.so)" && echo "(extension rebuilt from the changed extension.pyx for the demonstration)"
fi
echo "== demonstration on the unchanged tree"
(cd "$S" && PYTHONPATH="$S/clean/src" timeout 900 /venv/bin/python "$D/demonstration.py" > "$S/demo_clean.txt" 2>&1; echo "exit=$?" | tee -a "$S/demo_clean.txt" | tail -1)
echo "== demonstration on the changed tree"
(cd "$S" && PYTHONPATH="$S/mut/src" timeout 900 /venv/bin/python "$D/demonstration.py" > "$S/demo_changed.txt" 2>&1; echo "exit=$?" | tee -a "$S/demo_changed.txt" | tail -1)
echo "== check $prop $tier on the changed tree"
(cd /verif && PV_REPO="$S/mut" PYTHONPATH="$S/mut/src" PV_EVIDENCE_DIR="$S/ev" PV_REPLAY_DIR="$S/rp" timeout 3000 ./check "$prop" "$tier" > "$S/check.txt" 2>&1; echo "check exit=$?" >> "$S/check.txt")
grep -c '^VIOLATION' "$S/check.txt" | sed 's/^/violations: /'
grep '^VIOLATION' "$S/check.txt" | sed 's/.*obligation=//' | cut -c1-200 | head -8
tail -2 "$S/check.txt" | cut -c1-300
sed "s#$S#<scratch>#g" "$S/check.txt" > "$D/check_${prop}_${tier}.txt"
tail -3 "$S/demo_clean.txt" > "$D/demonstration_unchanged_tail.txt" 2>/dev/null
tail -15 "$S/demo_changed.txt" | sed "s#$S#<scratch>#g" > "$D/demonstration_changed_tail.txt" 2>/dev/null
