#!/usr/bin/env python3
"""tools/finalcounts.py: rewrites the block between <!-- FINALCOUNTS:BEGIN --> and <!-- FINALCOUNTS:END --> in DESIGN.md from evidence/*.json (the numbers of the last run of every check)"""
import glob, json, re
rows = []
tot_p = tot_b = 0
for f in sorted(glob.glob('/verif/evidence/C??.json')):
    d = json.load(open(f))
    c = d['coverage']
    nb = len(c.get('bounded', []))
    rows.append(f"| {d['property_id']} | {d['tier']} | {c['discharged']}/{c['obligations']} | {', '.join(f'{k} {v}' for k, v in c['by_backend'].items())} | {c['solver_time_s']} | "
                f"{len(c['functions_under_contract'])} | {nb} | {c['evaluations']} | {len(c.get('known_findings_hit', []))} | {len(c.get('unbound', []))} / {len(c.get('undecided', []))} |")
    tot_p += c['discharged']
    tot_b += c['evaluations']
table = ("| id | tier of the last run | P discharged / generated | back ends | solver s | functions under contract | bounded contracts | bounded evaluations | known findings hit | unbound / undecided |\n"
         "|----|----|----|----|----|----|----|----|----|----|\n" + "\n".join(rows) + f"\n\nTotals of these runs: {tot_p} obligations discharged, {tot_b} bounded evaluations.")
s = open('/verif/DESIGN.md').read()
s = re.sub(r'<!-- FINALCOUNTS:BEGIN -->.*<!-- FINALCOUNTS:END -->', '<!-- FINALCOUNTS:BEGIN -->\n' + table + '\n<!-- FINALCOUNTS:END -->', s, flags=re.S)
open('/verif/DESIGN.md', 'w').write(s)
print(len(rows), 'rows;', tot_p, 'obligations')
