#!/usr/bin/env python3
"""tools/seedmeta.py <seed-id> <property> "<one line description>"  -- writes seeded/<seed-id>/meta.json from the recorded check output"""
import json, re, sys, os, glob
sid, prop, desc = sys.argv[1], sys.argv[2], sys.argv[3]
note = sys.argv[4] if len(sys.argv) > 4 else None
d = f'/verif/seeded/{sid}'
patch = open(f'{d}/patch.diff').read()
files = re.findall(r'^\+\+\+ b/(.*)$', patch, re.M)
caught = {}
for f in sorted(glob.glob(f'{d}/check_*_*.txt')):
    m = re.match(r'check_(C\d+)_(\w+)\.txt', os.path.basename(f))
    full = open(f).read()
    txt = '\n'.join(l for l in full.splitlines() if l.startswith('VIOLATION'))
    unb = sorted(set(re.findall(r'^UNBOUND obligation=(\S+)', full, re.M)))
    obs = sorted(set(re.findall(r'obligation=(\S+)', txt)))
    keys = sorted(set(re.findall(r'key=(\S+)', txt)))
    ex = re.findall(r'check exit=(\d+)', full)
    caught[f'{m.group(1)} {m.group(2)}'] = {'exit': int(ex[-1]) if ex else None, 'violation_lines': txt.count('VIOLATION property='), 'obligations': obs[:12], 'keys': keys[:12], 'unbound_generators': unb}
def tail(n):
    p = f'{d}/{n}'
    return open(p).read().strip().splitlines()[-1] if os.path.exists(p) else None
meta = {'id': sid, 'property': prop, 'origin': 'fresh sub-agent given only the property text and a scratch worktree', 'description': desc, 'files': files,
        'demonstration': {'unchanged_tree': tail('demonstration_unchanged_tail.txt'), 'changed_tree': tail('demonstration_changed_tail.txt')},
        'existing_tests': 'pass (as reported by the agent: full suite, only the baseline always-fail tests fail)',
        'checks': caught, 'detected': any(v['exit'] == 1 for v in caught.values()),
        'detected_by_proof_part': any(not o.split('/')[0].endswith('.bounded') for v in caught.values() for o in v['obligations'])}
if note:
    meta['history'] = note
json.dump(meta, open(f'{d}/meta.json', 'w'), indent=1)
print(json.dumps({k: meta[k] for k in ('id', 'detected', 'detected_by_proof_part')}))
