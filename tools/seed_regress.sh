#!/bin/bash
# tools/seed_regress.sh [seed-id ...]: applies every seeded patch in turn to /repo, runs the property's quick check (evidence to a scratch dir), restores /repo,
# and reports whether the check exits 1 with at least one VIOLATION line.  Writes /verif/seeded/REGRESSION.txt
cd /verif
ids="$@"; [ -z "$ids" ] && ids=$(ls seeded | grep -E '^C[0-9]+-[a-z]$')
out=/verif/seeded/REGRESSION.txt; : > $out.tmp
if [ -n "$(git -C /repo status --porcelain --untracked-files=no -- src)" ]; then echo "/repo/src is not clean"; exit 9; fi
for sid in $ids; do
  prop=${sid%%-*}
  S=$(mktemp -d /tmp/seedreg.XXXXXX)
  git -C /repo apply /verif/seeded/$sid/patch.diff || { echo "$sid patch does not apply" | tee -a $out.tmp; continue; }
  PV_EVIDENCE_DIR=$S/ev PV_REPLAY_DIR=$S/rp timeout 3000 ./check $prop quick > $S/out.txt 2>&1; rc=$?
  git -C /repo checkout -- src
  nv=$(grep -c '^VIOLATION' $S/out.txt); np=$(grep '^VIOLATION' $S/out.txt | grep -vc 'bounded/')
  echo "$sid exit=$rc violations=$nv of-which-P=$np" | tee -a $out.tmp
  rm -rf $S
done
mv $out.tmp $out
